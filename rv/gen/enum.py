"""Small-scope exhaustive enumerations."""
import itertools


def words(symbols, max_len, min_len=0):
    """All sequences over `symbols` (each symbol may be a multi-character string) of min_len..max_len symbols."""
    for n in range(min_len, max_len + 1):
        for tup in itertools.product(symbols, repeat=n):
            yield tup


def count_words(nsym, max_len, min_len=0):
    return sum(nsym ** n for n in range(min_len, max_len + 1))


def compositions(n):
    """All 2^(n-1) ways of cutting a sequence of n items into consecutive non-empty pieces, as lists of piece lengths."""
    if n == 0:
        yield []
        return
    for mask in range(1 << (n - 1)):
        cuts = []
        last = 0
        for i in range(n - 1):
            if mask >> i & 1:
                cuts.append(i + 1 - last)
                last = i + 1
        cuts.append(n - last)
        yield cuts
