"""Workload generators: tables, header names, typed expressions, structured queries (see rv/model/qast.py)."""
import re

from ..model import qast

CELLS = ['', 'a', 'b', 'ab', 'ba', '0', '1', '2', '10', '-1', '2.5', 'x|y', 'a b', 'É', "it's", 'q"t', ',', 'NR', 'None', 'a1', ' ', '\ufeffb', 'e\u0301b', '\u00e9a', 'e\u0301']      # a byte order mark is data when it is in a cell; canonically equivalent spellings are different strings (compared, sorted and deduplicated code point by code point)
SMALL_CELLS = ['a', 'b', 'ab', '1', '2', '10', '', 'e\u0301b', '\u00e9a', 'e\u0301']
NAME_POOL = ['name', 'age', 'x1', 'Col_3', 'home_town', 'x y', 'Dist (km)', 'q"uote', "it's", 'Total%', 'k#1', 'été', 'b_c', 'zz', 'v', 'A', 'a_', 'ID', 'x-y', '[k]', 'back\\slash', 'tab\there', '', 'NR', 'NF', 'NU', 'col1', 'col2', 'col3', 'col4', 'dir\\new', 'a\\tb\\r']
STR_LITS = ['', 'x', 'ab', ' ', 'a,b', 'a)b', '(', 'x, y', "it's", 'q"t', '[1]', 'É', '%', 'a1', '#', '=', ';', '$$', 'a$&b', 'US$', '$1', "$'", 'x\\\\', 'such as x, y', 'n,COUNT(*)', 'cols: a, *, b', ' as z', 'top 1 distinct', 'a\u2028b', 'x\x85 y', 'p\x0c#q', 'l\u2029 #r', '\x1c', 'a\tbc', 'x\t y', '\t\t', 'reply from a friend', 'x FROM  A y', 'then update a set b', 'join b on a1', 'group by a1 ']
LIKE_PATS = ['%', 'a%', '%b', '_', 'a_', '%a%', 'ab', '_%', '1%', '%.%', 'x|y', '']


INT_CELLS = [0, 1, 2, 3, 7, 10, 12, 1, 2]


def gen_table(rng, max_rows=6, max_cols=4, ragged_p=0.25, none_p=0.08, cells=None, min_rows=0, wide_p=0.04, min_cols=1, int_col_p=0.1):
    cells = cells or (CELLS if rng.random() < 0.5 else SMALL_CELLS)
    n = rng.randrange(min_rows, max_rows + 1)
    r_ = rng.random()
    if r_ < 0.003:
        n = rng.choice([257, 300, 520])      # beyond any plausible internal batch / buffer / pruning size
    elif r_ < 0.04:
        n = rng.randrange(max_rows, 40)
    w = rng.randrange(min_cols, max_cols + 1)
    if rng.random() < wide_p:
        w = 12
    ragged = rng.random() < ragged_p
    with_none = rng.random() < 0.3
    # list / pandas / sqlite sources deliver native numbers: some columns hold (non-negative) ints instead of strings
    int_cols = set(j for j in range(w + 2) if rng.random() < int_col_p)
    t = []
    for _ in range(n):
        ww = w
        if ragged and rng.random() < 0.4:
            ww = rng.randrange(0, w + 2)
        rec = []
        for _j in range(ww):
            if with_none and rng.random() < none_p:
                rec.append(None)
            elif _j in int_cols:
                rec.append(rng.choice(INT_CELLS))
            else:
                rec.append(rng.choice(cells))
        t.append(rec)
    return t


def table_width(t):
    return max([len(r) for r in t] or [0])


def gen_names(rng, n, pool=None, exclude=()):
    pool = [x for x in (pool or NAME_POOL) if x not in exclude]
    rng.shuffle(pool)
    names = pool[:n]
    k = 0
    while len(names) < n:
        k += 1
        names.append('c%d' % k)
    return names


def has_ab_token(name):
    """names containing an `a.ident` / `b.ident` token are excluded by the quantifiers (acknowledged limitation)."""
    return re.search(r'(?:^|[^_a-zA-Z0-9])[ab]\.[_a-zA-Z]', name) is not None


class G(object):
    """Typed expression / query generator over concrete tables (so that static types guarantee totality)."""

    def __init__(self, rng, A, a_names=None, B=None, b_names=None, neutral=True):
        self.rng = rng
        self.A, self.B = A, B
        self.a_names, self.b_names = a_names, b_names
        self.neutral = neutral
        self.wa = table_width(A)
        self.wb = table_width(B) if B is not None else 0
        self.left_join = False
        self.use_b = False
        self.in_update = False

    # ---- typing
    def col_type(self, table, j):
        t = self.A if table == 'a' else self.B
        if table == 'b' and self.left_join:
            return 'opt'
        if j >= (self.wa if table == 'a' else self.wb) and t:
            return 'opt'
        kinds = set()
        for r in t:
            if len(r) <= j or r[j] is None or isinstance(r[j], bool):
                return 'opt'
            kinds.add('str' if isinstance(r[j], str) else 'int' if isinstance(r[j], int) else 'other')
        if kinds == {'int'}:
            return 'int'
        return 'str' if kinds <= {'str'} else 'opt'

    def cols(self, table, typ):
        w = self.wa if table == 'a' else self.wb
        lim = w + 1 if typ == 'opt' else w
        names = self.a_names if table == 'a' else self.b_names
        if names is not None:
            lim = min(lim, len(names)) if typ != 'opt' else lim
        return [j for j in range(max(lim, 0)) if self.col_type(table, j) == typ]

    def spelling(self, table, j):
        names = self.a_names if table == 'a' else self.b_names
        opts = ['var', 'var', 'arr']
        if names is not None and j < len(names) and not has_ab_token(names[j]) and names.count(names[j]) == 1:
            opts += ['dq', 'sq']
            if qast.attr_safe(names[j]):
                opts += ['attr', 'attr']
        return self.rng.choice(opts)

    def field(self, typ):
        """A field reference of static type typ ('str' | 'opt'), or None if there is none."""
        cands = [('a', j) for j in self.cols('a', typ)]
        if self.use_b and self.B is not None:
            cands += [('b', j) for j in self.cols('b', typ)]
        if not cands:
            return None
        table, j = self.rng.choice(cands)
        return ['field', table, j, self.spelling(table, j)]

    # ---- expressions
    def strlit(self):
        return ['str', self.rng.choice(STR_LITS), self.rng.choice(["'", '"'])]

    def e_str(self, d=2):
        r = self.rng.random()
        f = self.field('str')
        if d <= 0 or r < 0.45:
            if f is not None and self.rng.random() < 0.75:
                return f
            return self.strlit()
        if r < 0.7:
            return ['concat', self.e_str(d - 1), self.e_str(d - 1)]
        if r < 0.85:
            return ['cond', self.e_bool(d - 1), self.e_str(d - 1), self.e_str(d - 1)]
        return ['tostr', self.e_int(d - 1)]

    def e_int(self, d=2, nonneg=False):
        r = self.rng.random()
        if d <= 0 or r < 0.4:
            c = self.rng.random()
            if c < 0.35:
                ints = [('a', j) for j in self.cols('a', 'int')] + ([('b', j) for j in self.cols('b', 'int')] if self.use_b and self.B is not None else [])
                if ints and self.rng.random() < 0.7:
                    table, j = self.rng.choice(ints)
                    return ['field', table, j, self.spelling(table, j)]
                return ['int', self.rng.randrange(0, 13)]
            if c < 0.65:
                return ['NR']
            if c < 0.8:
                return ['NF']
            if self.in_update and c < 0.9:
                return ['NU']
            return ['len', self.e_str(0)]
        if r < 0.6:
            return ['len', self.e_str(d - 1)]
        if not self.neutral and self.rng.random() < 0.15:
            return ['floordiv', self.e_int(d - 1, nonneg), ['int', self.rng.randrange(1, 6)]]
        op = self.rng.choice(['+', '*', '%'] if nonneg else ['+', '-', '*', '%'])
        if op == '%':
            return ['arith', '%', self.e_int(d - 1, True), ['int', self.rng.randrange(1, 6)]]
        return ['arith', op, self.e_int(d - 1, nonneg), self.e_int(d - 1, nonneg)]

    def e_bool(self, d=2):
        if self.rng.random() < 0.05:
            # a true division compared with a number (the quotient itself would print differently in the two languages)
            return ['cmp', self.rng.choice(['>', '<', '>=']), ['div', self.e_int(0), ['int', self.rng.choice([1, 2, 4, 5, 8])]], ['int', self.rng.randrange(0, 5)]]
        r = self.rng.random()
        if d <= 0 or r < 0.5:
            c = self.rng.random()
            if c < 0.35:
                return ['cmp', self.rng.choice(['==', '!=', '<', '<=', '>', '>=']), self.e_str(max(d - 1, 0)), self.e_str(max(d - 1, 0))]
            if c < 0.65:
                return ['cmp', self.rng.choice(['==', '!=', '<', '<=', '>', '>=']), self.e_int(max(d - 1, 0)), self.e_int(max(d - 1, 0))]
            if c < 0.8:
                return ['like', self.e_str(0), self.rng.choice(LIKE_PATS)]
            f = self.field('opt')
            if f is not None:
                if self.rng.random() < 0.5:
                    return ['isnone', f]
                # a field that may hold None or a number: strict (in)equality, which is what Python's == means (JS == would coerce 0 == '')
                return ['cmp', self.rng.choice(['===', '!==']), f, self.strlit()]
            return ['cmp', '==', self.e_str(0), self.strlit()]
        if r < 0.7:
            return ['and', self.e_bool(d - 1), self.e_bool(d - 1)]
        if r < 0.85:
            return ['or', self.e_bool(d - 1), self.e_bool(d - 1)]
        return ['not', self.e_bool(d - 1)]

    def e_list(self, d=1):
        r = self.rng.random()
        if r < 0.25:
            return ['split', self.e_str(0), self.rng.choice([',', '|', ' ', 'b'])]
        if r < 0.45 and d > 0:
            # a list that is empty for some records and not for others
            return ['cond', self.e_bool(1), self.e_list(0), ['list', []]] if self.rng.random() < 0.5 else ['cond', self.e_bool(1), ['list', []], self.e_list(0)]
        n = self.rng.choice([0, 1, 2, 2, 3])
        if d > 0 and not getattr(self, 'hashable_only', False) and self.rng.random() < 0.12:
            # a list whose elements are lists themselves (pairs, an empty one among them): under UNNEST each of them is ONE value of the output record
            return ['list', [self.rng.choice([['list', [self.e_str(0), self.e_int(0)]], ['list', []], ['split', self.e_str(0), ','], ['list', [self.e_str(0)]]]) for _ in range(max(1, n))]]
        return ['list', [self.e_str(d) if self.rng.random() < 0.6 else self.e_int(d) for _ in range(n)]]

    def e_any(self, d=2, allow_list=True):
        r = self.rng.random()
        if r < 0.4:
            return self.e_str(d)
        if r < 0.6:
            return self.e_int(d)
        if r < 0.75:
            return self.e_bool(d)
        if r < 0.9 or not allow_list:
            f = self.field('opt')
            return f if f is not None else self.e_str(d)
        return self.e_list(1)

    # ---- clauses
    def alias(self):
        return self.rng.choice(['x', 'total', 'Name2', 'v_1', 'zz', 'k9', 'res'])

    def gen_join(self, left=None, strict_ok=False):
        rng = self.rng
        types = ['JOIN', 'INNER JOIN', 'LEFT JOIN', 'LEFT OUTER JOIN']
        if strict_ok:
            types.append('STRICT LEFT JOIN')
        jt = rng.choice(types) if left is None else rng.choice(['LEFT JOIN', 'LEFT OUTER JOIN'] if left else ['JOIN', 'INNER JOIN'])
        pairs = []
        for _ in range(rng.choice([1, 1, 1, 2, 3])):
            r = rng.random()
            if r < 0.12:
                lhs = rng.choice(['NR', 'aNR', 'a.NR'] if self.a_names is None else ['NR', 'aNR'])
            else:
                j = rng.randrange(0, max(1, self.wa))
                lhs = ['field', 'a', j, self.spelling('a', j)]
                if lhs[3] == 'sq':
                    lhs[3] = 'dq'
            r = rng.random()
            if r < 0.12 or isinstance(lhs, str) and r < 0.5:
                rhs = rng.choice(['bNR', 'b.NR'] if self.a_names is None else ['bNR'])
            else:
                j = rng.randrange(0, max(1, self.wb))
                rhs = ['field', 'b', j, self.spelling('b', j)]
                if rhs[3] == 'sq':
                    rhs[3] = 'dq'
            pairs.append([lhs, rhs, rng.choice(['==', '==', '=']), (not isinstance(lhs, str)) and rng.random() < 0.3])
        self.left_join = jt in ('LEFT JOIN', 'LEFT OUTER JOIN')
        self.use_b = True
        return {'type': jt, 'table': rng.choice(['b', 'b', 'B']), 'pairs': pairs}

    def gen_items(self, n=None, allow_star=True, allow_unnest=True, allow_list=True, allow_alias=True):
        rng = self.rng
        n = n or rng.choice([1, 1, 2, 2, 3, 4])
        items = []
        have_unnest = False
        for _ in range(n):
            r = rng.random()
            if allow_star and r < 0.1:
                items.append({'kind': 'star'})
            elif allow_star and r < 0.16:
                items.append({'kind': 'astar'})
            elif allow_star and r < 0.22 and self.use_b and self.B is not None:
                items.append({'kind': 'bstar'})
            elif allow_unnest and not have_unnest and r < 0.32:
                have_unnest = True
                items.append({'kind': 'unnest', 'expr': self.e_list(1), 'spelling': rng.choice(['UNNEST', 'unnest', 'Unnest'])})
            elif r < 0.55:
                f = self.field(rng.choice(['str', 'str', 'opt'])) or self.field('str') or self.field('opt') or self.strlit()
                items.append({'kind': 'expr', 'expr': f})
            else:
                items.append({'kind': 'expr', 'expr': self.e_any(2, allow_list)})
            if allow_alias and items[-1]['kind'] in ('expr', 'unnest') and rng.random() < 0.18:
                items[-1]['alias'] = self.alias()
                items[-1]['as_kw'] = rng.choice(['as', 'AS'])
        # a header-less table cannot combine star and alias (documented parsing error): keep the generator inside the supported grammar
        if self.a_names is None and any(it['kind'] in ('star', 'astar', 'bstar') for it in items):
            for it in items:
                it.pop('alias', None)
        return items

    def gen_where(self):
        r = self.rng.random()
        if r < 0.8:
            return self.e_bool(2)
        if r < 0.9:
            return self.e_str(1)      # truthiness of a string
        return self.e_int(1)          # truthiness of an int

    def gen_order(self):
        rng = self.rng
        keys = []
        for _ in range(rng.choice([1, 1, 2])):
            keys.append(self.e_str(1) if rng.random() < 0.6 else self.e_int(1))
        return {'keys': keys, 'desc': rng.random() < 0.45, 'asc_kw': rng.random() < 0.3, 'dir_kw_case': rng.choice(['upper', 'upper', 'lower', 'title', 'mixed', 'mixed2'])}

    def gen_select(self, features):
        """features: set of 'where' 'join' 'order' 'distinct' 'count' 'top' 'unnest' 'except' 'star'"""
        rng = self.rng
        q = {'kind': 'select', 'items': [], 'distinct': None, 'top': None, 'top_kw': 'top', 'where': None, 'join': None, 'order': None, 'group': None, 'except': None, 'assign': [], 'with': None}
        if 'join' in features and self.B is not None:
            q['join'] = self.gen_join(strict_ok='strict' in features)
        hashable_only = 'distinct' in features or 'count' in features
        self.hashable_only = hashable_only      # DISTINCT hashes the output record: list-valued fields are outside its domain
        if 'except' in features and not q['join']:
            cols = list(range(max(1, self.wa)))
            rng.shuffle(cols)
            q['except'] = []
            for j in cols[:rng.choice([1, 1, 2])]:
                sp = self.spelling('a', j)
                q['except'].append(['field', 'a', j, 'dq' if sp == 'sq' else sp])
            if rng.random() < 0.25:
                # the same column named twice (possibly in two spellings), followed or preceded by the others
                j = q['except'][0][2]
                sp = self.spelling('a', j)
                q['except'].insert(rng.randrange(0, len(q['except']) + 1), ['field', 'a', j, 'dq' if sp == 'sq' else sp])
        else:
            q['items'] = self.gen_items(allow_unnest='unnest' in features or rng.random() < 0.15, allow_list=not hashable_only, allow_star='nostar' not in features)
            if 'unnest' in features and not any(it['kind'] == 'unnest' for it in q['items']):
                q['items'].insert(rng.randrange(0, len(q['items']) + 1), {'kind': 'unnest', 'expr': self.e_list(1), 'spelling': rng.choice(['UNNEST', 'unnest', 'Unnest'])})
            if 'star' in features and not any(it['kind'] in ('star', 'astar', 'bstar') for it in q['items']):
                q['items'].insert(rng.randrange(0, len(q['items']) + 1), {'kind': rng.choice(['star', 'astar'] + (['bstar'] if q['join'] else []))})
                if self.a_names is None:
                    for it in q['items']:
                        it.pop('alias', None)
        if 'where' in features:
            q['where'] = self.gen_where()
        if 'order' in features:
            q['order'] = self.gen_order()
        if 'count' in features:
            q['distinct'] = 'count'
        elif 'distinct' in features:
            q['distinct'] = 'distinct'
        if 'top' in features:
            q['top'] = rng.randrange(0, len(self.A) + 2)
            q['top_kw'] = rng.choice(['top', 'limit'])
            if rng.random() < 0.08:
                # TOP n and LIMIT m in one query: LIMIT decides (whichever is smaller)
                q['top_kw'] = 'limit'
                q['top_ignored'] = rng.randrange(0, len(self.A) + 3)
        q['bare'] = rng.random() < 0.5      # clause-level expressions written without enclosing parentheses
        return q

    def gen_update(self, features):
        rng = self.rng
        self.in_update = True
        q = {'kind': 'update', 'items': [], 'distinct': None, 'top': None, 'top_kw': 'top', 'where': None, 'join': None, 'order': None, 'group': None, 'except': None, 'assign': [], 'with': None}
        if 'join' in features and self.B is not None:
            q['join'] = self.gen_join(strict_ok=rng.random() < 0.4)      # UPDATE ... STRICT LEFT JOIN: an A record without exactly one match fails the query
        lim = self.wa + (1 if 'beyond' in features else 0)
        if self.a_names is not None:
            lim = min(lim, len(self.a_names)) if 'beyond' not in features else lim
        cols = list(range(max(1, lim)))
        rng.shuffle(cols)
        n = rng.choice([1, 1, 2, 3])
        targets = cols[:n]
        if 'cycle' in features and len(cols) >= 2:
            # swaps and cycles: a1 = a2, a2 = a3, a3 = a1
            k = min(len(cols), rng.choice([2, 3]))
            cyc = cols[:k]
            for i, j in enumerate(cyc):
                src = cyc[(i + 1) % k]
                q['assign'].append([['field', 'a', j, self.assign_spelling(j)], ['field', 'a', src, self.spelling('a', src)]])
        else:
            for j in targets:
                q['assign'].append([['field', 'a', j, self.assign_spelling(j)], self.e_any(2, allow_list=False)])
        if q['assign'] and rng.random() < 0.08 and getattr(self, 'py_fstrings', True):
            # Python only: a right-hand side that reads columns (the target among them) nowhere but inside an f-string
            a0 = q['assign'][rng.randrange(len(q['assign']))]
            j = a0[0][2]
            sp = a0[0][3] if a0[0][3] in ('var', 'arr', 'attr') else 'var'
            parts = [['field', 'a', j, sp], rng.choice(['!', '-', ' {x} ', "it's"]), rng.choice([['NU'], ['NR'], ['field', 'a', 0, 'var']])]
            rng.shuffle(parts)
            a0[1] = ['fstr', parts]
        if q['assign'] and rng.random() < 0.15:
            # the same column assigned twice (possibly under two spellings): every right-hand side still sees the ORIGINAL record, the later one wins
            f0 = q['assign'][rng.randrange(len(q['assign']))][0]
            j = f0[2]
            tgt = ['field', 'a', j, self.assign_spelling(j)]
            src = ['field', 'a', j, self.spelling('a', j)]
            rhs = src if self.col_type('a', j) != 'str' else ['concat', src, ['str', rng.choice(['?', '!', 'x'])]]
            q['assign'].insert(rng.randrange(1, len(q['assign']) + 1), [tgt, rhs])
        if 'where' in features:
            q['where'] = self.gen_where()
        q['bare'] = rng.random() < 0.5
        if rng.random() < 0.2:
            # a LIMIT clause is accepted in UPDATE queries and has no effect: every input record is still emitted once
            q['top'] = rng.randrange(0, 4)
            q['top_kw'] = 'limit'
        return q

    def assign_spelling(self, j):
        sp = self.spelling('a', j)
        names = self.a_names
        if sp in ('dq', 'sq'):
            # the assignment target must match [.#a-zA-Z0-9\[\]_]* once literals are replaced by placeholders: any literal is fine
            return 'dq' if sp == 'sq' else sp
        return sp


def ctx_of(a_names, b_names):
    return qast.Ctx(a_names, b_names)
