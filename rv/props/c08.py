"""C08 - Query meaning is invariant under spelling; string literals are opaque.

Metamorphic monitor: each structured query is rendered canonically and in k respellings (keyword case, clause order, whitespace,
comment lines, trailing semicolon, aN <-> a[N], TOP <-> LIMIT, JOIN <-> INNER JOIN, LEFT <-> LEFT OUTER, = <-> == and swapped sides,
redundant FROM a / UPDATE a SET); every spelling must give the identical (rows, header, warnings, error class), which must also be the
reference result.  Literal opacity: literals holding keywords and metacharacters must reach the output verbatim.
"""
import copy
import random
import re

from .. import env, util
from ..gen import queries as gq
from ..model import qast, refsem
from ..monitors import boundary
from . import common, c01, c02, c04, c05

PROPERTY = 'C08'
LEVEL = 'exploration'
CASES = {'quick': 6400, 'thorough': 64000}
RESPELLINGS = {'quick': 6, 'thorough': 10}
NSHARDS = {'quick': 16, 'thorough': 32}

LITERAL_TOKEN_FINDING = 'py-literal-with-attribute-token-under-header'

KEYWORDS = ['select', 'SELECT', 'update', 'where', 'WHERE', 'join', 'inner join', 'left join', 'LEFT OUTER JOIN', 'strict left join', 'order by', 'ORDER BY a1 DESC', 'group by', 'limit', 'LIMIT 1',
            'except', 'with', 'with (header)', 'WITH (noheader)', 'from', 'from a', 'top 1', 'TOP', 'distinct', 'distinct count', 'as', ' as x', ' AS y', 'on', 'and', 'set', 'asc', 'desc', ' DESC']
META = ['*', 'a.*', 'b.*', '=', '==', ' = ', '#', '# c', ',', ', ', ';', 'x;', 'a1', 'b2', 'a[1]', 'a10', 'NR', 'NF', 'count(*)', 'COUNT(*)', '(', ')', '[', ']]', '"', "'", '\\', '\\\\', "\\'", '\\"', 'a\tb', '\t', 'a\\nb',
        ' ', '  ', '', '___RBQL', '$$', 'a$&b', 'US$', '$1', "$'", '$`', '5$', "it's", 'say "hi"', 'a.name', 'b.x y', 'where a1 == "x"', 'select * from a', '=a2', 'a2=', 'é€', 'UNNEST(', 'like(']


TRIPLE = [("'''", "it's where a1"), ("'''", "don't, a2 = won't"), ("'''", "'a' order by 'b"), ('"""', 'say "hi" limit 1'), ('"""', 'x" select "y'), ("'''", "a 'b' c"), ('"""', "it's \"q\" ;")]


def literal(rng):
    if rng.random() < 0.06:
        q3, body = rng.choice(TRIPLE)       # Python only: triple-quoted, with its own quote character inside
        return ['str', body, q3]
    r = rng.random()
    if r < 0.4:
        s = rng.choice(KEYWORDS)
    elif r < 0.8:
        s = rng.choice(META)
    else:
        s = rng.choice(KEYWORDS) + rng.choice([' ', ',', '#', '=', '']) + rng.choice(META)
    e = ['str', s, rng.choice(["'", '"'])]
    if '\t' in s and rng.random() < 0.5:
        e.append('rawtab')
    return e


def has_ab_token(s):
    return re.search(r'(?:^|[^_a-zA-Z0-9])[ab]\.[_a-zA-Z]', s) is not None


def literals_of(q):
    out = []

    def walk(e):
        if isinstance(e, list):
            if e and e[0] == 'str' and isinstance(e[1], str):
                out.append(e)
            for x in e:
                walk(x)
        elif isinstance(e, dict):
            for v in e.values():
                walk(v)
    walk(q)
    return out


def inject_literals(rng, q, n_lits):
    """Put literals into select items / WHERE operands / UPDATE right-hand sides / ORDER BY keys."""
    if q['kind'] == 'select' and q.get('except') is None:
        for _ in range(n_lits):
            it = {'kind': 'expr', 'expr': literal(rng)}
            if rng.random() < 0.3:
                it['expr'] = ['concat', literal(rng), literal(rng)]
            q['items'].insert(rng.randrange(0, len(q['items']) + 1), it)
    elif q['kind'] == 'update':
        for a in q['assign']:
            if rng.random() < 0.7:
                a[1] = literal(rng) if rng.random() < 0.6 else ['concat', literal(rng), literal(rng)]
    if rng.random() < 0.25 and q.get('except') is None:
        # Python floor division: `//` starts a comment in the JS port only, so a line break in front of it must not matter here
        fd = ['floordiv', ['arith', '+', ['NR'], ['int', rng.randrange(0, 9)]], ['int', rng.randrange(1, 4)]]
        if q['kind'] == 'select' and rng.random() < 0.6:
            q['items'].insert(rng.randrange(0, len(q['items']) + 1), {'kind': 'expr', 'expr': fd})
        else:
            w = ['cmp', rng.choice(['!=', '==', '<']), fd, ['int', rng.randrange(0, 5)]]
            q['where'] = w if q.get('where') is None else ['and', q['where'], w]
    if rng.random() < 0.4:
        w = ['cmp', rng.choice(['!=', '==']), literal(rng), literal(rng)]
        q['where'] = w if q.get('where') is None else ['or', q['where'], w]
    if q.get('order') and rng.random() < 0.3:
        q['order']['keys'].append(literal(rng))


def gen_case(rng, i):
    k = i % 6
    if k == 0:
        case = c01.gen_case(rng, i)
    elif k == 1:
        q, T = c02.gen_base(rng, i)
        if rng.random() < 0.5:
            q['top'] = rng.randrange(0, 4)
        case = common.case_json(q, T)
    elif k == 2:
        case = c04.gen_case(rng, (i // 6) * 12 + rng.choice([0, 2, 3, 4, 6, 10, 11]))
    elif k == 3:
        case = c05.gen_case(rng, i)
    else:
        # literal-heavy select over a tiny table (incl. 11+ literals: placeholder prefix clashes LITERAL1 / LITERAL10)
        A = [['a', 'b'], ['c', 'd']]
        names = ['n1', 'n2'] if rng.random() < 0.3 else None
        q = {'kind': 'select', 'items': [{'kind': 'expr', 'expr': ['field', 'a', 0, 'var']}], 'distinct': None, 'top': None, 'top_kw': 'top', 'where': None, 'join': None, 'order': None, 'group': None, 'except': None, 'assign': [], 'with': None}
        case = common.case_json(q, {'A': A, 'B': None, 'a_names': names, 'b_names': None})
        inject_literals(rng, q, rng.choice([1, 2, 3, 12, 13]))
    q = case['q']
    if k < 4:
        if q.get('group') or any(it['kind'] == 'agg' for it in q.get('items', [])):
            pass
        else:
            inject_literals(rng, q, rng.choice([0, 1, 1, 2]))
    if rng.random() < 0.15:
        q['with'] = rng.choice(['header', 'noheader'])     # harmless on list tables, but it must be parsed wherever the clauses are
    return case


def observe(ns, qtext, case):
    o = boundary.run_py(ns, qtext, case['A'], case['B'], case['a_names'], case['b_names'], scribble=False)
    return o, (o.rows, o.header, sorted(o.warnings), o.error)


def classify(case, o):
    """Known finding: with a header, a literal containing an a.ident / b.ident token is taken for an attribute variable (acknowledged TODO
    in parse_attribute_variables).  Confirmed by mechanism: neutralising the token inside the literals makes the very same query pass."""
    if case['a_names'] is None or o.error != 'parsing':
        return None
    lits = [l for l in literals_of(case['q']) if has_ab_token(l[1])]
    if not lits:
        return None
    return LITERAL_TOKEN_FINDING


def plan(tier, seed):
    k = NSHARDS[tier]
    return [{'k': k, 'i': i, 'n': CASES[tier] // k} for i in range(k)]


def flush_js(res, node, batch):
    reqs = []
    for case, texts in batch:
        for t in texts:
            reqs.append({'query': t, 'input': case['A'], 'join': case['B'], 'input_cols': case['a_names'], 'join_cols': case['b_names']})
    outs = node.call({'op': 'query_batch', 'cases': reqs})['results']
    k = 0
    for case, texts in batch:
        obs = []
        for t in texts:
            o = outs[k]
            k += 1
            obs.append((o['out'], o['header'], sorted(o['warnings']), common.js_error_class(o['error'])))
        res.evaluations += len(texts)
        res.count('js_respelling_runs', len(texts) - 1)
        # the canonical JS spelling against the reference (literals must reach the output verbatim on the JS port too)
        ref = refsem.run(case['q'], case['A'], case['B'], case['a_names'], case['b_names'])
        o0 = outs[k - len(texts)]
        casej = dict(case, query_text_js=texts[0])
        if not (obs[0][3] == 'parsing' and case['a_names'] is not None and any(has_ab_token(l[1]) for l in literals_of(case['q']))):
            res.count('js_reference_comparisons')
            common.compare(res, PROPERTY, 'js', casej, common.js_got(o0), ref, True, common.classify_known_js)
        for t, ob in zip(texts[1:], obs[1:]):
            if ob != obs[0]:
                if obs[0][3] == 'parsing' and case['a_names'] is not None and any(has_ab_token(l[1]) for l in literals_of(case['q'])):
                    continue
                res.violation('js:spelling-changes-result:' + common.feature_sig(case['q']), '[js] two spellings of one query differ:\n  canonical %r -> %r\n  respelled %r -> %r' % (texts[0], obs[0], t, ob), dict(case, respelled=t, engine='js'))
    del batch[:]


METACHAR_NAMES = ['qty, total', 'x;y', 'n=1', 'a, b, c', 'p#q', 'select *', 'k ,', ',', 'as v', 'r (s, t)', 'u == w', '[l, m]']


def leg_named_spellings(ns, res, rng, js):
    """Interchangeable spellings of a column under names that hold RBQL metacharacters (commas, =, #, ;, keywords, brackets): aN and a["name"] / a['name']
    denote the same column in every clause that takes a column - the select list, EXCEPT lists, UPDATE targets, JOIN keys, WHERE, ORDER BY."""
    from ..model import qast
    for n in range(120):
        w = rng.randrange(2, 5)
        names = ['id'] + rng.sample(METACHAR_NAMES, w - 1)
        A = [['r%dc%d' % (r, c) for c in range(w)] for r in range(3)]
        B = [[A[r][1], 'J%d' % r] for r in range(3)]
        j = rng.randrange(1, w)
        shapes = [('select * except %s', None), ('select * except a1, %s', None), ('select a1, %s where %s != "zz" order by %s desc', None), ('update %s = "U" where a1 != "r1c0"', None), ('update set %s = a1', None),
                  ('select a1, b2 join b on %s == b1', B), ('select %s, count(*) group by %s', None)]
        tmpl, Bt = shapes[n % len(shapes)]
        if Bt is not None:
            Bt = [[A[r][j], 'J%d' % r] for r in range(3)]
        spellings = ['a%d' % (j + 1), 'a[%s]' % qast.lit(names[j], '"'), 'a[%s]' % qast.lit(names[j], "'")]
        texts = [tmpl.replace('%s', sp) for sp in spellings]
        obs = []
        for t in texts:
            out, warnings, hdr, err = [], [], [], None
            try:
                ns.rbql.query_table(t, [list(r) for r in A], out, warnings, None if Bt is None else [list(r) for r in Bt], list(names), None if Bt is None else ['bk', 'bv'], hdr)
            except Exception as e:
                err = util.error_class(e)
            obs.append((out, err))
            res.evaluations += 1
            res.count('named_spelling_runs:py')
        res.nontrivial('named-spellings', tmpl, repr(names), j)
        if obs[0][1] is not None or any(ob != obs[0] for ob in obs[1:]):
            res.violation('py:named-spelling-changes-result', '[py] spellings of one column (header %r) differ or fail: %r' % (names, list(zip(texts, obs))), {'leg': 'named-spellings', 'engine': 'py', 'names': names, 'texts': texts, 'A': A, 'B': Bt})
        if js is not None:
            outs = js.call({'op': 'query_batch', 'cases': [{'query': t, 'input': [list(r) for r in A], 'join': Bt, 'input_cols': list(names), 'join_cols': None if Bt is None else ['bk', 'bv']} for t in texts]})['results']
            jobs = [(o['out'], common.js_error_class(o['error'])) for o in outs]
            res.evaluations += len(texts)
            res.count('named_spelling_runs:js', len(texts))
            if jobs[0][1] is not None or any(ob != jobs[0] for ob in jobs[1:]):
                res.violation('js:named-spelling-changes-result', '[js] spellings of one column (header %r) differ or fail: %r' % (names, list(zip(texts, jobs))), {'leg': 'named-spellings', 'engine': 'js', 'names': names, 'texts': texts, 'A': A, 'B': Bt})


def run_shard(spec, res):
    ns = env.import_rbql()
    rng = random.Random(spec['seed'] * 2750159 + spec['i'])
    from ..js import bridge
    js = bridge.Node.start()
    if js is None:
        res.notes.append('js_leg: unavailable (no node)')
    js_batch = []
    try:
        if spec['i'] == 0:
            leg_named_spellings(ns, res, rng, js)
        _run_cases(ns, res, spec, rng, js, js_batch)
        if js is not None and js_batch:
            flush_js(res, js, js_batch)
    finally:
        if js is not None:
            js.close()


def _run_cases(ns, res, spec, rng, js, js_batch):
    for n in range(spec['n']):
        case = gen_case(rng, n)
        ctx = qast.Ctx(case['a_names'], case['b_names'])
        q = case['q']
        canonical = qast.render(q, ctx, 'py')
        case['query_text'] = canonical
        ref = refsem.run(q, case['A'], case['B'], case['a_names'], case['b_names'])
        o0, obs0 = observe(ns, canonical, case)
        res.evaluations += 1
        res.count('canonical_runs')
        lits = literals_of(q)
        finding = classify(case, o0)
        if finding is not None:
            # confirm the mechanism: the same query with the token neutralised inside the literals must behave like the reference
            q2 = copy.deepcopy(q)
            for l in literals_of(q2):
                l[1] = re.sub(r'(^|[^_a-zA-Z0-9])([ab])\.(?=[_a-zA-Z])', r'\1\2:', l[1])
            t2 = qast.render(q2, ctx, 'py')
            o2, _ = observe(ns, t2, case)
            ref2 = refsem.run(q2, case['A'], case['B'], case['a_names'], case['b_names'])
            if not ((ref2.error is None and o2.error is None and common.rows_match(o2.rows, ref2)) or (ref2.error is not None and o2.error == ref2.error.cls)):
                finding = None
        ok = common.compare(res, PROPERTY, 'py', case, common.obs_to_got(o0), ref, True, (lambda mech, c, g, r: finding))
        if lits:
            res.count('literals_checked', len(lits))
        if len(lits) >= 11:
            res.count('queries_with_11_or_more_literals')
        if ref.rows:
            res.nontrivial(canonical, repr(case['A']), repr(case['B']))
        if finding is not None:
            res.count('known_literal_token_cases')
            continue
        seen_texts = {canonical}
        for j in range(RESPELLINGS[spec['tier']]):
            text = qast.respell(q, ctx, rng, 'py')
            if text in seen_texts:
                continue
            seen_texts.add(text)
            oi, obsi = observe(ns, text, case)
            res.evaluations += 1
            res.count('respelling_runs')
            if obsi != obs0:
                diff = 'rows' if oi.rows != o0.rows else 'header' if oi.header != o0.header else 'error' if oi.error != o0.error else 'warnings'
                res.violation('py:spelling-changes-%s:%s' % (diff, common.feature_sig(q)), '[py] two spellings of one query differ in %s:\n  canonical %r -> rows %r header %r error %r (%s)\n  respelled %r -> rows %r header %r error %r (%s)' % (
                    diff, canonical, o0.rows, o0.header, o0.error, (o0.error_msg or '')[:100], text, oi.rows, oi.header, oi.error, (oi.error_msg or '')[:100]),
                    dict(case, respelled=text, engine='py'))
        # JS twin: the same metamorphic relation on the JS engine for language-neutral queries
        if js is not None and common.neutral_query(q) and not any(len(l) > 3 for l in lits):
            ctxj = qast.Ctx(case['a_names'], case['b_names'])
            texts = [qast.render(q, ctxj, 'js')]
            for _j in range(3):
                t = qast.respell(q, ctxj, rng, 'js')
                if t not in texts:
                    texts.append(t)
            js_batch.append((case, texts))
            if len(js_batch) >= 150:
                flush_js(res, js, js_batch)
        if n % 299 == 0:
            res.sample({'canonical': canonical, 'respellings': sorted(seen_texts - {canonical})[:3], 'rows': o0.rows[:3], 'literals': [l[1] for l in lits][:6]})


def summarize(tier, seed, m):
    return {
        'rule': 'structured queries from the C01 / C02 / C04 / C05 generators plus literal-heavy selects (1-13 literals, so that placeholder numbers reach two digits), with string literals drawn from every RBQL keyword and metacharacter (%d keyword texts, %d metacharacter texts, both quote styles, escaped quotes, backslashes, escaped and raw tabs) injected into select items, WHERE operands, UPDATE right-hand sides and ORDER BY keys; each rendered canonically and in %d random compositions of the spelling transformations; all spellings executed through rbql.query and compared with each other exactly and with the reference. distinct_nontrivial = distinct canonical (query, tables) with a non-empty result.' % (len(KEYWORDS), len(META), RESPELLINGS[tier]),
        'required': ['named_spelling_runs:py', 'named_spelling_runs:js', 'canonical_runs', 'respelling_runs', 'literals_checked', 'queries_with_11_or_more_literals', 'js_respelling_runs'],
        'assumptions': ['literals containing the engine placeholder ___RBQL_STRING_LITERAL<n>___, triple-quoted literals, f-strings and WITH(...) anywhere but last are not generated (documented limits)'],
    }


def replay(case, res):
    ns = env.import_rbql()
    ctx = qast.Ctx(case['a_names'], case['b_names'])
    canonical = qast.render(case['q'], ctx, 'py')
    o0, obs0 = observe(ns, canonical, case)
    res.evaluations += 1
    ref = refsem.run(case['q'], case['A'], case['B'], case['a_names'], case['b_names'])
    case['query_text'] = canonical
    f = classify(case, o0)
    common.compare(res, PROPERTY, 'py', case, common.obs_to_got(o0), ref, True, (lambda mech, c, g, r: f))
    if case.get('respelled'):
        oi, obsi = observe(ns, case['respelled'], case)
        if obsi != obs0:
            res.violation('py:spelling-changes-result', 'canonical %r -> %r ; respelled %r -> %r' % (canonical, obs0, case['respelled'], obsi), case)
