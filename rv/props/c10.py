"""C10 - CSV written by RBQL reads back as the identical table, in every dialect.

Real CSVWriter -> bytes/text -> real CSVRecordIterator; `representable` is decided by the independent reference
writer/reader pair (rv.model.refcsv).  Lossy-output clause: delimiter inside a simple/whitespace field, or None,
always yields the corresponding warning.  File-to-file leg through query_csv("select *").  JS twin: node CSVWriter ->
CSVRecordIterator (bulk) on the same tables.
"""
import io
import itertools
import os
import random
import shutil
import tempfile

from .. import env, util
from ..gen import enum
from ..model import refcsv

PROPERTY = 'C10'
LEVEL = 'exploration'

DELIMS = [',', ';', '\t', '|', ' ', '::', 'ab', ', ', '→', '\\', '^', ']', '-']      # the last four mean something inside a regular-expression character class
LINE_SEPS = ['\n', '\r\n', '\r']
ENCODINGS = [None, 'utf-8', 'latin-1']


def dialects():
    out = []
    for policy in ('simple', 'quoted', 'quoted_rfc'):
        for d in DELIMS:
            out.append((policy, d))
    out.append(('whitespace', ' '))
    out.append(('monocolumn', ''))
    return out


def alphabet(dlm):
    base = ['"', ' ', '\t', '\r', '\n', 'a', 'é']
    for c in dlm:
        if c not in base:
            base.append(c)
    return base


def write_real(ns, table, dlm, policy, encoding, line_sep, header=None):
    """-> (payload (str for encoding None, bytes otherwise), warnings, error class)"""
    raw = io.StringIO(newline='') if encoding is None else io.BytesIO()
    try:
        w = ns.csv.CSVWriter(raw, False, encoding, dlm, policy, line_sep)
        if header is not None:
            w.set_header(list(header))
        for rec in table:
            w.write(list(rec))
        w.finish()
        payload = raw.getvalue()
        warns = w.get_warnings()
        return payload, warns, None
    except Exception as e:
        return None, None, util.error_class(e)


def read_real(ns, payload, dlm, policy, encoding):
    try:
        src = io.StringIO(payload, newline='') if encoding is None else io.BytesIO(payload)
        it = ns.csv.CSVRecordIterator(src, encoding, dlm, policy)
        recs = it.get_all_records()
        return recs, it.get_warnings(), None
    except Exception as e:
        return None, None, util.error_class(e)


def encodable(table, dlm, encoding):
    if encoding != 'latin-1':
        return True
    try:
        dlm.encode('latin-1')
        for rec in table:
            for f in rec:
                if isinstance(f, str):
                    f.encode('latin-1')
        return True
    except UnicodeEncodeError:
        return False


def expected_table(table, policy):
    if policy == 'quoted_rfc':
        return [[refcsv.normalise_newlines(f) for f in rec] for rec in table]
    return [list(rec) for rec in table]


def check_table(ns, res, table, policy, dlm, encoding, line_sep, tag):
    """One (table, dialect) round trip on the real writer/reader."""
    if not encodable(table, dlm, encoding):
        return
    res.evaluations += 1
    def holds_none(v):
        return v is None or (isinstance(v, list) and any(holds_none(x) for x in v))
    has_none = any(holds_none(f) for rec in table for f in rec)
    str_table = [['' if not isinstance(f, str) else f for f in rec] for rec in table]
    case = {'table': table, 'policy': policy, 'dlm': dlm, 'encoding': encoding, 'line_sep': line_sep, 'engine': 'py'}
    payload, wwarn, werr = write_real(ns, table, dlm, policy, encoding, line_sep)
    if policy == 'monocolumn' and any(len(r) != 1 for r in table):
        if werr is None and any(len(r) > 1 for r in table):
            res.violation('monocolumn-multi-field-accepted', 'monocolumn writer accepted %r' % (table,), case)
        return
    if werr is not None:
        res.violation('writer-raises', 'writer raised %s on %r (%s %r %s)' % (werr, table, policy, dlm, encoding), case)
        return
    wk = util.warning_kinds(wwarn)
    # lossy output is never silent
    if has_none:
        res.count('none_clause_checks')
        if 'none' not in wk:
            res.violation('none-written-silently', 'None written without a warning: %r -> warnings %r' % (table, wwarn), case)
    if policy in ('simple', 'whitespace') and dlm and any(dlm in f for rec in str_table for f in rec):
        res.count('delimiter_clause_checks')
        if 'sep' not in wk:
            res.violation('delimiter-in-field-silent', 'field containing the delimiter %r written under %s without a warning: %r -> %r' % (dlm, policy, table, wwarn), case)
    if has_none:
        return
    rep = refcsv.representable(table, dlm, policy, encoding, line_sep)
    if not rep:
        res.count('not_representable')
        return
    res.count('representable_roundtrips')
    recs, rwarn, rerr = read_real(ns, payload, dlm, policy, encoding)
    exp = expected_table(table, policy)
    if rerr is not None:
        res.violation('reader-raises-on-own-output', 'reading back %r (%s %r %s sep %r) raised %s; payload %r' % (table, policy, dlm, encoding, line_sep, rerr, payload), case)
        return
    if recs != exp:
        res.violation('roundtrip-differs', 'table %r (%s %r %s sep %r) written as %r read back as %r' % (table, policy, dlm, encoding, line_sep, payload, recs), case)
        return
    ragged = len(set(len(r) for r in table)) > 1
    rk = [k for k in util.warning_kinds(rwarn) if not (ragged and k == 'fields')]
    if wk or rk:
        res.violation('warning-on-representable-table', 'representable table %r (%s %r %s) produced warnings writer=%r reader=%r' % (table, policy, dlm, encoding, wwarn, rwarn), case)


def small_tables(dlm, tier):
    """Exhaustive small tables over the dialect's alphabet."""
    alpha = alphabet(dlm)
    l1 = 3 if tier == 'quick' else 4
    f_long = [''.join(t) for t in enum.words(alpha, l1)]
    f2 = [''.join(t) for t in enum.words(alpha, 2 if tier == 'thorough' else 1)]
    f2b = [''.join(t) for t in enum.words(alpha, 2)]
    f1 = [''.join(t) for t in enum.words(alpha, 1)]
    for f in f_long:
        yield [[f]]
    for a, b in itertools.product(f2b, f2b):
        yield [[a, b]]
    for a, b in itertools.product(f2, f2):
        yield [[a], [b]]
    for a, b, c, d in itertools.product(f1, repeat=4):
        yield [[a, b], [c, d]]
    for a, b, c in itertools.product(f1, repeat=3):
        yield [[a], [b, c]]
        yield [[a, b], [c]]


def random_table(rng, dlm, latin_only):
    alpha = alphabet(dlm) + ['b', 'c', '0', '""', dlm, dlm, ' ', 'x y', '#']
    if not latin_only:
        alpha += ['€', '😀', ' ', '\ufeff', '\ufeffb', '\ufffd', '\ufffd', '\uffff', '\u2028', 'e\u0301']      # a byte-order mark is special only at the very start of the input; anywhere else it is data
    else:
        alpha += ['\xff', '\xa0', '\x00', '\x7f', '\xef\xbb\xbf', '\xef\xbb\xbfb']
    nrec = rng.randrange(1, 6)
    ncol = rng.randrange(1, 5)
    table = []
    for _ in range(nrec):
        w = ncol if rng.random() < 0.85 else rng.randrange(1, 5)
        table.append([''.join(rng.choice(alpha) for _ in range(rng.randrange(0, 7))) for _ in range(w)])
    r0 = rng.random()
    if r0 < 0.12:
        r = rng.randrange(len(table))
        table[r][rng.randrange(len(table[r]))] = None
    elif r0 < 0.18:
        # a list-valued cell (what ARRAY_AGG / a list literal produce) holding a None: the writer joins it with the sub-array delimiter
        r = rng.randrange(len(table))
        table[r][rng.randrange(len(table[r]))] = ['x', None, 'y'] if rng.random() < 0.7 else [[None]]
    return table


def run_exhaustive(ns, res, spec):
    tier = spec['tier']
    rng = random.Random(spec['seed'] * 31 + spec['shard'])
    policy, dlm = spec['policy'], spec['dlm']
    idx = 0
    combos = [(ls, enc) for ls in LINE_SEPS for enc in ENCODINGS]
    for table in small_tables(dlm, tier):
        idx += 1
        if idx % spec['k'] != spec['i']:
            continue
        # every table under the default line separator and every encoding; all 9 separator x encoding combinations in rotation
        todo = [('\n', None)]
        todo.append(combos[idx % len(combos)])
        if tier == 'thorough' or len(table) == 1 and len(table[0]) == 1:
            todo = combos
        before = res.counters.get('representable_roundtrips', 0)
        for ls, enc in todo:
            check_table(ns, res, table, policy, dlm, enc, ls, 'exhaustive')
        if res.counters.get('representable_roundtrips', 0) > before and any(c in f for rec in table for f in rec for c in '" \t\r\n' + dlm):
            res.distinct_disjoint += 1
        if idx % 20011 == 0:
            res.sample({'table': table, 'policy': policy, 'dlm': dlm, 'representable': refcsv.representable(table, dlm, policy, None, '\n')})
    res.count('exhaustive_tables', idx // spec['k'])


def run_random(ns, res, spec):
    rng = random.Random(spec['seed'] * 977 + spec['shard'])
    ds = dialects()
    tmpdir = tempfile.mkdtemp(prefix='rv-c10-')
    try:
        for n in range(spec['n']):
            policy, dlm = rng.choice(ds)
            enc = rng.choice(ENCODINGS)
            ls = rng.choice(LINE_SEPS)
            table = random_table(rng, dlm, enc == 'latin-1')
            if policy == 'monocolumn' and rng.random() < 0.9:
                table = [r[:1] for r in table]
            before = res.counters.get('representable_roundtrips', 0)
            check_table(ns, res, table, policy, dlm, enc, ls, 'random')
            # a header line is output as well: a column name holding the delimiter must be reported under simple / whitespace
            if policy in ('simple', 'whitespace') and dlm and n % 3 == 0:
                width = len(table[0])
                header = ['h%d' % j + (dlm if rng.random() < 0.4 else '') for j in range(width)]
                body = [['v'] * width]
                if encodable([header], dlm, enc):
                    payload, wwarn, werr = write_real(ns, body, dlm, policy, enc, ls, header=header)
                    res.evaluations += 1
                    res.count('header_delimiter_clause_checks')
                    if werr is None and any(dlm in h for h in header) and 'sep' not in util.warning_kinds(wwarn):
                        res.violation('delimiter-in-header-silent', 'header %r holding the delimiter %r written under %s without a warning (%r)' % (header, dlm, policy, wwarn), {'table': body, 'header': header, 'policy': policy, 'dlm': dlm, 'encoding': enc, 'line_sep': ls, 'engine': 'py'})
            if res.counters.get('representable_roundtrips', 0) > before:
                res.nontrivial('rnd', repr(table), policy, dlm, enc, ls)
                if enc is not None and n % 4 == 0:
                    check_file_to_file(ns, res, tmpdir, table, policy, dlm, enc)
            if n % 499 == 0:
                res.sample({'table': table, 'policy': policy, 'dlm': dlm, 'encoding': enc, 'line_sep': ls})
    finally:
        shutil.rmtree(tmpdir, ignore_errors=True)


def check_file_to_file(ns, res, tmpdir, table, policy, dlm, enc):
    """query_csv('select *') file -> file must preserve a representable table (output line separator is LF)."""
    if policy == 'whitespace' or (policy != 'quoted_rfc' and any(c in f for rec in table for f in rec for c in '\r\n')):
        pass
    if not refcsv.representable(table, dlm, policy, enc, '\n'):
        return
    payload, _w, werr = write_real(ns, table, dlm, policy, enc, '\n')
    if werr is not None:
        return
    src = os.path.join(tmpdir, 'in_%d.csv' % res.evaluations)
    dst = os.path.join(tmpdir, 'out_%d.csv' % res.evaluations)
    with open(src, 'wb') as f:
        f.write(payload)
    warnings = []
    case = {'table': table, 'policy': policy, 'dlm': dlm, 'encoding': enc, 'line_sep': '\n', 'engine': 'py-file'}
    res.count('file_to_file_runs')
    res.evaluations += 1
    try:
        ns.rbql.query_csv('select *', src, dlm, policy, dst, dlm, policy, enc, warnings, False)
    except Exception as e:
        res.violation('query-csv-raises', 'query_csv select * on %r (%s %r %s) raised %s: %s' % (table, policy, dlm, enc, util.error_class(e), str(e)[:200]), case)
        return
    with open(dst, 'rb') as f:
        out = f.read()
    recs, rwarn, rerr = read_real(ns, out, dlm, policy, enc)
    exp = expected_table(table, policy)
    ragged = len(set(len(r) for r in table)) > 1
    wk = [k for k in util.warning_kinds(warnings) + util.warning_kinds(rwarn or []) if not (ragged and k == 'fields')]
    if rerr is not None or recs != exp:
        res.violation('file-roundtrip-differs', 'query_csv select * turned %r into %r (%s %r %s): read back %r error %r' % (table, out, policy, dlm, enc, recs, rerr), case)
    elif wk:
        res.violation('warning-on-representable-table', 'file round trip of %r (%s %r %s) warned %r / %r' % (table, policy, dlm, enc, warnings, rwarn), case)
    os.unlink(src)
    os.unlink(dst)


def run_latin1_table(ns, res):
    """Every byte value survives latin-1."""
    for policy in ('quoted_rfc', 'quoted', 'simple'):
        for dlm in (',', '\t', '::'):
            chars = [chr(i) for i in range(256)]
            if policy != 'quoted_rfc':
                chars = [c for c in chars if c not in '\r\n']
            if policy == 'simple':
                chars = [c for c in chars if c not in dlm]
            table = [[c, 'x' + c + 'y'] for c in chars] + [[''.join(chars), ''.join(reversed(chars))]]
            for ls in LINE_SEPS:
                check_table(ns, res, table, policy, dlm, 'latin-1', ls, 'latin1-all-bytes')
                res.count('latin1_all_byte_tables')
    res.distinct_disjoint += 9
    res.sample({'table': 'all 256 latin-1 code points, one per record plus one record holding all', 'policy': 'quoted_rfc/quoted/simple', 'encoding': 'latin-1'})


def run_js(res, spec):
    from ..js import bridge
    node = bridge.Node.start()
    if node is None:
        res.notes.append('js_leg: unavailable (no node)')
        return
    rng = random.Random(spec['seed'] * 13 + spec['shard'])
    try:
        cases = []
        for policy, dlm in dialects():
            tabs = []
            for k, t in enumerate(small_tables(dlm, 'quick')):
                if k % 97 == spec['i'] % 97 or (len(t) == 1 and len(t[0]) == 1 and k % 5 == 0):
                    tabs.append(t)
            for _ in range(40):
                tabs.append(random_table(rng, dlm, False))
            for t in tabs:
                if any(not isinstance(f, str) for r in t for f in r):
                    continue
                for enc in ('utf-8', 'binary'):
                    if enc == 'binary' and not encodable(t, dlm, 'latin-1'):
                        continue
                    ls = rng.choice(LINE_SEPS)
                    cases.append({'table': t, 'delim': dlm, 'policy': policy, 'line_separator': ls, 'encoding': enc, 'also_stream': True})
        if spec['i'] % 3 == 0:
            # long narrow tables: thousands of short records per stream chunk (the reader's record queue grows in bursts)
            for nrec, policy, dlm in ((5000, 'simple', ','), (9000, 'quoted_rfc', ';'), (6000, 'monocolumn', ''), (4097, 'quoted', '::'), (4500, 'simple', '\t')) + (((140000, 'simple', ','),) if spec['i'] == 0 else ()):      # the last one: more records in ONE block (bulk read, one-chunk stream) than a call can take arguments
                t = [[str(i)] + ([] if policy == 'monocolumn' else ['v' if i % 100 else 'q"%d' % i]) for i in range(nrec)]
                if policy == 'simple':
                    t = [[r[0], 'v'] for r in t]
                cases.append({'table': t, 'delim': dlm, 'policy': policy, 'line_separator': rng.choice(['\n', '\r\n']), 'encoding': rng.choice(['utf-8', 'binary']), 'also_stream': True})
                res.count('js_long_narrow_tables')
        for off in range(0, len(cases), 400):
            chunk = cases[off:off + 400]
            outs = node.call({'op': 'roundtrip_batch', 'cases': chunk})['results']
            for c, o in zip(chunk, outs):
                t, dlm, policy = c['table'], c['delim'], c['policy']
                enc = 'latin-1' if c['encoding'] == 'binary' else 'utf-8'
                res.evaluations += 1
                res.count('js_roundtrips')
                case = {'table': t if len(t) < 50 else t[:3] + [['... %d records' % len(t)]], 'policy': policy, 'dlm': dlm, 'encoding': enc, 'line_sep': c['line_separator'], 'engine': 'js'}
                if len(t) >= 50:
                    # report sizes, not tables
                    exp = expected_table(t, policy)
                    bad = o['werror'] is not None or o['rerror'] is not None or o['records'] != exp
                    sbad = [si for si, st in enumerate(o.get('stream') or []) if st['error'] is not None or st['stuck'] or st['records'] != exp]
                    res.count('js_stream_roundtrips', len(o.get('stream') or []))
                    if bad or sbad:
                        res.violation('js-stream-roundtrip-differs' if not bad else 'js-roundtrip-differs', 'JS: a table of %d short records (%s %r %s) read back as %s records by the bulk reader (errors %r %r) and as %r records by the stream reader (one chunk / two chunks; errors %r)' % (
                            len(t), policy, dlm, enc, len(o['records'] or []), o['werror'], o['rerror'], [len(st['records'] or []) for st in (o.get('stream') or [])], [st['error'] for st in (o.get('stream') or [])]), case)
                    continue
                if policy == 'monocolumn' and any(len(r) != 1 for r in t):
                    continue
                if policy in ('simple', 'whitespace') and dlm and any(dlm in f for rec in t for f in rec):
                    if o['werror'] is None and 'sep' not in util.warning_kinds(o['wwarnings']):
                        res.violation('js-delimiter-in-field-silent', 'JS: field containing the delimiter written silently: %r (%s %r)' % (t, policy, dlm), case)
                if not refcsv.representable(t, dlm, policy, enc, c['line_separator']):
                    continue
                res.count('js_representable_roundtrips')
                res.nontrivial('js', repr(t), policy, dlm, enc)
                exp = expected_table(t, policy)
                if o['werror'] is not None or o['rerror'] is not None or o['records'] != exp:
                    res.violation('js-roundtrip-differs', 'JS: table %r (%s %r %s sep %r) -> bytes %s -> %r (errors %r %r)' % (t, policy, dlm, enc, c['line_separator'], o.get('bytes_hex', '')[:120], o['records'], o['werror'], o['rerror']), case)
                else:
                    for si, st in enumerate(o.get('stream') or []):
                        res.count('js_stream_roundtrips')
                        if st['error'] is not None or st['stuck'] or st['records'] != exp:
                            res.violation('js-stream-roundtrip-differs', 'JS: table %r (%s %r %s sep %r) written as %s read back by the STREAM reader (%s) as %r (error %r)' % (t, policy, dlm, enc, c['line_separator'], o.get('bytes_hex', '')[:80], 'one chunk' if si == 0 else 'two chunks', st['records'], st['error']), case)
                            break
                    ragged = len(set(len(r) for r in t)) > 1
                    wk = [k for k in util.warning_kinds(o['wwarnings']) + util.warning_kinds(o['rwarnings']) if not (ragged and k == 'fields')]
                    if wk:
                        res.violation('js-warning-on-representable-table', 'JS: representable %r (%s %r %s) warned %r %r' % (t, policy, dlm, enc, o['wwarnings'], o['rwarnings']), case)
        if spec['i'] % 3 == 1:
            # lines longer than the stream's high-water mark (16 KiB): a header of thousands of columns handed to set_header(), cells of tens of
            # kilobytes - every line still ends with its own terminator, in the order written
            wide = []
            for ncols, policy, dlm in ((2500, 'quoted', ','), (1800, 'simple', '\t'), (3000, 'quoted_rfc', ';'), (40, 'quoted', ',')):
                names = ['column_%04d' % j for j in range(ncols)]
                rows = [['r%dc%d' % (i, j) for j in range(ncols)] for i in range(rng.randrange(1, 4))]
                if ncols == 40:
                    rows = [[('x' * 20000 if j == 3 else 'v') for j in range(ncols)] for _i in range(3)]
                wide.append({'table': rows, 'header': names, 'delim': dlm, 'policy': policy, 'line_separator': rng.choice(['\n', '\r\n']), 'encoding': 'utf-8', 'also_stream': False, 'async_sink': True})
            wide += [dict(c, async_sink=False) for c in wide[:2]]
            # one record spanning more than a thousand physical lines (a log or text-blob cell): quoted_rfc keeps every line break, LF / CRLF / CR read back as LF
            for nbreaks, ls in ((999, '\n'), (1000, '\n'), (1500, '\r\n'), (2600, '\r')):
                blob = ls.join('line %d' % i for i in range(nbreaks + 1))
                wide.append({'table': [['id', blob, 'tail'], ['2', 'x', 'y']], 'header': ['k', 'text', 't'], 'delim': ',', 'policy': 'quoted_rfc', 'line_separator': '\n', 'encoding': 'utf-8',
                             'also_stream': True, 'async_sink': False, 'expect': [['k', 'text', 't'], ['id', blob.replace('\r\n', '\n').replace('\r', '\n'), 'tail'], ['2', 'x', 'y']]})
            outs = node.call({'op': 'roundtrip_batch', 'cases': wide})['results']
            for c, o in zip(wide, outs):
                res.evaluations += 1
                res.count('js_wide_line_roundtrips')
                exp = c.get('expect') or ([c['header']] + c['table'])
                sbad = [st for st in (o.get('stream') or []) if st['error'] is not None or st['stuck'] or st['records'] != exp]
                if o['werror'] is not None or o['rerror'] is not None or o['records'] != exp or sbad or util.warning_kinds(o['wwarnings']) or util.warning_kinds(o['rwarnings']):
                    got = o['records'] or []
                    res.violation('js-wide-line-roundtrip-differs', 'JS: a header of %d names (line of %d bytes) + %d records (%s %r; longest cell %d characters with %d line breaks) read back as %d records of widths %r (errors %r / %r, stream reads differing %d, warnings %r / %r)' % (
                        len(c['header']), len(c['delim'].join(c['header'])), len(c['table']), c['policy'], c['delim'], max(len(v) for r in c['table'] for v in r), max(v.count('\n') + v.count('\r') for r in c['table'] for v in r), len(got), [len(r) for r in got][:6], o['werror'], o['rerror'], len(sbad), o['wwarnings'], o['rwarnings']),
                        {'engine': 'js', 'leg': 'wide-lines', 'columns': len(c['header']), 'records': len(c['table']), 'policy': c['policy'], 'dlm': c['delim']})
        noise = node.take_noise()
        if noise:
            res.notes.append('node async noise: %r' % noise[:2])
    finally:
        node.close()


def run_nonstring(ns, res, spec):
    """The lossy-output clause for values that are not strings yet when they reach the writer (numbers, booleans, lists): their text may hold
    the delimiter under the simple / whitespace policies, and then the warning is due - in both ports."""
    from ..js import bridge
    rng = random.Random(spec['seed'] * 7057 + spec['shard'])
    values = [-5, 2.5, -0.25, 10, 1e21, True, [1, 2], ['a b', 'c'], 7, 'x-y', 'p.q', '']
    cases = []
    for _ in range(spec['n']):
        policy, dlm = rng.choice([('simple', '-'), ('simple', '.'), ('simple', 'e'), ('simple', ','), ('simple', '|'), ('whitespace', ' '), ('simple', '5'), ('simple', 'Tr'), ('simple', 'ru')])
        table = [[rng.choice(values) for _j in range(rng.randrange(1, 4))] for _i in range(rng.randrange(1, 4))]
        cases.append((table, policy, dlm))

    def text_of(v, js, dlm):
        if isinstance(v, list):
            return ('|' if dlm != '|' else ';').join(text_of(x, js, dlm) for x in v)      # the writer's sub-array delimiter
        if isinstance(v, bool):
            return ('true' if v else 'false') if js else str(v)
        if isinstance(v, float) and js:
            return repr(v).rstrip('0').rstrip('.') if v == int(v) and abs(v) < 1e21 else ('1e+21' if v == 1e21 else repr(v))
        return str(v)
    for table, policy, dlm in cases:
        payload, wwarn, werr = write_real(ns, [list(r) for r in table], dlm, policy, None, '\n')
        res.evaluations += 1
        res.count('nonstring_delimiter_clause_checks')
        lossy = any(dlm in text_of(v, False, dlm) for r in table for v in r)
        got = 'sep' in util.warning_kinds(wwarn or [])
        if werr is None and lossy and not got:
            res.violation('delimiter-in-nonstring-field-silent', 'py: %r written under %s %r without the separator warning (%r)' % (table, policy, dlm, wwarn), {'table': table, 'policy': policy, 'dlm': dlm, 'engine': 'py', 'leg': 'nonstring'})
        if werr is None and not lossy and got:
            res.violation('spurious-separator-warning', 'py: %r written under %s %r warned although no field holds the separator (%r)' % (table, policy, dlm, wwarn), {'table': table, 'policy': policy, 'dlm': dlm, 'engine': 'py', 'leg': 'nonstring'})
    # quoted policies: a value that is not a string when it reaches the writer (a number, a tuple, a dict, a date) is a field like any other -
    # if its text holds the delimiter or a quote it is quoted, and the file reads back as the texts
    import datetime
    import decimal
    qvalues = [-5, 2.5, -0.25, 1e-07, 1e21, True, None, (1, 2), ('a', 'b"c'), {'k': 1}, {'a': 'x, y'}, datetime.datetime(2020, 1, 2, 3, 4, 5), datetime.date(2021, 12, 31), decimal.Decimal('1.50'),
               frozenset(['q']), 7, 'plain', 'x-y', [1, 2], [(1, 2), 'z'], range(3), b'by,tes', complex(1, -2)]
    for _ in range(spec['n']):
        policy = rng.choice(['quoted', 'quoted_rfc'])
        dlm = rng.choice([',', '.', '-', 'e-', ' ', ':', ', ', '(', "'", '1'])
        table = [[rng.choice(qvalues) for _j in range(rng.randrange(1, 4))] for _i in range(rng.randrange(1, 4))]
        if any(v is None for r in table for v in r) and rng.random() < 0.7:
            table = [[(0 if v is None else v) for v in r] for r in table]
        sub = '|' if dlm != '|' else ';'
        txt = lambda v: '' if v is None else (sub.join(txt(x) for x in v) if isinstance(v, list) else str(v))
        exp = [[txt(v) for v in r] for r in table]
        payload, wwarn, werr = write_real(ns, [list(r) for r in table], dlm, policy, None, '\n')
        res.evaluations += 1
        res.count('nonstring_quoted_roundtrips')
        res.nontrivial('nonstring-quoted', repr(table), policy, dlm)
        case = {'table': repr(table), 'policy': policy, 'dlm': dlm, 'engine': 'py', 'leg': 'nonstring-quoted'}
        if werr is not None:
            res.violation('nonstring-quoted-write-failed', 'py: %r under %s %r: the writer raised %s' % (table, policy, dlm, werr), case)
            continue
        recs, rwarn, rerr = read_real(ns, payload, dlm, policy, None)
        if rerr is not None or recs != exp:
            res.violation('nonstring-quoted-roundtrip-differs', 'py: values %r written under %s %r as %r read back as %r (error %r) ; expected the texts %r' % (table, policy, dlm, payload, recs, rerr, exp), case)
        elif [k for k in util.warning_kinds(rwarn or []) if k != 'fields'] or [k for k in util.warning_kinds(wwarn or []) if k != 'none']:
            res.violation('nonstring-quoted-roundtrip-warns', 'py: values %r under %s %r: warnings %r / %r' % (table, policy, dlm, wwarn, rwarn), case)
    node = bridge.Node.start()
    if node is None:
        res.notes.append('js non-string leg: unavailable (no node)')
        return
    try:
        reqs = [{'table': t, 'delim': d, 'policy': p, 'line_separator': '\n', 'encoding': 'utf-8'} for t, p, d in cases]
        outs = node.call({'op': 'write_batch', 'cases': reqs})['results']
        for (table, policy, dlm), o in zip(cases, outs):
            res.evaluations += 1
            res.count('js_nonstring_delimiter_clause_checks')
            lossy = any(dlm in text_of(v, True, dlm) for r in table for v in r)
            got = 'sep' in util.warning_kinds(o['warnings'])
            if o['error'] is None and lossy and not got:
                res.violation('js-delimiter-in-nonstring-field-silent', 'JS: %r written under %s %r without the separator warning (%r)' % (table, policy, dlm, o['warnings']), {'table': table, 'policy': policy, 'dlm': dlm, 'engine': 'js', 'leg': 'nonstring'})
            if o['error'] is None and not lossy and got:
                res.violation('js-spurious-separator-warning', 'JS: %r written under %s %r warned although no field holds the separator (%r)' % (table, policy, dlm, o['warnings']), {'table': table, 'policy': policy, 'dlm': dlm, 'engine': 'js', 'leg': 'nonstring'})
        # a missing value in JS is null, undefined - or an EMPTY SLOT of a sparse array (new Array(3), [a1, , a2], delete row[i]), at the top level of the
        # record or inside an array-valued cell: each is written as an empty field and each must be reported
        hole, undef = {'__js__': 'hole'}, {'__js__': 'undefined'}
        hcases = []
        for _ in range(max(30, spec['n'] // 4)):
            policy = rng.choice(['simple', 'quoted', 'quoted_rfc', 'monocolumn'])
            dlm = rng.choice([',', ';', '\t']) if policy != 'monocolumn' else ''
            missing = rng.choice([hole, hole, hole, None, undef, 'none'])
            w_ = 1 if policy == 'monocolumn' else rng.randrange(1, 4)
            table = [[rng.choice(['x', 'y z', '5']) for _j in range(w_)] for _i in range(rng.randrange(1, 4))]
            if missing != 'none':
                r_ = rng.choice(table)
                if rng.random() < 0.5 or policy == 'monocolumn':
                    r_[rng.randrange(len(r_))] = missing
                else:
                    r_[rng.randrange(len(r_))] = rng.choice([[missing], ['p', missing], [missing, 'p', missing], [hole, hole, hole]] if missing is hole else [[missing], ['p', missing]])
            hcases.append((table, policy, dlm, missing != 'none'))
        reqs = [{'table': t, 'delim': d, 'policy': p, 'line_separator': '\n', 'encoding': 'utf-8', 'revive': True} for t, p, d, _m in hcases]
        outs = node.call({'op': 'write_batch', 'cases': reqs})['results']
        for (table, policy, dlm, has_missing), o in zip(hcases, outs):
            res.evaluations += 1
            res.count('js_missing_value_kinds_checks')
            res.nontrivial('js-missing-kinds', repr(table), policy, dlm)
            got = 'none' in util.warning_kinds(o['warnings'])
            case = {'table': table, 'policy': policy, 'dlm': dlm, 'engine': 'js', 'leg': 'js-missing-kinds'}
            if o['error'] is not None:
                res.violation('js-missing-value-write-failed', 'JS: %r under %s %r: the writer raised %r' % (table, policy, dlm, o['error']), case)
            elif got != has_missing:
                res.violation('js-missing-value-warning-not-iff', 'JS: %r written under %s %r as %r: warnings %r, a missing value (null / undefined / empty slot) is present: %s' % (
                    table, policy, dlm, bytes.fromhex(o['bytes_hex']), o['warnings'], has_missing), case)
        # quoted policies in the JS port: numbers (long mantissas, exponent forms, the integer limits), booleans, arrays and special cells reach
        # the writer as they are; the file reads back as the language's own text of every cell (String(value), taken by the driver before the writer runs)
        jvalues = [-5, 2.5, -0.25, 1e-07, 1e21, True, False, 1 / 3, 0.1 + 0.2, 3.141592653589793, 1696291234.567891, 1234567.891234567, 2 ** 53, 2 ** 53 - 1, 1e300, 5e-324,
                   -1e-07, 123456789012.5, 100.0, 0.000001234567890123, 7, 'plain', 'x-y', 'a "q" b', [1, 2], [0.1 + 0.2, 'z'], [1 / 3], {'__js__': 'NaN'}, {'__js__': 'Infinity'},
                   {'__js__': 'bigint', 'v': '123456789012345678901234567890'}, {'__js__': '-0'}]
        qcases = []
        for _ in range(spec['n']):
            policy = rng.choice(['quoted', 'quoted_rfc'])
            dlm = rng.choice([',', '.', '-', 'e-', ' ', ':', ', ', '1', '3', 'e+'])
            table = [[rng.choice(jvalues) for _j in range(rng.randrange(1, 4))] for _i in range(rng.randrange(1, 4))]
            qcases.append((table, policy, dlm))
        reqs = [{'table': t, 'delim': d, 'policy': p, 'line_separator': '\n', 'encoding': 'utf-8', 'revive': True, 'want_texts': True} for t, p, d in qcases]
        outs = node.call({'op': 'roundtrip_batch', 'cases': reqs})['results']
        for (table, policy, dlm), o in zip(qcases, outs):
            res.evaluations += 1
            res.count('js_nonstring_quoted_roundtrips')
            res.nontrivial('js-nonstring-quoted', repr(table), policy, dlm)
            case = {'table': table, 'policy': policy, 'dlm': dlm, 'engine': 'js', 'leg': 'js-nonstring-quoted'}
            sub = '|' if dlm != '|' else ';'
            exp = [[(sub.join(t) if isinstance(t, list) else t) for t in r] for r in o['texts']]
            if o['werror'] is not None:
                res.violation('js-nonstring-quoted-write-failed', 'JS: %r under %s %r: the writer raised %r' % (table, policy, dlm, o['werror']), case)
            elif o['rerror'] is not None or o['records'] != exp:
                res.violation('js-nonstring-quoted-roundtrip-differs', 'JS: values %r written under %s %r as %r read back as %r (error %r) ; expected the texts %r' % (
                    table, policy, dlm, bytes.fromhex(o['bytes_hex']), o['records'], o['rerror'], exp), case)
            elif [k for k in util.warning_kinds(o['rwarnings'] or []) if k != 'fields'] or util.warning_kinds(o['wwarnings'] or []):
                res.violation('js-nonstring-quoted-roundtrip-warns', 'JS: values %r under %s %r: warnings %r / %r' % (table, policy, dlm, o['wwarnings'], o['rwarnings']), case)
    finally:
        node.close()


def plan(tier, seed):
    specs = []
    k = 2 if tier == 'quick' else 4
    for policy, dlm in dialects():
        for i in range(k):
            specs.append({'kind': 'exhaustive', 'policy': policy, 'dlm': dlm, 'k': k, 'i': i})
    for i in range(8):
        specs.append({'kind': 'random', 'i': i, 'n': 2500 if tier == 'quick' else 25000})
    specs.append({'kind': 'latin1'})
    specs.append({'kind': 'nonstring', 'n': 600 if tier == 'quick' else 6000})
    for i in range(2 if tier == 'quick' else 8):
        specs.append({'kind': 'js', 'i': i})
    return specs


def run_shard(spec, res):
    ns = env.import_rbql()
    if spec['kind'] == 'exhaustive':
        run_exhaustive(ns, res, spec)
    elif spec['kind'] == 'random':
        run_random(ns, res, spec)
    elif spec['kind'] == 'latin1':
        run_latin1_table(ns, res)
    elif spec['kind'] == 'nonstring':
        run_nonstring(ns, res, spec)
    elif spec['kind'] == 'js':
        run_js(res, spec)


def summarize(tier, seed, m):
    return {
        'rule': 'exhaustive small tables (1x1 with fields up to length %d, 1x2 / 2x1 up to length 2, 2x2 and ragged up to length 1) over {quote, space, tab, CR, LF, a, e-acute, delimiter characters} for each of %d dialects (policies simple/quoted/quoted_rfc x delimiters %r, whitespace, monocolumn) x line separators x encodings {None, utf-8, latin-1}; random larger tables incl. None cells; a table holding all 256 latin-1 code points; file-to-file leg through query_csv; JS writer/reader leg. Representability decided by the reference writer/reader pair. JS: tables of 4097-9000 short records (thousands per stream chunk) written and read back by the bulk and the stream reader; py: values that are not strings when they reach the writer (numbers, tuples, dicts, dates, decimals, bytes, ranges, nested lists) under the quoted policies with delimiters that occur in their text - the file reads back as the texts; distinct_nontrivial = distinct representable (table, dialect) cases containing at least one special character.' % (3 if tier == 'quick' else 4, len(dialects()), DELIMS),
        'exhaustive': True,
        'required': ['js_missing_value_kinds_checks', 'nonstring_quoted_roundtrips', 'js_nonstring_quoted_roundtrips', 'js_wide_line_roundtrips', 'js_long_narrow_tables', 'nonstring_delimiter_clause_checks', 'js_nonstring_delimiter_clause_checks', 'header_delimiter_clause_checks', 'js_stream_roundtrips', 'representable_roundtrips', 'delimiter_clause_checks', 'none_clause_checks', 'file_to_file_runs', 'latin1_all_byte_tables'],
        'assumptions': ['rv.model.refcsv write_table/read_text decide representability exactly as the quantifier prescribes'],
    }


def replay(case, res):
    ns = env.import_rbql()
    if case.get('engine') == 'js':
        res.notes.append('replay of JS cases: run ./check C10 quick')
        return
    check_table(ns, res, case['table'], case['policy'], case['dlm'], case['encoding'], case['line_sep'], 'replay')
    if case.get('engine') == 'py-file':
        d = tempfile.mkdtemp(prefix='rv-c10-')
        try:
            check_file_to_file(ns, res, d, case['table'], case['policy'], case['dlm'], case['encoding'])
        finally:
            shutil.rmtree(d, ignore_errors=True)
