"""C15 - Broken pipes, bad bytes and errors are handled cleanly at every point.

Monitors: (i) fault-injecting sink raising BrokenPipeError(EPIPE) from its k-th write (text sink for encoding None, raw byte sink
behind the writer's own TextIOWrapper for utf-8) + probe iterator counting reads after the fault; (ii) writer-protocol automaton on a
user-supplied writer returning False at its k-th write; (iii) bad-byte injector at every position; (iv) descriptor tracking around
query_csv / query_sqlite_to_csv on every outcome (open() of the front-end modules wrapped from the harness, /proc/self/fd, ResourceWarning).
"""
import errno
import io
import os
import random
import shutil
import sqlite3
import sys
import tempfile
import threading
import time
import warnings as pywarnings

from .. import env, util
from ..model import qast
from ..monitors import boundary
from . import common

PROPERTY = 'C15'
LEVEL = 'fault_enumeration'

A6 = [['b', '3', 'x'], ['a', '1', 'y'], ['b', '2', 'x'], ['c', '1', 'z'], ['a', '5', 'x'], ['b', '1', 'y']]
B3 = [['a', 'J1'], ['b', 'J2'], ['b', 'J3'], ['b', 'J4'], ['b', 'J5']]
SHAPES = [
    ('streaming', 'select a1, a2', None),
    ('where', 'select a1, NR where a2 != "1"', None),
    ('header', 'select a.k, a.v as val', ['k', 'v', 'w']),
    ('update-header', 'update a2 = a2 + "!"', ['k', 'v', 'w']),
    ('order', 'select a1, a2 order by a2', None),
    ('order-desc-top', 'select top 4 a1, a2 order by a1 desc', None),
    ('group', 'select a1, COUNT(*), SUM(a2) group by a1', None),
    ('distinct', 'select distinct a1', None),
    ('distinct-count', 'select distinct count a3', None),
    ('unnest', 'select a1, UNNEST([a2, a3, NR])', None),
    ('join-multi', 'select a1, b2 join b on a1 == b1', None),
    ('left-join-star', 'select * left join b on a1 == b1', None),
    ('update', 'update a3 = a1 + a2 where a1 != "c"', None),
    ('top', 'select top 3 a1', None),
    ('none-output', 'select a1, a7', None),
]


def broken_pipe_error(k):
    """A broken-pipe error in the flavours a stream may raise it: the OS error (EPIPE), a shutdown socket (ESHUTDOWN is mapped to the same
    class), and the bare exception a wrapper / in-process transport raises without an errno."""
    flavour = (k or 0) % 4
    if flavour == 1:
        return BrokenPipeError()
    if flavour == 2:
        return BrokenPipeError(errno.ESHUTDOWN, 'Cannot send after transport endpoint shutdown')
    if flavour == 3:
        return BrokenPipeError('consumer went away')
    return BrokenPipeError(errno.EPIPE, 'Broken pipe')


class BrokenTextSink(object):
    """Text stream raising BrokenPipeError from its k-th write call; records everything."""

    def __init__(self, k):
        self.k = k
        self.calls = 0
        self.accepted = []
        self.calls_after_fault = 0
        self.faulted = False
        self.flushes_after_fault = 0

    def write(self, s):
        self.calls += 1
        if self.faulted:
            self.calls_after_fault += 1
            raise broken_pipe_error(self.k)
        if self.k is not None and self.calls >= self.k:
            self.faulted = True
            raise broken_pipe_error(self.k)
        self.accepted.append(s)
        return len(s)

    def flush(self):
        if self.faulted:
            self.flushes_after_fault += 1
            raise broken_pipe_error(self.k)

    def close(self):
        # what close() of a real stream does: a last flush, which fails like any write once the consumer is gone (or goes away just then)
        self.calls += 1
        if self.faulted:
            self.calls_after_fault += 1
            raise broken_pipe_error(self.k)
        if self.k is not None and self.calls >= self.k:
            self.faulted = True
            raise broken_pipe_error(self.k)


class BrokenRawSink(io.RawIOBase):
    """Raw byte sink (the writer wraps it into its own TextIOWrapper) raising from its k-th write."""

    def __init__(self, k):
        io.RawIOBase.__init__(self)
        self.k = k
        self.calls = 0
        self.accepted = []
        self.calls_after_fault = 0
        self.faulted = False

    def writable(self):
        return True

    def write(self, b):
        self.calls += 1
        if self.faulted:
            self.calls_after_fault += 1
            raise broken_pipe_error(self.k)
        if self.k is not None and self.calls >= self.k:
            self.faulted = True
            raise broken_pipe_error(self.k)
        self.accepted.append(bytes(b))
        return len(b)


def run_with_sink(ns, qtext, A, B, a_names, sink, encoding, big=False, close_on_finish=False):
    """-> (exception or None, reads after fault, probe iterator)"""
    PI, PW, PR = boundary.probes(ns)
    log = boundary.Log()
    it = PI(ns.engine.TableIterator([list(r) for r in A], a_names), log, 'A')
    reg = None
    if B is not None:
        b_names = None if a_names is None else ['m1', 'm2']
        reg = PR({'b': ([list(r) for r in B], b_names), 'B': ([list(r) for r in B], b_names)}, log)
    real_write = sink.write
    reads_at_fault = [None]

    def spy(x):
        try:
            return real_write(x)
        except BrokenPipeError:
            if reads_at_fault[0] is None:
                reads_at_fault[0] = it.reads
            raise
    sink.write = spy
    saved_stdout = sys.stdout
    sys.stdout = io.StringIO()      # CSVWriter.finish closes sys.stdout when the final flush hits a broken pipe
    exc = None
    w = None
    try:
        w = ns.csv.CSVWriter(sink, close_on_finish, encoding, ',', 'quoted')
        ns.rbql.query(qtext, it, w, [], reg)
    except BaseException as e:   # noqa
        exc = e
    finally:
        sys.stdout = saved_stdout
    reads_after = 0 if reads_at_fault[0] is None else it.reads - reads_at_fault[0]
    return exc, reads_after, w


def leg_broken_pipe(ns, res, spec):
    rng = random.Random(spec['seed'] + 3)
    for name, qtext, names in SHAPES:
        for encoding in (None, 'utf-8'):
            for big in (False, True):
                if big and name not in ('streaming', 'order', 'join-multi', 'update'):
                    continue
                A = A6 if not big else [[rng.choice('abc'), str(i % 7), 'payload-%d-' % i + 'x' * 40] for i in range(700)]
                # fault-free run first
                sink0 = BrokenTextSink(None) if encoding is None else BrokenRawSink(None)
                exc0, _r, w0 = run_with_sink(ns, qtext, A, B3 if 'join' in name else None, names, sink0, encoding)
                if encoding is not None and w0 is not None:
                    try:
                        w0.stream.flush()
                    except Exception:
                        pass
                if exc0 is not None:
                    res.violation('py:fault-free-run-raised:' + name, '[py] %s raised %r without any fault' % (qtext, exc0), {'leg': 'pipe', 'shape': name})
                    continue
                full = (''.join(sink0.accepted) if encoding is None else b''.join(sink0.accepted))
                total_calls = sink0.calls
                ks = range(1, total_calls + 2) if total_calls <= 40 else sorted(set([1, 2, 3, total_calls // 2, total_calls - 1, total_calls, total_calls + 1] + [rng.randrange(1, total_calls) for _ in range(6)]))
                # the writer that owns its stream (close_stream_on_finish, what query_csv passes for an output path) closes it in finish(): the last flush
                # happens inside close() then, and may be the first one to find the consumer gone
                for k, close_on_finish in [(k_, False) for k_ in ks] + [(k_, True) for k_ in list(ks)[:3] + list(ks)[-3:]]:
                    sink = BrokenTextSink(k) if encoding is None else BrokenRawSink(k)
                    exc, reads_after, w = run_with_sink(ns, qtext, A, B3 if 'join' in name else None, names, sink, encoding, close_on_finish=close_on_finish)
                    res.evaluations += 1
                    res.count('broken_pipe_runs')
                    if close_on_finish:
                        res.count('broken_pipe_runs_writer_closes_stream')
                    res.count('broken_pipe:%s' % ('text' if encoding is None else 'bytes'))
                    res.distinct_disjoint += 1
                    case = {'leg': 'pipe', 'shape': name, 'query_text': qtext, 'k': k, 'encoding': encoding, 'big': big, 'close_on_finish': close_on_finish}
                    if exc is not None:
                        res.violation('py:broken-pipe-escapes:' + name, '[py] pipe broken at write %d of %d (%s, %s): %s escaped from rbql.query: %s' % (k, total_calls, qtext, encoding, type(exc).__name__, str(exc)[:100]), case)
                        continue
                    got = (''.join(sink.accepted) if encoding is None else b''.join(sink.accepted))
                    if not full.startswith(got):
                        res.violation('py:delivered-output-not-a-prefix:' + name, '[py] pipe broken at write %d (%s): delivered %r is not a prefix of %r' % (k, qtext, got[-60:], full[:120]), case)
                    if sink.faulted:
                        res.count('faults_triggered')
                        # a fault while the HEADER is being written is only noticed at the next record (set_header has no return value):
                        # one further attempt is tolerated there; after a data record failed, none
                        header_phase = names is not None and encoding is None and k <= 2
                        if sink.calls_after_fault > (1 if header_phase else 0):
                            res.violation('py:stream-write-after-broken-pipe:' + name, '[py] %d further stream writes after the pipe broke at write %d (%s, %s)' % (sink.calls_after_fault, k, qtext, encoding), case)
                        if reads_after > 1:
                            res.violation('py:input-read-after-broken-pipe:' + name, '[py] %d input records read after the pipe broke at write %d (%s)' % (reads_after, k, qtext), case)
                        res.count('reads_after_fault_total', reads_after)
                res.sample({'leg': 'pipe', 'shape': name, 'encoding': encoding, 'stream_write_calls': total_calls, 'fault_points': len(list(ks))}, limit=4)


def leg_writer_protocol(ns, res, spec):
    """A user-supplied writer that returns False at its k-th write."""
    for name, qtext, names in SHAPES:
        B = B3 if 'join' in name else None
        b_names = None if names is None else ['m1', 'm2']
        o0 = boundary.run_py(ns, qtext, [list(r) for r in A6], B, names, b_names)
        if o0.error is not None:
            res.violation('py:fault-free-run-raised:' + name, '[py] %s raised %s' % (qtext, o0.error_msg), {'leg': 'protocol', 'shape': name})
            continue
        full_rows = [list(r) for r in o0.rows]
        for k in range(1, o0.writes + 2):
            o = boundary.run_py(ns, qtext, [list(r) for r in A6], B, names, b_names, false_at=k)
            res.evaluations += 1
            res.count('writer_protocol_runs')
            res.distinct_disjoint += 1
            case = {'leg': 'protocol', 'shape': name, 'query_text': qtext, 'k': k}
            if o.error is not None:
                res.violation('py:false-from-writer-raises:' + name, '[py] writer returned False at write %d: %s raised %s' % (k, qtext, o.error_msg), case)
                continue
            if o.protocol_violations:
                res.violation('py:writer-protocol:' + name, '[py] writer returned False at write %d of %s: %r' % (k, qtext, o.protocol_violations), case)
            if o.finishes != 1:
                res.violation('py:finish-count:' + name, '[py] finish called %d times (False at write %d) for %s' % (o.finishes, k, qtext), case)
            if [list(r) for r in o.rows] != full_rows[:k - 1]:
                res.violation('py:accepted-records-not-a-prefix:' + name, '[py] records accepted before False at write %d: %r, fault-free %r (%s)' % (k, o.rows, full_rows, qtext), case)
            res.count('automaton_states:' + ('header+' if o.header_calls else '') + ('false' if k <= o0.writes else 'nofalse'))
    res.sample({'leg': 'protocol', 'shapes': [s[0] for s in SHAPES]})


def leg_generated(ns, res, spec):
    """The fault points of generated queries (every clause combination of the C01-C05 generators): a writer answering False at its k-th
    write and a CSV output stream raising BrokenPipeError from its k-th write call, for every k."""
    from . import c06
    rng = random.Random(spec['seed'] * 2750159 + spec['i'])
    for n in range(spec['n']):
        case = c06.case_stream(rng, n * 7 + spec['i'])
        ctx = qast.Ctx(case['a_names'], case['b_names'])
        qtext = case['query_text'] = qast.render(case['q'], ctx, 'py')
        A, B, an, bn = case['A'], case['B'], case['a_names'], case['b_names']
        sig = common.feature_sig(case['q'])
        o0 = boundary.run_py(ns, qtext, [list(r) for r in A], None if B is None else [list(r) for r in B], an, bn, mutating_sink=False)
        res.count('generated_cases')
        if o0.error is not None or o0.writes > 25:
            res.count('generated_cases_skipped_failing_or_long')
            continue
        full_rows = [list(r) for r in o0.rows]
        res.count('generated_shape:' + sig)
        for k in range(1, o0.writes + 2):
            o = boundary.run_py(ns, qtext, [list(r) for r in A], None if B is None else [list(r) for r in B], an, bn, false_at=k, mutating_sink=False)
            res.evaluations += 1
            res.count('generated_false_runs')
            res.distinct_disjoint += 1
            c = dict(case, leg='generated-false', k=k)
            if o.error is not None:
                res.violation('py:false-from-writer-raises:' + sig, '[py] writer returned False at write %d: %s raised %s' % (k, qtext, o.error_msg), c)
                continue
            if o.protocol_violations:
                res.violation('py:writer-protocol:' + sig, '[py] writer returned False at write %d of %s: %r' % (k, qtext, o.protocol_violations), c)
            if o.finishes != 1:
                res.violation('py:finish-count:' + sig, '[py] finish called %d times (False at write %d) for %s' % (o.finishes, k, qtext), c)
            if [list(r) for r in o.rows] != full_rows[:k - 1]:
                res.violation('py:accepted-records-not-a-prefix:' + sig, '[py] records accepted before False at write %d: %r, fault-free %r (%s)' % (k, o.rows, full_rows, qtext), c)
            if k <= o0.writes and o.a_reads > o0.a_reads:
                res.violation('py:more-input-read-after-false:' + sig, '[py] %d input reads with False at write %d, %d in the fault-free run (%s)' % (o.a_reads, k, o0.a_reads, qtext), c)
        # the same query into the CSV writer over a text stream that breaks
        sink0 = BrokenTextSink(None)
        exc0, _r, w0 = run_with_sink2(ns, qtext, A, B, an, bn, sink0)
        if exc0 is not None:
            res.count('generated_csv_fault_free_failing')      # e.g. ragged output under a header: no fault point to enumerate
            continue
        full = ''.join(sink0.accepted)
        total_calls = sink0.calls
        if total_calls > 40:
            continue
        for k in range(1, total_calls + 2):
            sink = BrokenTextSink(k)
            exc, reads_after, w = run_with_sink2(ns, qtext, A, B, an, bn, sink)
            res.evaluations += 1
            res.count('generated_pipe_runs')
            res.distinct_disjoint += 1
            c = dict(case, leg='generated-pipe', k=k)
            if exc is not None:
                res.violation('py:broken-pipe-escapes:' + sig, '[py] pipe broken at write %d of %d (%s): %s escaped from rbql.query: %s' % (k, total_calls, qtext, type(exc).__name__, str(exc)[:100]), c)
                continue
            got = ''.join(sink.accepted)
            if not full.startswith(got):
                res.violation('py:delivered-output-not-a-prefix:' + sig, '[py] pipe broken at write %d (%s): delivered %r is not a prefix of %r' % (k, qtext, got[-60:], full[:120]), c)
            if sink.faulted:
                res.count('generated_faults_triggered')
                header_phase = o0.header is not None and k <= 2
                if sink.calls_after_fault > (1 if header_phase else 0):
                    res.violation('py:stream-write-after-broken-pipe:' + sig, '[py] %d further stream writes after the pipe broke at write %d (%s)' % (sink.calls_after_fault, k, qtext), c)
                if reads_after > 1 and not header_phase:
                    res.violation('py:input-read-after-broken-pipe:' + sig, '[py] %d input records read after the pipe broke at write %d (%s)' % (reads_after, k, qtext), c)
        if n % 97 == 0:
            res.sample({'leg': 'generated', 'query': qtext, 'A': A[:4], 'writes': o0.writes, 'stream_write_calls': total_calls}, limit=4)


def run_with_sink2(ns, qtext, A, B, a_names, b_names, sink):
    PI, PW, PR = boundary.probes(ns)
    log = boundary.Log()
    it = PI(ns.engine.TableIterator([list(r) for r in A], a_names), log, 'A')
    reg = None
    if B is not None:
        reg = PR({'b': ([list(r) for r in B], b_names), 'B': ([list(r) for r in B], b_names)}, log)
    real_write = sink.write
    reads_at_fault = [None]

    def spy(x):
        try:
            return real_write(x)
        except BrokenPipeError:
            if reads_at_fault[0] is None:
                reads_at_fault[0] = it.reads
            raise
    sink.write = spy
    saved_stdout = sys.stdout
    sys.stdout = io.StringIO()
    exc = None
    w = None
    try:
        w = ns.csv.CSVWriter(sink, False, None, ',', 'quoted')
        ns.rbql.query(qtext, it, w, [], reg)
    except BaseException as e:   # noqa
        exc = e
    finally:
        sys.stdout = saved_stdout
    reads_after = 0 if reads_at_fault[0] is None else it.reads - reads_at_fault[0]
    return exc, reads_after, w


def leg_js_bad_bytes(ns, res, spec):
    """The JS readers (bulk and stream, several chunkings): an invalid UTF-8 sequence at any position is an IO-handling error."""
    from ..js import bridge
    node = bridge.Node.start()
    if node is None:
        res.notes.append('js bad-bytes leg: unavailable (no node)')
        return
    try:
        good = 'k1,é1\nk2,"x\ny2"\n€3,z3\n'.encode('utf-8')
        bads = [b'\xff', b'\x80', b'\xc3', b'\xe2\x82', b'\xf0\x9f\x98', b'\xc0\x80', b'\xed\xa0\x80']
        reqs, meta = [], []
        for p in list(range(0, len(good) + 1)):
            for bad in bads:
                data = good[:p] + bad + good[p:]
                try:
                    data.decode('utf-8')
                    continue
                except UnicodeDecodeError:
                    pass
                n = len(data)
                for chunks in (None, [n], [1] * n, [p, n - p] if 0 < p < n else [n], [p + 1, n - p - 1] if p + 1 < n else [n], [3] * (n // 3) + ([n % 3] if n % 3 else [])):
                    for policy in ('quoted_rfc', 'simple'):
                        reqs.append({'bytes_hex': data.hex(), 'chunks': chunks, 'encoding': 'utf-8', 'delim': ',', 'policy': policy, 'has_header': False, 'comment_prefix': None})
                        meta.append((data, chunks, policy, p, bad))
        for bad in bads[2:5]:      # the whole input / the tail after the last line break is a truncated sequence
            for data in (bad, b'a,b\n1,2\n' + bad, b'a,b\r\n' + bad):
                for chunks in (None, [len(data)], [1] * len(data)):
                    reqs.append({'bytes_hex': data.hex(), 'chunks': chunks, 'encoding': 'utf-8', 'delim': ',', 'policy': 'quoted', 'has_header': False, 'comment_prefix': None})
                    meta.append((data, chunks, 'quoted', None, bad))
        # a multi-byte sequence torn apart by ASCII text: the lead byte(s) end one chunk, pure-ASCII chunks follow, a later chunk starts with the
        # continuation bytes - invalid at every chunking (a decoder that is bypassed for ASCII chunks would glue the halves together)
        base = b'k1,v1\nk2,v2\nk3,v3\nk4,v4\n'
        for lead, cont in ((b'\xc3', b'\xa9'), (b'\xe2', b'\x82\xac'), (b'\xe2\x82', b'\xac'), (b'\xf0', b'\x9f\x98\x80'), (b'\xf0\x9f', b'\x98\x80'), (b'\xf0\x9f\x98', b'\x80')):
            for p in (0, 3, 6, 11):
                for gap in (1, 2, 5, 7):
                    data = base[:p] + lead + base[p:p + gap] + cont + base[p + gap:]
                    n = len(data)
                    a, b = p + len(lead), p + len(lead) + gap
                    for chunks in (None, [n], [1] * n, [a, gap, n - b], [a] + [1] * gap + [n - b], [a, gap, len(cont), n - b - len(cont)], [a, gap + len(cont), n - b - len(cont)]):
                        chunks = None if chunks is None else [c for c in chunks if c > 0]
                        reqs.append({'bytes_hex': data.hex(), 'chunks': chunks, 'encoding': 'utf-8', 'delim': ',', 'policy': 'quoted', 'has_header': False, 'comment_prefix': None})
                        meta.append((data, chunks, 'quoted', p, lead + b'...' + cont))
                        res.count('js_torn_sequence_cases')
        outs = node.call({'op': 'read_batch', 'cases': reqs})['results']
        for (data, chunks, policy, p, bad), o in zip(meta, outs):
            res.evaluations += 1
            res.count('js_bad_byte_runs')
            res.count('js_bad_byte_runs:' + ('bulk' if chunks is None else 'stream'))
            res.distinct_disjoint += 1
            cls = o['error'] and o['error']['cls']
            if o.get('stuck') or cls != 'RbqlIOHandlingError':
                res.violation('js:bad-byte-not-io-error:' + ('bulk' if chunks is None else 'stream'), '[js] invalid sequence %r in %r (%s, chunks %r): error %r, stuck %s, records %r' % (
                    bad, data, policy, chunks, o['error'], o.get('stuck'), o['records']), {'leg': 'js-bad-bytes', 'data_hex': data.hex(), 'chunks': chunks, 'policy': policy})
        noise = node.take_noise()
        if noise:
            res.violation('js:node-async-noise', 'unhandled rejection / uncaught exception in node while reading invalid input: %r' % (noise[:3],), {'leg': 'js-bad-bytes'})
    finally:
        node.close()


def leg_bad_bytes(ns, res, spec):
    good_text = 'k1,é1\nk2,"x\ny2"\n€3,z3\nk4,😀4\nk5,v5\n'
    good = good_text.encode('utf-8')
    clean_records = [['k1', 'é1'], ['k2', 'x\ny2'], ['€3', 'z3'], ['k4', '😀4'], ['k5', 'v5']]
    bads = [b'\xff', b'\x80', b'\xc3', b'\xe2\x82', b'\xf0\x9f\x98', b'\xc0\x80', b'\xed\xa0\x80']
    PI, PW, PR = boundary.probes(ns)
    for p in range(0, len(good) + 1):
        for bad in bads:
            data = good[:p] + bad + good[p:]
            try:
                data.decode('utf-8')
                continue
            except UnicodeDecodeError:
                pass
            for chunk in (1, 2, 3, 7, 1024):
                log = boundary.Log()
                w = PW(log)
                err = None
                exc = None
                try:
                    it = ns.csv.CSVRecordIterator(io.BytesIO(data), 'utf-8', ',', 'quoted_rfc', chunk_size=chunk)
                    ns.rbql.query('select *', it, w, [])
                except Exception as e:
                    err = util.error_class(e)
                    exc = e
                res.evaluations += 1
                res.count('bad_byte_runs')
                res.distinct_disjoint += 1
                case = {'leg': 'bad-bytes', 'data_hex': data.hex(), 'chunk': chunk, 'offset': p}
                if err != 'io':
                    res.violation('py:bad-byte-not-io-error', '[py] invalid sequence %r at offset %d (chunk_size %d): error %r (%s), records %r' % (bad, p, chunk, err, type(exc).__name__ if exc else None, w.rows), case)
                if w.rows != clean_records[:len(w.rows)]:
                    res.violation('py:garbage-record-before-decode-error', '[py] invalid sequence %r at offset %d: records delivered %r are not a prefix of the clean records' % (bad, p, w.rows), case)
    # a large file with the bad byte beyond the first decoding buffer: records before it must be delivered intact
    big = ''.join('row%d,é%d\n' % (i, i) for i in range(3000)).encode('utf-8')
    for p in (9000, 20000, len(big) - 3):
        data = big[:p] + b'\xff' + big[p:]
        log = boundary.Log()
        w = PW(log)
        err = None
        try:
            ns.rbql.query('select *', ns.csv.CSVRecordIterator(io.BytesIO(data), 'utf-8', ',', 'quoted'), w, [])
        except Exception as e:
            err = util.error_class(e)
        res.evaluations += 1
        res.count('bad_byte_big_runs')
        exp = [['row%d' % i, 'é%d' % i] for i in range(len(w.rows))]
        if err != 'io' or w.rows != exp:
            res.violation('py:bad-byte-big-file', '[py] bad byte at offset %d of a %d-byte file: error %r, %d records delivered (intact prefix: %s)' % (p, len(data), err, len(w.rows), w.rows == exp), {'leg': 'bad-bytes-big', 'offset': p})
        res.count('records_delivered_before_decode_error', len(w.rows))
    # lines wider than the reader's 1 KiB reads and than the decoder's 8 KiB blocks (a record assembled from several reads): the invalid byte in the block that
    # a LATER read of the same line reaches is an IO-handling error like any other, and the records before that line arrive intact
    wrng = random.Random(spec['seed'] * 7 + 3)
    for layout in range(6):
        lines, size = [], 0
        while size < 45000:
            w_ = wrng.choice([30, 30, 900, 1500, 3000, 3000, 9000, 20000])
            ln = 'w%d,%s' % (len(lines), 'x' * w_)
            lines.append(ln)
            size += len(ln) + 1
        wide = ('\n'.join(lines) + '\n').encode('utf-8')
        for p in sorted(set([7000 + 311 * k for k in range(0, 60, 3)] + [8192, 8193, 16383, 16384, 16385, 24576, 30000, 40000, wrng.randrange(len(wide)), wrng.randrange(len(wide))])):
            if p > len(wide):
                continue
            data = wide[:p] + b'\xff' + wide[p:]
            w = PW(boundary.Log())
            err = None
            try:
                ns.rbql.query('select a1, len(a2)', ns.csv.CSVRecordIterator(io.BytesIO(data), 'utf-8', ',', 'quoted'), w, [])
            except Exception as e:
                err = util.error_class(e) if 'Rbql' in type(e).__name__ else 'raw:' + type(e).__name__
            res.evaluations += 1
            res.count('bad_byte_wide_line_runs')
            exp = [[ln.split(',')[0], len(ln.split(',')[1])] for ln in lines[:len(w.rows)]]
            if err != 'io' or w.rows != exp:
                res.violation('py:bad-byte-in-file-of-wide-lines', '[py] invalid byte at offset %d of a %d-byte file with lines of %r... characters: error %r, %d records delivered (intact prefix: %s)' % (
                    p, len(data), [len(x) for x in lines[:8]], err, len(w.rows), w.rows == exp), {'leg': 'bad-bytes-wide', 'offset': p, 'line_widths': [len(x) for x in lines]})
    # CR / CRLF files with a line break sitting exactly on a read-buffer boundary (1 KiB reader chunks, 8 KiB decoder chunks) and the invalid byte
    # somewhere in the buffer after it: the reader's look-ahead for the LF of a split CRLF pair is a read like any other
    import tempfile
    d = tempfile.mkdtemp(prefix='rv-c15-')
    try:
        for eol in (b'\r', b'\r\n', b'\n'):
            for boundary_ in (1024, 2048, 8192, 16384, 24576):
                for delta in (-1, 0, 1):
                    target = boundary_ + delta          # the byte offset just after the CR
                    # lines of 37 bytes + eol, the last one before the target padded so that its CR is the byte at target - 1
                    body = b''
                    k = 0
                    while len(body) + 37 + len(eol) + 40 < target - 1:
                        k += 1
                        body += (b'r%06d,' % k) + b'x' * 29 + eol
                    pad = target - 1 - len(body) - len(b'last,')
                    body += b'last,' + b'y' * pad + (b'\r' if eol != b'\n' else b'\n')
                    if eol == b'\r\n':
                        body += b'\n'
                    tail = b''.join((b't%04d,' % j) + b'z' * 20 + eol for j in range(400))
                    for bad_at in (3, 700, 5000):
                        data = body + tail[:bad_at] + b'\xff' + tail[bad_at:]
                        for via in ('stream', 'file'):
                            err = None
                            try:
                                if via == 'stream':
                                    ns.rbql.query('select a1', ns.csv.CSVRecordIterator(io.BytesIO(data), 'utf-8', ',', 'quoted'), PW(boundary.Log()), [])
                                else:
                                    pth = os.path.join(d, 'big.csv')
                                    with open(pth, 'wb') as f:
                                        f.write(data)
                                    ns.rbql.query_csv('select a1', pth, ',', 'quoted', os.path.join(d, 'o.csv'), ',', 'quoted', 'utf-8', [], False)
                            except Exception as e:
                                err = util.error_class(e) if 'Rbql' in type(e).__name__ else 'raw:' + type(e).__name__
                            res.evaluations += 1
                            res.count('bad_byte_after_boundary_break_runs')
                            res.distinct_disjoint += 1
                            if err != 'io':
                                res.violation('py:bad-byte-not-io-error', '[py/%s] %d-byte file with %r line ends, a line break ending at byte %d and an invalid byte %d bytes later: error %r' % (via, len(data), eol, target, bad_at, err),
                                              {'leg': 'bad-bytes-boundary', 'eol': eol.hex(), 'target': target, 'bad_at': bad_at, 'via': via})
    finally:
        shutil.rmtree(d, ignore_errors=True)
    res.sample({'leg': 'bad-bytes', 'file': good_text, 'offsets': len(good) + 1, 'sequences': [b.hex() for b in bads], 'chunk_sizes': [1, 2, 3, 7, 1024]})


def leg_stdin_bad_bytes(ns, res, spec):
    """The table arrives on standard input: in-process through a replaced sys.stdin whose own decoder is lenient, and through the command line under
    locales / PYTHONIOENCODING settings that make the interpreter's sys.stdin lenient (surrogateescape under the C locale, replace, strict)."""
    import subprocess
    good = 'k1,é1\nk2,"x y2"\n€3,z3\nk4,v4\n'.encode('utf-8')
    bads = [b'\xff', b'\x80', b'\xc3', b'\xe2\x82', b'\xed\xa0\x80']
    d = tempfile.mkdtemp(prefix='rv-c15-')
    try:
        outp = os.path.join(d, 'out.csv')
        cases = []
        for p in range(0, len(good) + 1):
            for bad in bads:
                data = good[:p] + bad + good[p:]
                try:
                    data.decode('utf-8')
                except UnicodeDecodeError:
                    cases.append((p, bad, data))
        for p, bad, data in (cases if spec.get('i', 0) == 0 else []):
            for errors in ('surrogateescape', 'replace', 'strict', 'ignore'):
                for qtext in ('select *', 'select NR'):
                    old = sys.stdin
                    sys.stdin = io.TextIOWrapper(io.BytesIO(data), encoding='utf-8', errors=errors)
                    err = None
                    try:
                        ns.rbql.query_csv(qtext, None, ',', 'quoted', outp, ',', 'quoted', 'utf-8', [], False)
                    except Exception as e:
                        err = util.error_class(e)
                    finally:
                        sys.stdin = old
                    res.evaluations += 1
                    res.count('stdin_bad_byte_runs')
                    res.distinct_disjoint += 1
                    if err != 'io':
                        with open(outp, 'rb') as f:
                            got = f.read()
                        res.violation('py:bad-byte-on-stdin-not-io-error', '[py] query_csv(%r) from a sys.stdin with errors=%r, invalid sequence %r at offset %d: error %r, output %r' % (qtext, errors, bad, p, err, got[:80]),
                                      {'leg': 'stdin-bad-bytes', 'data_hex': data.hex(), 'errors': errors, 'query_text': qtext})
        # the command line
        envs = [('LC_ALL=C', {'LC_ALL': 'C', 'PYTHONUTF8': '0'}), ('LC_ALL=C.UTF-8', {'LC_ALL': 'C.UTF-8'}), ('PYTHONUTF8=1', {'PYTHONUTF8': '1'}), ('PYTHONIOENCODING=utf-8:replace', {'PYTHONIOENCODING': 'utf-8:replace'}),
                ('PYTHONIOENCODING=utf-8:strict', {'PYTHONIOENCODING': 'utf-8:strict'})]
        step = spec.get('step', 5)
        for n, (p, bad, data) in enumerate(cases):
            if n % step != spec.get('i', 0) % step:
                continue
            label, extra = envs[n // step % len(envs)]
            e = dict(os.environ, PYTHONPATH=env.PY_PKG_DIR, PYTHONDONTWRITEBYTECODE='1', HOME=d, PYTHONWARNINGS='ignore')
            e.pop('PYTHONIOENCODING', None)
            e.pop('LC_ALL', None)
            e.update(extra)
            inp = os.path.join(d, 'bad.csv')
            with open(inp, 'wb') as f:
                f.write(data)
            for via in ('stdin', 'file'):
                for qtext in ('select *', 'select NR', 'select len(a1)'):
                    cmd = [sys.executable, '-W', 'ignore', '-m', 'rbql', '--delim', ',', '--policy', 'quoted', '--query', qtext] + (['--input', inp] if via == 'file' else [])
                    pr = subprocess.run(cmd, env=e, cwd=d, input=data if via == 'stdin' else None, stdout=subprocess.PIPE, stderr=subprocess.PIPE, timeout=120)
                    res.evaluations += 1
                    res.count('cli_bad_byte_runs')
                    res.count('cli_bad_byte_runs:' + via)
                    res.distinct_disjoint += 1
                    if pr.returncode == 0 or b'Error [IO handling]' not in pr.stderr or b'Traceback' in pr.stderr:
                        res.violation('py:cli-bad-byte-not-io-error:' + via, '[cli %s, %s] %r over input with invalid sequence %r at offset %d: exit %d, stderr %r, stdout %r' % (via, label, qtext, bad, p, pr.returncode, pr.stderr[-200:], pr.stdout[:80]),
                                      {'leg': 'cli-bad-bytes', 'data_hex': data.hex(), 'env': extra, 'via': via, 'query_text': qtext})
        res.sample({'leg': 'stdin-bad-bytes', 'file': good.decode('utf-8'), 'sequences': [b.hex() for b in bads], 'stdin_error_handlers': ['surrogateescape', 'replace', 'strict', 'ignore'], 'cli_environments': [l for l, _e in envs]})
    finally:
        shutil.rmtree(d, ignore_errors=True)


class OpenTracker(object):
    """Stand-in for open() inside a front-end module: keeps a strong reference to every file object, so reference counting cannot hide a missing close()."""

    def __init__(self):
        self.files = []

    def __call__(self, *a, **kw):
        f = open(*a, **kw)
        self.files.append((a[0] if a else kw.get('file'), f))
        return f

    def still_open(self):
        return [str(p) for p, f in self.files if not f.closed]


def fd_count():
    return len(os.listdir('/proc/self/fd'))


DESCRIPTOR_SCENARIOS = [
    ('success', 'select a1, a2', 'ok'),
    ('success-join', 'select a1, b2 join jn_1.csv on a1 == b1', 'ok'),
    ('success-sorted', 'select * order by a2 desc', 'ok'),
    ('parse-error', 'select a1 where a2 = 1', 'parsing'),
    ('parse-error-after-join-open', 'select a1, b2 join jn_1.csv on a1 == b.nosuch', 'parsing*'),
    ('syntax-error', 'select a1 +', 'syntax'),
    ('runtime-error-record-2', 'select int(a2)', 'runtime'),
    ('runtime-error-with-join', 'select int(a2), b2 join jn_1.csv on a1 == b1', 'runtime'),
    ('missing-join-table', 'select a1 join nosuch.csv on a1 == b1', 'io'),
    ('io-error-bad-bytes', 'select a1', 'io-badbytes'),
    ('io-error-join-bad-bytes', 'select a1, b1 join jn_bad.csv on a1 == b1', 'io'),
    # the invalid byte deep inside a join table of several read blocks (beyond what the reader decodes when it is created)
    ('io-error-join-bad-bytes-late', 'select a1, b1 join jn_bad_late.csv on a1 == b1', 'io'),
    ('io-error-join-bad-bytes-late-update', 'update a2 = b2 join jn_bad_late.csv on a1 == b1', 'io'),
    ('missing-input', 'select a1', 'missing-input'),
    ('double-unnest', 'select UNNEST([1]), UNNEST([2])', 'parsing'),
    ('strict-left-join-failure', 'select a1 strict left join jn_1.csv on a1 == b1', 'runtime'),
    # the join table named by an alias that ~/.rbql_table_names resolves (that index file is one more file the front-end opens)
    ('alias-join', 'select a1, b2 join myalias on a1 == b1', 'ok'),
    ('alias-join-runtime-error', 'select int(a2), b2 join myalias on a1 == b1', 'runtime'),
    ('alias-join-parse-error', 'select a1, b2 join myalias on a1 == b.nosuch', 'parsing*'),
    ('alias-unknown', 'select a1 join otheralias on a1 == b1', 'io'),
    ('alias-join-bad-bytes', 'select a1, b1 join badalias on a1 == b1', 'io'),
    ('alias-last-line-of-index', 'select a1, b2 join lastalias on a1 == b1', 'ok'),
    ('output-in-missing-directory', 'select a1, a2', 'bad-output:missing-dir'),
    ('output-path-is-a-directory', 'select a1, b2 join jn_1.csv on a1 == b1', 'bad-output:is-dir'),
    ('output-in-missing-directory-failing-query', 'select int(a2)', 'bad-output:missing-dir'),
    # the output path is a named pipe whose reader takes a few bytes and goes away: the query ends quietly (broken pipe), and the file is closed all the same
    ('output-fifo-reader-goes-away', 'select *', 'fifo'),
    ('output-fifo-reader-goes-away-sorted', 'select a2, a1 order by a1 desc', 'fifo'),
    ('output-fifo-reader-goes-away-update', 'update a2 = a1 + "!"', 'fifo'),
    # ... and a reader that leaves at once while the whole output still sits in the writer's buffers: the first flush is the one inside close()
    ('output-fifo-reader-leaves-at-once', 'select a1, a2', 'fifo-small'),
]


def leg_descriptors(ns, res, spec):
    d = tempfile.mkdtemp(prefix='rv-c15-')
    try:
        inp = os.path.join(d, 'in_1.csv')
        bad_inp = os.path.join(d, 'in_bad.csv')
        with open(inp, 'wb') as f:
            f.write(b'a,1\nb,x\nb,3\nzz,4\n')
        with open(bad_inp, 'wb') as f:
            f.write(b'a,1\nb,\xff\n')
        big_inp = os.path.join(d, 'in_big.csv')
        with open(big_inp, 'wb') as f:
            f.write(b''.join(b'key%d,value %d of a table large enough to fill every buffer between the writer and a reader that left\n' % (i % 50, i) for i in range(6000)))
        with open(os.path.join(d, 'jn_1.csv'), 'wb') as f:
            f.write(b'b,J1\nb,J2\na,J3\n')
        with open(os.path.join(d, 'jn_bad.csv'), 'wb') as f:
            f.write(b'b,J1\n\xff,J2\n')
        with open(os.path.join(d, 'jn_bad_late.csv'), 'wb') as f:
            f.write(b''.join(b'k%d,J%d\n' % (i, i) for i in range(3000)) + b'b,\xe2\x82\n' + b''.join(b'q%d,J\n' % i for i in range(500)))
        db = os.path.join(d, 'db.sqlite')
        conn = sqlite3.connect(db)
        conn.execute('CREATE TABLE t (id TEXT, v TEXT)')
        conn.executemany('INSERT INTO t VALUES (?, ?)', [('a', '1'), ('b', 'x')])
        conn.commit()
        conn.close()
        old_home = os.environ.get('HOME')
        os.environ['HOME'] = d
        with open(os.path.join(d, '.rbql_table_names'), 'w') as f:
            f.write(''.join('unused%d\t/nowhere/%d.csv\n' % (i, i) for i in range(5)) + 'myalias\t%s\nbadalias\t%s\n' % (os.path.join(d, 'jn_1.csv'), os.path.join(d, 'jn_bad.csv'))
                    + ''.join('more%d\t/nowhere/m%d.csv\n' % (i, i) for i in range(40)) + 'lastalias\t%s' % os.path.join(d, 'jn_1.csv'))
        for rep in range(spec['n']):
            for name, qtext, expect in DESCRIPTOR_SCENARIOS:
                for with_headers in (False, True):
                    tracker = OpenTracker()
                    ns.csv.open = tracker
                    src = inp
                    if expect == 'io-badbytes':
                        src = bad_inp
                    if expect == 'missing-input':
                        src = os.path.join(d, 'nosuch_input.csv')
                    outp = os.path.join(d, 'out.csv')
                    if expect == 'bad-output:missing-dir':
                        outp = os.path.join(d, 'no', 'such', 'dir', 'out.csv')
                    elif expect == 'bad-output:is-dir':
                        outp = d
                    reader = None
                    if expect in ('fifo', 'fifo-small'):
                        src = big_inp if expect == 'fifo' else inp
                        outp = os.path.join(d, 'out.fifo')
                        if os.path.exists(outp):
                            os.unlink(outp)
                        os.mkfifo(outp)

                        def take_a_little(path=outp, k=(10 if expect == 'fifo' else 0), pause=[0, 0.001, 0.01][rep % 3]):
                            with open(path, 'rb') as f:
                                if k:
                                    f.read(k)
                                    time.sleep(pause)
                        reader = threading.Thread(target=take_a_little, daemon=True)
                        reader.start()
                        res.count('descriptor_runs_output_fifo')
                    fds0 = fd_count()
                    err = None
                    with pywarnings.catch_warnings(record=True) as caught:
                        pywarnings.simplefilter('always', ResourceWarning)
                        try:
                            ns.rbql.query_csv(qtext, src, ',', 'quoted', outp, ',', 'quoted', 'utf-8', [], with_headers)
                        except BaseException as e:   # noqa
                            err = util.error_class(e)
                        import gc
                        gc.collect()
                    if reader is not None:
                        reader.join(30)
                        fds0 = fds0 if not reader.is_alive() else -1
                    del ns.csv.open
                    res.evaluations += 1
                    res.count('descriptor_runs')
                    res.count('descriptor_outcome:' + str(err))
                    res.count('files_tracked', len(tracker.files))
                    res.distinct_disjoint += 1 if rep == 0 else 0
                    case = {'leg': 'descriptors', 'scenario': name, 'query_text': qtext, 'with_headers': with_headers, 'outcome': err}
                    left = tracker.still_open()
                    if left:
                        res.violation('py:file-left-open:' + name, '[py] query_csv(%r) outcome %s left open: %r' % (qtext, err, [os.path.basename(x) for x in left]), case)
                        for _p, f in tracker.files:
                            f.close()
                    rw = [str(w.message) for w in caught if issubclass(w.category, ResourceWarning)]
                    if rw:
                        res.violation('py:resource-warning:' + name, '[py] ResourceWarning during query_csv(%r): %r' % (qtext, rw[:2]), case)
                    if fd_count() != fds0:
                        res.violation('py:fd-count-changed:' + name, '[py] /proc/self/fd count %d -> %d after query_csv(%r) outcome %s' % (fds0, fd_count(), qtext, err), case)
                    exp_class = expect.rstrip('*').split('-')[0]
                    if err is not None and exp_class in ('io', 'parsing', 'runtime', 'syntax') and err != exp_class:
                        res.violation('py:descriptor-scenario-error-class:' + name, '[py] %r failed as %s, expected %s' % (qtext, err, exp_class), case)
                    if expect.startswith('bad-output') and err is None:
                        res.violation('py:descriptor-scenario-did-not-fail:' + name, '[py] %r with an output path that cannot be opened did not fail' % (qtext,), case)
                    if expect in ('ok', 'fifo', 'fifo-small') and err is not None:
                        res.violation('py:descriptor-scenario-unexpected-error:' + name, '[py] %r raised %s' % (qtext, err), case)
                    if expect not in ('ok', 'fifo', 'fifo-small', 'missing-input') and not expect.startswith('bad-output') and err is None and not (expect.endswith('*') and not with_headers):
                        res.violation('py:descriptor-scenario-did-not-fail:' + name, '[py] %r was expected to fail (%s)' % (qtext, expect), case)
            # sqlite front-end
            for qtext in ('select a1, a2', 'select int(a2)', 'select a1 where a2 = 1', 'select a1 +'):
                tracker = OpenTracker()
                ns.sqlite.open = tracker
                conn = sqlite3.connect(db)
                err = None
                try:
                    ns.sqlite.query_sqlite_to_csv(qtext, conn, 't', os.path.join(d, 'out_s.csv'), ',', 'quoted', 'utf-8', [])
                except Exception as e:
                    err = util.error_class(e)
                conn.close()
                del ns.sqlite.open
                res.evaluations += 1
                res.count('descriptor_runs_sqlite')
                if tracker.still_open():
                    res.violation('py:file-left-open:sqlite', '[py] query_sqlite_to_csv(%r) outcome %s left the output file open' % (qtext, err), {'leg': 'descriptors-sqlite', 'query_text': qtext})
                    for _p, f in tracker.files:
                        f.close()
        res.sample({'leg': 'descriptors', 'scenarios': [s[0] for s in DESCRIPTOR_SCENARIOS]})
    finally:
        for mod in (ns.csv, ns.sqlite):
            if 'open' in vars(mod):
                del mod.open
        if 'old_home' in locals():
            if old_home is None:
                os.environ.pop('HOME', None)
            else:
                os.environ['HOME'] = old_home
        shutil.rmtree(d, ignore_errors=True)


def leg_real_pipe(ns, res, spec):
    """The command line writing into a real OS pipe whose reader goes away after N bytes (what `| head` does)."""
    import subprocess
    d = tempfile.mkdtemp(prefix='rv-c15-')
    try:
        inp = os.path.join(d, 'in_1.csv')
        with open(inp, 'w') as f:
            for i in range(30000):
                f.write('%d,row%d,%s\n' % (i, i % 7, 'x' * 30))
        e = dict(os.environ, PYTHONPATH=env.PY_PKG_DIR, PYTHONDONTWRITEBYTECODE='1', HOME=d, PYTHONWARNINGS='ignore')
        queries = ['select a1, a2', 'select a1, a2 order by a2 desc', 'select distinct count a2', 'update a3 = a2', 'select a1, UNNEST([a2, a3])']
        for q in queries[:spec['n']]:
            base = [sys.executable, '-W', 'ignore', '-m', 'rbql', '--input', inp, '--delim', ',', '--policy', 'quoted', '--query', q]
            full = subprocess.run(base, env=e, cwd=d, stdout=subprocess.PIPE, stderr=subprocess.PIPE, timeout=300)
            if full.returncode != 0:
                res.violation('py:cli-fault-free-run-failed', '[cli] %r exit %d: %r' % (q, full.returncode, full.stderr[-200:]), {'leg': 'realpipe', 'query_text': q})
                continue
            for nbytes in spec['cuts']:
                p = subprocess.Popen(base, env=e, cwd=d, stdout=subprocess.PIPE, stderr=subprocess.PIPE)
                got = p.stdout.read(nbytes) if nbytes else b''
                p.stdout.close()           # the consumer goes away
                err = p.stderr.read()
                rc = p.wait(timeout=300)
                res.evaluations += 1
                res.count('real_pipe_runs')
                res.distinct_disjoint += 1
                case = {'leg': 'realpipe', 'query_text': q, 'bytes_read_before_close': nbytes}
                if rc != 0:
                    res.violation('py:cli-broken-pipe-nonzero-exit', '[cli] %r with the consumer closing after %d bytes: exit %d, stderr %r' % (q, nbytes, rc, err[-300:]), case)
                elif any(t in err for t in (b'Traceback', b'BrokenPipe', b'Exception ignored', b'Error [')):
                    res.violation('py:cli-broken-pipe-noise-on-stderr', '[cli] %r with the consumer closing after %d bytes: stderr %r' % (q, nbytes, err[-300:]), case)
                if not full.stdout.startswith(got):
                    res.violation('py:cli-pipe-output-not-a-prefix', '[cli] %r: the %d bytes delivered before the close are not a prefix of the full output' % (q, len(got)), case)
        res.sample({'leg': 'realpipe', 'queries': queries[:spec['n']], 'cuts': spec['cuts'], 'input_rows': 30000})
    finally:
        shutil.rmtree(d, ignore_errors=True)


def plan(tier, seed):
    specs = [{'kind': 'pipe'}, {'kind': 'protocol'}, {'kind': 'bytes'}, {'kind': 'js-bytes'}, {'kind': 'descriptors', 'n': 2 if tier == 'quick' else 20}]
    specs += [{'kind': 'generated', 'i': i, 'n': 120 if tier == 'quick' else 2500} for i in range(6 if tier == 'quick' else 12)]
    specs += [{'kind': 'stdin-bytes', 'i': i, 'step': 10 if tier == 'quick' else 2} for i in range(2)]
    specs.append({'kind': 'realpipe', 'n': 3 if tier == 'quick' else 5, 'cuts': [0, 10, 70000] if tier == 'quick' else [0, 1, 10, 4096, 65536, 70000, 300000]})
    return specs


def run_shard(spec, res):
    ns = env.import_rbql()
    {'pipe': leg_broken_pipe, 'generated': leg_generated, 'protocol': leg_writer_protocol, 'bytes': leg_bad_bytes, 'stdin-bytes': leg_stdin_bad_bytes, 'js-bytes': leg_js_bad_bytes, 'descriptors': leg_descriptors, 'realpipe': leg_real_pipe}[spec['kind']](ns, res, spec)


def summarize(tier, seed, m):
    return {
        'rule': 'fault enumeration: for each of %d query shapes (streaming, WHERE, header, UPDATE, ORDER BY, TOP, GROUP BY, DISTINCT, DISTINCT COUNT, UNNEST, multi-match JOIN, LEFT JOIN star, None output) the output stream raises BrokenPipeError at every write index k in 1..writes+1 (text sink and raw byte sink behind the writer\'s TextIOWrapper; large outputs sampled), and a user writer returns False at every k; the same two fault enumerations over generated queries of every clause combination (C01-C05 generators, random tables); an invalid UTF-8 sequence at every offset x 7 sequences x 5 chunk sizes (Python reader) and x 6 deliveries x 2 policies through the JS bulk and stream readers, plus truncated sequences as the whole input or right after the last line break; CR / CRLF / LF files of up to 35 KiB whose line break ends exactly at, one before or one after a 1 / 2 / 8 / 16 / 24 KiB buffer boundary with the invalid byte 3, 700 or 5000 bytes later (stream and query_csv); the same invalid sequences with the table on standard input - in-process through a replaced sys.stdin whose own error handler is surrogateescape / replace / strict / ignore, and through the command line (stdin and --input) under LC_ALL=C, C.UTF-8, PYTHONUTF8=1, PYTHONIOENCODING=utf-8:replace / :strict, for queries that do and do not print the damaged cell; %d descriptor scenarios (success, parse / syntax / runtime / IO error, missing input, missing join table) x header flag with every file object opened by the CSV / sqlite front-ends tracked; the command line writing 30000 rows into a real OS pipe whose reader closes after N bytes (exit status 0, silent stderr, delivered bytes a prefix). distinct_nontrivial counts enumerated fault points.' % (len(SHAPES), len(DESCRIPTOR_SCENARIOS)),
        'exhaustive': True,
        'required': ['js_torn_sequence_cases', 'js_bad_byte_runs:bulk', 'js_bad_byte_runs:stream', 'generated_false_runs', 'generated_pipe_runs', 'generated_faults_triggered', 'broken_pipe_runs', 'broken_pipe_runs_writer_closes_stream', 'descriptor_runs_output_fifo', 'broken_pipe:text', 'broken_pipe:bytes', 'faults_triggered', 'writer_protocol_runs', 'bad_byte_runs', 'bad_byte_big_runs', 'bad_byte_wide_line_runs', 'bad_byte_after_boundary_break_runs', 'stdin_bad_byte_runs', 'cli_bad_byte_runs:stdin', 'cli_bad_byte_runs:file', 'records_delivered_before_decode_error', 'descriptor_runs', 'files_tracked', 'descriptor_runs_sqlite', 'real_pipe_runs'],
        'assumptions': ['"promptly": no further stream write and at most one further input read after the pipe broke', 'set_header has no return value, so a pipe that breaks while the header line is written can only be noticed at the first data write (one further write attempt tolerated in that phase only); a buffering query (aggregates, ORDER BY, DISTINCT COUNT) issues that write after it has consumed its input, so the read bound is applied to faults at data writes', 'finish being (not) called on failing runs is not demanded'],
    }


def replay(case, res):
    res.notes.append('replay: run ./check C15 quick (fault enumeration is cheap and deterministic)')
