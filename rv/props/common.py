"""Shared by the engine properties (C01-C08, C14, C19): build a case, run it on the Python engine with probes and on the JS
engine through node, compare with the reference semantics, report violations with a mechanism signature."""
import zlib
import json

from .. import util
from ..gen import queries as gq
from ..model import qast, refsem
from ..monitors import boundary


# ---------------------------------------------------------------------------------------------------------------
# case construction

def make_tables(rng, join=False, header_p=0.5, **kw):
    """-> dict(A, B, a_names, b_names).  With a header the first record fixes the width of the name list (engine requirement)."""
    A = gq.gen_table(rng, **kw)
    B = None
    a_names = b_names = None
    if join:
        B = gq.gen_table(rng, max_rows=kw.get('max_rows', 6), max_cols=kw.get('max_cols', 4), ragged_p=kw.get('ragged_p', 0.25), none_p=0.05)
        # make key collisions likely: rewrite some B cells with values taken from A
        vals = [c for r in A for c in r if isinstance(c, (str, int))]
        if vals:
            for r in B:
                for j in range(len(r)):
                    if rng.random() < 0.6:
                        r[j] = rng.choice(vals)
    if join and A and B and A[0] and B[0] and rng.random() < 0.15:
        # None as a join key on both sides (list / pandas / sqlite NULL): the leading A records and one or two B records share it
        ja = rng.choice([0, rng.randrange(len(A[0]))])
        jb = rng.choice([0, rng.randrange(len(B[0]))])
        for r in A[:rng.choice([1, 1, 2])]:
            if len(r) > ja:
                r[ja] = None
        for r in rng.sample(B, min(len(B), rng.choice([1, 2]))):
            if len(r) > jb:
                r[jb] = None
    if rng.random() < header_p:
        wa = len(A[0]) if A else rng.randrange(1, 4)
        a_names = gq.gen_names(rng, wa)
        if B is not None:
            wb = len(B[0]) if B else rng.randrange(1, 4)
            b_names = gq.gen_names(rng, wb, exclude=a_names)
        if wa == 0 and A:
            a_names = None
            b_names = None
        if B is not None and a_names is not None and B and len(B[0]) == 0:
            a_names = None
            b_names = None
    return {'A': A, 'B': B, 'a_names': a_names, 'b_names': b_names}


def feature_sig(q):
    f = []
    if q['kind'] == 'update':
        f.append('update')
    if q.get('join'):
        f.append({'JOIN': 'inner', 'INNER JOIN': 'inner', 'LEFT JOIN': 'left', 'LEFT OUTER JOIN': 'left', 'STRICT LEFT JOIN': 'strict'}[q['join']['type']])
    if q.get('where') is not None:
        f.append('where')
    if q.get('order'):
        f.append('order-desc' if q['order'].get('desc') else 'order')
    if q.get('distinct'):
        f.append('distinct-' + q['distinct'] if q['distinct'] == 'count' else 'distinct')
    if q.get('top') is not None:
        f.append('top')
    if q.get('group'):
        f.append('group')
    if q.get('except') is not None:
        f.append('except')
    kinds = sorted(set(it['kind'] for it in q.get('items', [])))
    for k in kinds:
        if k != 'expr':
            f.append(k)
    return '+'.join(f) or 'plain'


def shape_sig(q):
    """Coarser than the case, finer than the feature set: which item kinds / clause kinds / expression heads occur."""
    heads = set()

    def walk(e):
        if isinstance(e, list) and e and isinstance(e[0], str):
            heads.add(e[0] if e[0] != 'field' else 'field:' + e[3])
            for x in e[1:]:
                walk(x)
        elif isinstance(e, list):
            for x in e:
                walk(x)
        elif isinstance(e, dict):
            for v in e.values():
                walk(v)
    walk(q.get('items'))
    walk(q.get('where'))
    walk(q.get('order'))
    walk(q.get('assign'))
    return feature_sig(q) + '|' + ','.join(sorted(heads))


def case_json(q, T, qtext=None, extra=None):
    c = {'q': q, 'A': T['A'], 'B': T['B'], 'a_names': T['a_names'], 'b_names': T['b_names']}
    if qtext is not None:
        c['query_text'] = qtext
    if extra:
        c.update(extra)
    return c


# ---------------------------------------------------------------------------------------------------------------
# comparison with the reference

def rows_match(got_rows, ref):
    if ref.agg_meta is None:
        return refsem.same_rows(got_rows, ref.rows)
    if len(got_rows) != len(ref.rows):
        return False
    for g, x, meta in zip(got_rows, ref.rows, ref.agg_meta):
        if not isinstance(g, (list, tuple)) or len(g) != len(x):
            return False
        for gv, xv, kind in zip(g, x, meta):
            if kind == 'exact':
                if not refsem.same_value(gv, xv):
                    return False
            elif kind == 'float' or kind.startswith('float@'):
                scale = max(1, abs(xv), int(kind[6:]) if kind.startswith('float@') else 0)
                if isinstance(gv, bool) or not isinstance(gv, (int, float)) or gv != gv:
                    return False
                if not refsem.same_value(gv, xv, tol=scale * refsem.Fraction(1, 10 ** 9)):
                    return False
            elif kind == 'member':
                if not any(refsem.same_value(gv, m) for m in xv):
                    return False
            elif kind == 'list':
                if not refsem.same_value(gv, xv):
                    return False
            else:
                if not refsem.same_value(gv, xv):
                    return False
    return True


def show_ref_rows(ref):
    def conv(v):
        if isinstance(v, refsem.Fraction):
            return float(v) if v.denominator != 1 else int(v)
        if isinstance(v, list):
            return [conv(x) for x in v]
        return v
    return [[conv(v) for v in r] for r in ref.rows]


def rectangular(case):
    for t in (case['A'], case['B']):
        if t and len(set(len(r) for r in t)) > 1:
            return False
    return True


def compare(res, prop_tag, engine, case, got, ref, check_header=True, classify=None):
    """got: dict(rows, header, error (class), error_msg).  Reports at most one violation; returns True when everything matched."""
    sig_f = feature_sig(case['q'])

    def report(mech, what):
        finding = classify(mech, case, got, ref) if classify else None
        res.violation('%s:%s:%s' % (engine, mech, sig_f), '[%s] %s | query: %s | A=%r B=%r names=%r/%r' % (
            engine, what, case.get('query_text_' + engine, case.get('query_text')), case['A'], case['B'], case['a_names'], case['b_names']), dict(case, engine=engine), finding=finding)
        return False

    if ref.error is not None and ref.error_optional and got['error'] is None:
        if not rows_match(got['rows'], ref):
            return report('rows-differ', 'rows %r ; reference %r (error behind the bound is optional)' % (got['rows'], show_ref_rows(ref)))
        return True
    if ref.error is not None:
        if got['error'] is None:
            return report('missing-error', 'expected a %s error (record %r: %s), got rows %r' % (ref.error.cls, ref.error.record, ref.error.what, got['rows']))
        if got['error'] != ref.error.cls:
            return report('wrong-error-class', 'expected a %s error (record %r: %s), got %s: %s' % (ref.error.cls, ref.error.record, ref.error.what, got['error'], (got['error_msg'] or '')[:200]))
        if ref.error.record is not None:
            nums = util.record_numbers(got['error_msg'] or '')
            if ref.error.record not in nums:
                return report('error-names-wrong-record', 'error must name record %d (%s), message: %s' % (ref.error.record, ref.error.what, (got['error_msg'] or '')[:200]))
        return True
    if got['error'] is not None:
        return report('unexpected-error', 'raised %s: %s ; reference rows %r' % (got['error'], (got['error_msg'] or '')[:300], show_ref_rows(ref)))
    if not rows_match(got['rows'], ref):
        return report('rows-differ', 'rows %r ; reference %r' % (got['rows'], show_ref_rows(ref)))
    if check_header:
        gh = got['header'] if got['header'] else None
        if gh != (ref.header or None):
            return report('header-differs', 'header %r ; reference %r' % (got['header'], ref.header))
        if gh is not None and rectangular(case):
            for r in got['rows']:
                if len(r) != len(gh):
                    return report('header-width', 'header %r has %d names, record %r has %d fields' % (gh, len(gh), r, len(r)))
    return True


JS_TIE = 'js-orderby-tie-order-within-record'
JS_GROUP = 'js-group-order-json-text'


def classify_known_js(mech, case, got, ref):
    """Known JS findings, recognised by mechanism: the observed rows must equal what the documented faulty rule produces."""
    if mech != 'rows-differ' or got.get('error') is not None:
        return None
    q = case['q']
    if q.get('order'):
        ref2 = refsem.run(q, case['A'], case['B'], case['a_names'], case['b_names'], variant='js-tie')
        if ref2.error is None and rows_match(got['rows'], ref2):
            return JS_TIE
    if q.get('group'):
        ref2 = refsem.run(q, case['A'], case['B'], case['a_names'], case['b_names'], variant='js-group')
        if ref2.error is None and rows_match(got['rows'], ref2):
            return JS_GROUP
    return None


# ---------------------------------------------------------------------------------------------------------------
# engines

PY_NOISE_QUERIES = [
    'update a1 = 1, a["no such column"] = 2', 'update a1 = 1, a2 = 2, a["nope"] = 3 where a1 == a1', 'update b1 = 1, a2 = 2', 'update a1 = 1, a9999 = 2', 'update a1 = a2 order by a1', 'update a1 == 2',
    'select a1 +', 'select a["no such column"]', 'select a.no_such_column, a1', 'select a1 where a2 = 1', 'select a1, count(*) order by a1', 'select unnest([1]), unnest([2])',
    'select a1 join zz on a1 == b1', 'select a1 join b on a9999 == b1', 'select * except a["nope"]', 'select a1 as x, *', 'select top x a1', 'select distinct count a1, count(*)',
    'select a1, max(a2) group by a1 order by a1', 'select [1][5].foo', 'select like(a1)', 'select a1 strict left join b on a1 == b1', 'select a1 where', 'select',
    'select AVG(NR), VARIANCE(NR * 1.5), SUM(NF)', 'select a1, MIN(NR), MAX(NR), MEDIAN(NR) group by a1', 'select like(a1, "%a_"), a1 order by a1 desc', 'select distinct count a1', 'update a1 = NU',
]
noise_counter = [0, 0]


def run_case_py(ns, case, **kw):
    ctx = qast.Ctx(case['a_names'], case['b_names'])
    qtext = case.get('query_text') or qast.render(case['q'], ctx, 'py')
    case['query_text'] = qtext
    # history: a third of the cases are preceded, in this same interpreter, by another (mostly failing) query on the same tables;
    # the observed result is compared with the reference as always, so any dependence on what ran before shows up as a deviation
    h = zlib.crc32(qtext.encode('utf-8', 'surrogatepass'))
    if h % 3 == 0 and not kw.get('no_history'):
        noise_counter[0] += 1
        try:
            ns.rbql.query_table(PY_NOISE_QUERIES[(h // 3) % len(PY_NOISE_QUERIES)], [list(r) for r in case['A']], [], [], None if case['B'] is None else [list(r) for r in case['B']], case['a_names'], case['b_names'])
        except Exception:
            noise_counter[1] += 1
    elif h % 3 == 1 and not kw.get('no_history') and case['a_names'] is not None and len(case['a_names']) > 1 and all(len(r) == len(case['a_names']) for r in case['A']):
        # history of another kind: the very same query TEXT over the same data with the columns (and their names) in another order,
        # so that anything remembered per query text (translated code, variable bindings, header infos) would be stale now
        perm = list(range(len(case['a_names'])))
        perm = perm[1:] + perm[:1] if (h // 3) % 2 else perm[::-1]
        noise_counter[0] += 1
        try:
            ns.rbql.query_table(qtext, [[r[j] for j in perm] for r in case['A']], [], [], None if case['B'] is None else [list(r) for r in case['B']], [case['a_names'][j] for j in perm], case['b_names'], [],
                                kw.get('normalize', True), kw.get('init_code', ''))
        except Exception:
            noise_counter[1] += 1
    elif h % 3 == 2 and not kw.get('no_history') and (h // 3) % 2 == 0 and case['A'] and kw.get('input_iter') is None:
        # history of a third kind: the caller's very same list objects held other content when the same query ran a moment ago (rows rotated,
        # join keys moved); anything remembered per table object (a join index, parsed records) would be stale now
        A0, B0 = [list(r) for r in case['A']], None if case['B'] is None else [list(r) for r in case['B']]
        try:
            case['A'][:] = [list(r) for r in (A0[1:] + A0[:1])]
            if B0 is not None and B0:
                rot = B0[1:] + B0[:1]
                case['B'][:] = [[rot[i][0] if rot[i] else None] + list(r[1:]) if r else [] for i, r in enumerate(B0)]      # same rows, key cells moved
            noise_counter[0] += 1
            try:
                ns.rbql.query_table(qtext, case['A'], [], [], case['B'], case['a_names'], case['b_names'], [], kw.get('normalize', True), kw.get('init_code', ''))
            except Exception:
                noise_counter[1] += 1
        finally:
            case['A'][:] = A0
            if B0 is not None:
                case['B'][:] = B0
    kw.pop('no_history', None)
    o = boundary.run_py(ns, qtext, case['A'], case['B'], case['a_names'], case['b_names'], **kw)
    case.pop('_query_table_differs', None)
    if h % 4 == 0 and not (set(kw) - {'init_code', 'normalize'}):
        # differential: the plain query_table entry point (the library's own TableIterator / TableWriter / registry, not the probes) on the
        # very same list objects must observe the same rows, header and error class
        r = boundary.run_query_table(ns, qtext, case['A'], case['B'], case['a_names'], case['b_names'], kw.get('normalize', True), kw.get('init_code', ''))
        if r['error'] != o.error or (o.error is None and (not refsem.same_rows(r['rows'], [list(x) for x in o.rows]) or (r['header'] or None) != (o.header or None))):
            case['_query_table_differs'] = 'query_table -> rows %r header %r error %r ; rbql.query with probe iterator / writer -> rows %r header %r error %r' % (r['rows'][:6], r['header'], r['error'], o.rows[:6], o.header, o.error)
    return o


def obs_to_got(o):
    return {'rows': o.rows, 'header': o.header, 'error': o.error, 'error_msg': o.error_msg}


def js_error_class(err):
    if err is None:
        return None
    n = err.get('cls', '')
    if 'RbqlParsingError' in n:
        return 'parsing'
    if 'RbqlRuntimeError' in n:
        return 'runtime'
    if 'RbqlIOHandlingError' in n:
        return 'io'
    if n == 'SyntaxError':
        return 'syntax'
    return 'other:' + n


def js_request(case):
    ctx = qast.Ctx(case['a_names'], case['b_names'])
    qtext = qast.render(case['q'], ctx, 'js')
    case['query_text_js'] = qtext
    req = {'query': qtext, 'input': case['A'], 'join': case['B'], 'input_cols': case['a_names'], 'join_cols': case['b_names']}
    if case.get('init'):
        req['init_code'] = qast.INIT_JS
    # half of the cases (chosen by the query text, so that a replay agrees) write into a sink that rewrites the arrays it is handed
    req['mutating_sink'] = zlib.crc32(qtext.encode('utf-8', 'surrogatepass')) % 2 == 1
    return req


def js_got(o):
    return {'rows': o['out'], 'header': o['header'] if o['header'] else None, 'error': js_error_class(o['error']), 'error_msg': o['error'] and o['error']['msg']}


def neutral_query(q):
    return qast.is_neutral([q.get('items'), q.get('where'), q.get('order'), q.get('group'), q.get('assign')]) and all(
        qast.is_neutral(it.get('expr')) and qast.is_neutral(it.get('arg')) for it in q.get('items', []))


JS_NOISE_QUERIES = [
    'update a1 = 1, a["no such column"] = 2', 'update a1 = 1, a2 = 2, a["nope"] = 3 where a1 == a1', 'update b1 = 1, a2 = 2', 'update a1 = 1, a9999 = 2', 'update a1 = a2 order by a1', 'update a1 == 2',
    'select a1 +', 'select a["no such column"]', 'select a.no_such_column, a1', 'select a1 where a2 = 1', 'select a1, count(*) order by a1', 'select unnest([1]), unnest([2])',
    'select a1 join zz on a1 == b1', 'select a1 join b on a9999 == b1', 'select * except a["nope"]', 'select a1 as x, *', 'select top x a1', 'select distinct count a1, count(*)',
    'select a1, max(a2) group by a1 order by a1', 'select [1][5].foo', 'select like(a1)', 'select a1 strict left join b on a1 == b1', 'select a1 where', 'select',
]


class JsLeg(object):
    """Batches the language-neutral cases of a shard for the node driver and compares them with the same reference."""

    def __init__(self, res, prop_tag, classify=None, check_sources=True, compare_results=True):
        self.res = res
        self.prop_tag = prop_tag
        self.pending = []
        self.node = None
        self.unavailable = False
        self.classify = classify
        self.check_sources = check_sources
        self.compare_results = compare_results

    def add(self, case, ref, check_header=True):
        if self.unavailable:
            return
        if not js_supported(case):
            return
        # history: a third of the compared cases are preceded, in the same node process, by a deliberately failing query on the same tables
        # (the result of a query must not depend on what ran - and failed - before it)
        h = zlib.crc32(repr(case.get('q')).encode('utf-8', 'surrogatepass'))
        if h % 3 == 0:
            self.pending.append(({'noise': JS_NOISE_QUERIES[(h // 3) % len(JS_NOISE_QUERIES)], 'A': case['A'], 'B': case['B'], 'a_names': case['a_names'], 'b_names': case['b_names']}, None, False))
        self.pending.append((case, ref, check_header))
        if len(self.pending) >= 400:
            self.flush()

    def flush(self):
        if not self.pending or self.unavailable:
            self.pending = []
            return
        if self.node is None:
            from ..js import bridge
            self.node = bridge.Node.start()
            if self.node is None:
                self.unavailable = True
                self.res.notes.append('js_leg: unavailable (no node)')
                self.pending = []
                return
        reqs = [js_request(c) if 'noise' not in c else {'query': c['noise'], 'input': [list(r) for r in c['A']], 'join': None if c['B'] is None else [list(r) for r in c['B']], 'input_cols': c['a_names'], 'join_cols': c['b_names']}
                for c, _r, _h in self.pending]
        outs = self.node.call({'op': 'query_batch', 'cases': reqs})['results']
        for (case, ref, check_header), o in zip(self.pending, outs):
            if 'noise' in case:
                self.res.count('js_history_noise_queries')
                self.res.count('js_history_noise_queries_failing' if o['error'] else 'js_history_noise_queries_succeeding')
                continue
            self.res.evaluations += 1
            self.res.count('js_cases')
            if self.compare_results:
                compare(self.res, self.prop_tag, 'js', case, js_got(o), ref, check_header, self.classify)
            if self.check_sources:
                if not o['input_unchanged'] or not o['join_unchanged'] or not o['identity_ok']:
                    self.res.violation('js:sources-modified:' + feature_sig(case['q']), '[js] input/join arrays changed by the query %s (A=%r B=%r)' % (case['query_text_js'], case['A'], case['B']), dict(case, engine='js'))
                elif o['aliased_rows'] or not o['scribble_safe']:
                    self.res.violation('js:output-aliases-input:' + feature_sig(case['q']), '[js] output rows alias input rows for %s (A=%r)' % (case['query_text_js'], case['A']), dict(case, engine='js'))
        self.pending = []
        noise = self.node.take_noise()
        if noise:
            self.res.violation('js:node-async-noise', 'unhandled rejection / uncaught exception / warning in node: %r' % (noise[:3],), {'noise': noise[:3]})

    def close(self):
        self.flush()
        if self.node is not None:
            self.node.close()
            self.node = None


def js_supported(case):
    """Cases inside the language-neutral fragment, on data where the two host languages mean the same."""
    q = case['q']
    if not neutral_query(q) or case.get('py_only'):
        return False
    # a.name must not be a JS reserved word etc. - the generator only produces attr_safe names
    return True


def replay_case(ns, res, case, prop_tag, check_header=True, classify=None, ref_kw=None):
    ref = refsem.run(case['q'], case['A'], case['B'], case['a_names'], case['b_names'], **(ref_kw or {}))
    if case.get('engine') == 'js':
        leg = JsLeg(res, prop_tag, classify)
        leg.add(case, ref, check_header)
        leg.close()
        return
    case.pop('query_text', None) if case.get('rerender') else None
    o = run_case_py(ns, case)
    res.evaluations += 1
    compare(res, prop_tag, 'py', case, obs_to_got(o), ref, check_header, classify)
    check_py_monitors(res, case, o)


def check_py_monitors(res, case, o, expect_b_read=True):
    """Monitors that hold for every query: sources untouched, fresh output rows, writer protocol, join table read once before the first output."""
    sig = feature_sig(case['q'])
    if case.get('_query_table_differs'):
        res.violation('py:query-table-differs-from-query:' + sig, '[py] %s: %s (A=%r B=%r)' % (case['query_text'], case.pop('_query_table_differs'), case['A'], case['B']), dict(case, engine='py'))
    if o.sources_changed:
        res.violation('py:sources-modified:' + sig, '[py] %s changed by %s (A=%r B=%r)' % (o.sources_changed, case['query_text'], case['A'], case['B']), dict(case, engine='py'))
    if o.aliased or o.scribble_changed:
        res.violation('py:output-aliases-input:' + sig, '[py] output rows %r are input rows (or share storage: %r) for %s' % (o.aliased, o.scribble_changed, case['query_text']), dict(case, engine='py'))
    if o.protocol_violations:
        res.violation('py:writer-protocol:' + sig, '[py] writer protocol: %r for %s' % (o.protocol_violations, case['query_text']), dict(case, engine='py'))
    if o.error is None and o.finishes != 1:
        res.violation('py:finish-count:' + sig, '[py] finish called %d times on success for %s' % (o.finishes, case['query_text']), dict(case, engine='py'))
    if case['q'].get('join') and case['B'] is not None and o.error is None:
        if o.b_iterators != 1 or o.b_reads != len(case['B']) + 1 or not o.b_read_before_first_output:
            res.violation('py:join-table-read-pattern:' + sig, '[py] join table: %d iterators, %d reads for %d records, read before first output: %s (%s)' % (
                o.b_iterators, o.b_reads, len(case['B']), o.b_read_before_first_output, case['query_text']), dict(case, engine='py'))
