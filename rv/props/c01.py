"""C01 - SELECT/WHERE yields exactly the projected matching records, in input order.

Oracle: rv.model.refsem on the structured query.  Monitors: probe writer (emitted records), alias map (fresh lists), source
snapshots, join-table read pattern.  JS leg on the language-neutral cases.
"""
import random

from .. import env
from ..gen import queries as gq
from ..model import refsem
from . import common

PROPERTY = 'C01'
LEVEL = 'exploration'
CASES = {'quick': 25600, 'thorough': 409600}
NSHARDS = {'quick': 16, 'thorough': 32}

FEATURE_BITS = ['where', 'join', 'unnest', 'star', 'except', 'top', 'header', 'nostar']


def gen_case(rng, i):
    feats = set()
    # systematic sweep over clause combinations (covering all 2^6 combinations of the first six bits), the rest random
    for b, name in enumerate(FEATURE_BITS[:6]):
        if (i >> b) & 1:
            feats.add(name)
    if 'top' in feats and rng.random() < 0.6:
        feats.discard('top')
    if 'except' in feats and ('join' in feats or rng.random() < 0.5):
        feats.discard('except')
    T = common.make_tables(rng, join='join' in feats, header_p=0.5)
    g = gq.G(rng, T['A'], T['a_names'], T['B'], T['b_names'])
    q = g.gen_select(feats)
    return common.case_json(q, T)


def classify(mech, case, got, ref):
    return common.classify_known_js(mech, case, got, ref) if case.get('engine') == 'js' else None


def plan(tier, seed):
    k = NSHARDS[tier]
    return [{'k': k, 'i': i, 'n': CASES[tier] // k} for i in range(k)]


def run_shard(spec, res):
    ns = env.import_rbql()
    rng = random.Random(spec['seed'] * 1000003 + spec['i'])
    js = common.JsLeg(res, PROPERTY, classify)
    try:
        for n in range(spec['n']):
            case = gen_case(rng, n + spec['i'] * spec['n'])
            ref = refsem.run(case['q'], case['A'], case['B'], case['a_names'], case['b_names'])
            o = common.run_case_py(ns, case)
            res.evaluations += 1
            res.count('py_cases')
            common.compare(res, PROPERTY, 'py', case, common.obs_to_got(o), ref, True, classify)
            common.check_py_monitors(res, case, o)
            res.count('emitted_records_observed', len(o.rows))
            res.count('fresh_list_checks', len(o.rows))
            if ref.rows or ref.error is not None:
                res.nontrivial(case['query_text'], repr(case['A']), repr(case['B']))
            res.count('shape:' + common.feature_sig(case['q']))
            if ref.error is not None:
                res.count('predicted_errors')
            if n % 1499 == 0:
                res.sample({'query': case['query_text'], 'A': case['A'], 'B': case['B'], 'a_names': case['a_names'], 'reference_rows': common.show_ref_rows(ref)[:5], 'reference_error': ref.error and ref.error.cls})
            js.add(case, ref)
    finally:
        js.close()


def summarize(tier, seed, m):
    shapes = sorted(k[6:] for k in m['counters'] if k.startswith('shape:'))
    return {
        'rule': 'structured SELECT queries (1-4 items over fields in 5 spellings, typed expressions, literals, *, a.*, b.*, * EXCEPT, UNNEST; WHERE; INNER/LEFT JOIN with 1-3 key pairs incl. NR/bNR; TOP) generated with a systematic sweep over the 64 clause combinations plus seeded random choices, on random tables of str/None cells (ragged, empty, up to 40 rows, 12 columns), with and without header; each executed through rbql.query with probe iterator/writer/registry and compared (rows exactly and in order, header, error class + record number) with the reference interpreter; the language-neutral ones also on the JS engine. distinct_nontrivial = distinct (query text, tables) with a non-empty reference result or a predicted error.',
        'required': ['py_cases', 'emitted_records_observed', 'js_cases'],
        'extra': {'shapes_seen': shapes},
        'assumptions': ['rv/model/refsem.py is the relational semantics of the statement', 'expressions are drawn from the typed vocabulary of rv/model/qast.py'],
    }


def replay(case, res):
    ns = env.import_rbql()
    common.replay_case(ns, res, case, PROPERTY, True, classify)
