"""C01 - SELECT/WHERE yields exactly the projected matching records, in input order.

Oracle: rv.model.refsem on the structured query.  Monitors: probe writer (emitted records), alias map (fresh lists), source
snapshots, join-table read pattern.  JS leg on the language-neutral cases.
"""
import random

from .. import env, util
from ..gen import queries as gq
from ..model import refsem
from . import common

PROPERTY = 'C01'
LEVEL = 'exploration'
CASES = {'quick': 25600, 'thorough': 409600}
NSHARDS = {'quick': 16, 'thorough': 32}

FEATURE_BITS = ['where', 'join', 'unnest', 'star', 'except', 'top', 'header', 'nostar']


def gen_case(rng, i):
    feats = set()
    # systematic sweep over clause combinations (covering all 2^6 combinations of the first six bits), the rest random
    for b, name in enumerate(FEATURE_BITS[:6]):
        if (i >> b) & 1:
            feats.add(name)
    if 'top' in feats and rng.random() < 0.6:
        feats.discard('top')
    if 'except' in feats and ('join' in feats or rng.random() < 0.5):
        feats.discard('except')
    T = common.make_tables(rng, join='join' in feats, header_p=0.5)
    g = gq.G(rng, T['A'], T['a_names'], T['B'], T['b_names'])
    q = g.gen_select(feats)
    if rng.random() < 0.04:
        q['with'] = rng.choice(['header', 'noheader', 'headers', 'noheaders'])      # list tables take their names from the caller: a no-op here
    return common.case_json(q, T)


def classify(mech, case, got, ref):
    return common.classify_known_js(mech, case, got, ref) if case.get('engine') == 'js' else None


def plan(tier, seed):
    k = NSHARDS[tier]
    return [{'k': k, 'i': i, 'n': CASES[tier] // k} for i in range(k)] + [{'kind': 'typed', 'i': i, 'n': 150 if tier == 'quick' else 1500} for i in range(2 if tier == 'quick' else 8)] + [{'kind': 'js-templates', 'n': 200 if tier == 'quick' else 2000}, {'kind': 'py-fstrings', 'n': 300 if tier == 'quick' else 3000}]


def run_shard(spec, res):
    ns = env.import_rbql()
    if spec.get('kind') == 'typed':
        return leg_typed(ns, res, spec)
    if spec.get('kind') == 'py-fstrings':
        return leg_py_fstrings(ns, res, spec)
    if spec.get('kind') == 'js-templates':
        return leg_js_templates(res, spec)
    rng = random.Random(spec['seed'] * 1000003 + spec['i'])
    js = common.JsLeg(res, PROPERTY, classify)
    try:
        for n in range(spec['n']):
            case = gen_case(rng, n + spec['i'] * spec['n'])
            ref = refsem.run(case['q'], case['A'], case['B'], case['a_names'], case['b_names'])
            o = common.run_case_py(ns, case)
            res.evaluations += 1
            res.count('py_cases')
            common.compare(res, PROPERTY, 'py', case, common.obs_to_got(o), ref, True, classify)
            common.check_py_monitors(res, case, o)
            res.count('emitted_records_observed', len(o.rows))
            res.count('fresh_list_checks', len(o.rows))
            if ref.rows or ref.error is not None:
                res.nontrivial(case['query_text'], repr(case['A']), repr(case['B']))
            res.count('shape:' + common.feature_sig(case['q']))
            if ref.error is not None:
                res.count('predicted_errors')
            if n % 1499 == 0:
                res.sample({'query': case['query_text'], 'A': case['A'], 'B': case['B'], 'a_names': case['a_names'], 'reference_rows': common.show_ref_rows(ref)[:5], 'reference_error': ref.error and ref.error.cls})
            js.add(case, ref)
    finally:
        js.close()


# ---------------------------------------------------------------------------------------------------------------
# typed front-ends: "aN is r's N-th field" when the records come from a dataframe or a sqlite table - the field is the cell, with the cell's own type

def typed_value(rng, kind, i):
    if kind == 'int':
        return rng.choice([0, 1, 2, 7, -3, 10 ** 6, 2 ** 53 + 1, 2 ** 62 + i])
    if kind == 'float':
        return rng.choice([0.5, 1.0, -2.25, 1e300, 3.0, 0.1 + i, 0.0, float('inf')])
    if kind == 'float-nan':
        return rng.choice([0.5, 0.0, float('nan'), float('nan'), -1.5])
    if kind == 'str':
        return rng.choice(['a', 'b', '', 'x y', '10', '1.0', 'None', 'nan'])
    if kind == 'bool':
        return rng.choice([True, False])
    if kind == 'bytes':
        return rng.choice([b'', b'\x00\xff', b'ab'])
    return None


def show(v):
    return '%s:%r' % (type(v).__name__, v)


def leg_typed(ns, res, spec):
    import sqlite3
    import pandas as pd
    rng = random.Random(spec['seed'] * 15485863 + spec['i'])

    class Sink(ns.engine.RBQLOutputWriter):
        def __init__(self):
            self.rows = []

        def write(self, fields):
            self.rows.append(list(fields))
            return True

    names_pool = ['id', 'qty', 'price', 'name', 'flag', 'v', 'w', 'k2']
    for n in range(spec['n']):
        front = ['pandas', 'sqlite'][n % 2]
        w = rng.randrange(1, 5)
        names = rng.sample(names_pool, w)
        kinds = [rng.choice(['int', 'float', 'str', 'int', 'float', 'bool', 'float-nan'] if front == 'pandas' else ['int', 'float', 'str', 'bytes', 'mixed', 'int']) for _ in range(w)]
        if n % 7 == 0:
            kinds = [rng.choice(['int', 'float']) for _ in range(w)]      # an all-numeric table
        nrows = rng.randrange(1, 6)
        cols = []
        for j, k in enumerate(kinds):
            if k == 'mixed':
                cols.append([typed_value(rng, rng.choice(['int', 'float', 'str', 'none', 'bytes']), i) for i in range(nrows)])
            else:
                cols.append([typed_value(rng, k, i) for i in range(nrows)])
        rows = [[cols[j][i] for j in range(w)] for i in range(nrows)]
        if front == 'pandas':
            df = pd.DataFrame({names[j]: pd.Series(cols[j], dtype={'int': 'int64', 'float': 'float64', 'float-nan': 'float64', 'bool': 'bool', 'str': 'object'}[kinds[j]]) for j in range(w)})
            if n % 5 == 3:
                df.index = pd.Index([100 + i for i in range(nrows)], name='rowkey')      # an index that carries a name: still not a field
            elif n % 5 == 1:
                df.index = pd.MultiIndex.from_tuples([(i // 2, 'k%d' % i) for i in range(nrows)], names=['k1', 'k2'])
            make_iter = lambda: ns.pandas.DataframeIterator(df, normalize_column_names=True)
            conn = None
        else:
            conn = sqlite3.connect(':memory:')
            conn.execute('CREATE TABLE t (%s)' % ', '.join('"%s" %s' % (x, {'int': 'INTEGER', 'float': 'REAL', 'str': 'TEXT', 'bytes': 'BLOB', 'mixed': ''}[k]) for x, k in zip(names, kinds)))
            big = [r for r in rows if any(isinstance(v, int) and not isinstance(v, bool) and abs(v) >= 2 ** 63 for v in r)]
            if big:
                continue
            conn.executemany('INSERT INTO t VALUES (%s)' % ','.join('?' * w), rows)
            conn.commit()
            make_iter = lambda: ns.sqlite.SqliteRecordIterator(conn, 't')
        j = rng.randrange(w)
        k = rng.randrange(w)
        queries = [
            ('select *', lambda r, nr: list(r), None),
            ('select a%d' % (j + 1), lambda r, nr: [r[j]], None),
            ('select a.%s, a["%s"], NR' % (names[j], names[k]), lambda r, nr: [r[j], r[k], nr], None),
            ('select NF, a%d, a[%d]' % (k + 1, j + 1), lambda r, nr: [len(r), r[k], r[j]], None),
            ('select type(a%d).__name__, a%d' % (j + 1, j + 1), lambda r, nr: [type(r[j]).__name__, r[j]], None),
            ('select a%d, a%d where a%d is not None' % (j + 1, k + 1, j + 1), lambda r, nr: [r[j], r[k]], lambda r, nr: r[j] is not None),
            ('select * where isinstance(a%d, int)' % (j + 1), lambda r, nr: list(r), lambda r, nr: isinstance(r[j], int)),
            # the predicate is the cell itself: truthiness as the host language defines it (0, 0.0, '', None, b'' are false; NaN and inf are true)
            ('select NR, a%d where a%d' % (j + 1, j + 1), lambda r, nr: [nr, r[j]], lambda r, nr: bool(r[j])),
            ('select NR where a%d or a%d' % (j + 1, k + 1), lambda r, nr: [nr], lambda r, nr: bool(r[j] or r[k])),
            ('select a%d, * where NR %% 2 == 1' % (w + 2), lambda r, nr: [None] + list(r), lambda r, nr: nr % 2 == 1),
        ]
        for qtext, proj, pred in queries:
            sink = Sink()
            err = None
            try:
                ns.rbql.query(qtext, make_iter(), sink, [])
            except Exception as e:
                err = '%s: %s' % (type(e).__name__, str(e)[:150])
            exp = [proj(r, i + 1) for i, r in enumerate(rows) if pred is None or pred(r, i + 1)]
            res.evaluations += 1
            res.count('typed_front_end_runs:' + front)
            res.nontrivial('typed', front, qtext, repr(rows))
            got_s = None if err else [[show(v) for v in r] for r in sink.rows]
            exp_s = [[show(v) for v in r] for r in exp]
            if got_s != exp_s:
                res.violation('py:typed-front-end-field-is-not-the-cell:' + front, '[py/%s] %s over columns %r (kinds %r) rows %r -> %s ; expected %r' % (front, qtext, names, kinds, [[show(v) for v in r] for r in rows], err or got_s, exp_s),
                              {'leg': 'typed', 'front_end': front, 'query_text': qtext, 'names': names, 'kinds': kinds, 'rows': [[show(v) for v in r] for r in rows]})
                break
        if conn is not None:
            conn.close()
        if n % 97 == 0:
            res.sample({'leg': 'typed', 'front_end': front, 'columns': names, 'kinds': kinds, 'rows': [[show(v) for v in r] for r in rows][:3]})


# ---------------------------------------------------------------------------------------------------------------
# JS only: template literals (the port's counterpart of f-strings) - column references inside ${...} are code, quote characters around them are text

def leg_js_templates(res, spec):
    import json
    from ..js import bridge
    node = bridge.Node.start()
    if node is None:
        res.notes.append('js templates leg: unavailable (no node)')
        return
    rng = random.Random(spec['seed'] * 7919 + 13)
    T = [
        ("select `'${a[2]}'`, a1", lambda r, nr: ["'%s'" % r[1], r[0]], None),
        ("select a1, `it's ${a[2]}` + 'x'", lambda r, nr: [r[0], "it's %sx" % r[1]], None),
        ('select `"${a[1]}" and \'${a[3]}\'`', lambda r, nr: ['"%s" and \'%s\'' % (r[0], r[2])], None),
        ("select a1 where `'${a[2]}'` == \"'b'\"", lambda r, nr: [r[0]], lambda r, nr: r[1] == 'b'),
        ("select `${a1}-${a[2]}`, 'lit'", lambda r, nr: ['%s-%s' % (r[0], r[1]), 'lit'], None),
        ("select `'${a2}'`, `\"${a3}\"`", lambda r, nr: ["'%s'" % r[1], '"%s"' % r[2]], None),
        ("select `don't`, a[3], 'x'", lambda r, nr: ["don't", r[2], 'x'], None),
        ("select `${NR}: \"${a[2]}\"`, \"it's\", a[1]", lambda r, nr: ['%d: "%s"' % (nr, r[1]), "it's", r[0]], None),
        ("select a[3] where `${a[1]}'` != `b'`", lambda r, nr: [r[2]], lambda r, nr: r[0] != 'b'),
        ("select `a[2] is '${a[2]}', a1 is \"${a1}\"`", lambda r, nr: ['a[2] is \'%s\', a1 is "%s"' % (r[1], r[0])], None),
    ]
    try:
        reqs, meta = [], []
        for n in range(spec['n']):
            A = [[rng.choice(['a', 'b', 'x y', '', 'q"t', "it's", '10']) for _ in range(3)] for _ in range(rng.randrange(1, 5))]
            q, proj, pred = T[n % len(T)]
            reqs.append({'query': q, 'input': A, 'join': None, 'input_cols': None, 'join_cols': None})
            meta.append((q, A, [proj(r, i + 1) for i, r in enumerate(A) if pred is None or pred(r, i + 1)]))
        # variables that occur ONLY inside a template literal of one clause (plain aN / bN / column-name variables, the clause being WHERE, ORDER BY,
        # the select list, an UPDATE assignment): each of them is still a reference to the current record
        B = [['a', 'J'], ['b', 'K'], ['a', 'L']]
        T2 = [
            ("select a3 where `${a1}-${a2}` == 'a-b'", None, None, lambda A: [[r[2]] for r in A if (r[0], r[1]) == ('a', 'b')]),
            ("select a[3], NR where a1 != 'b' && `<${a2}>` != '<b>'", None, None, lambda A: [[r[2], i + 1] for i, r in enumerate(A) if r[0] != 'b' and r[1] != 'b']),
            ("select a2 where `${a3}`.length == 1", None, None, lambda A: [[r[1]] for r in A if len(r[2]) == 1]),
            ("select NR where `${a.v}` == 'a' || `${a.w}${a.k}` == 'ab'", ['k', 'v', 'w'], None, lambda A: [[i + 1] for i, r in enumerate(A) if r[1] == 'a' or r[2] + r[0] == 'ab']),
            ("select a.k where `${a.v}|${a['w']}` != 'a|a'", ['k', 'v', 'w'], None, lambda A: [[r[0]] for r in A if (r[1], r[2]) != ('a', 'a')]),
            ("select a1, b2 join b on a1 == b1 where `${b2}` != 'J'", None, B, lambda A: [[r[0], b[1]] for r in A for b in B if b[0] == r[0] and b[1] != 'J']),
            ("select a2, b1 join b on a1 == b1 where `${a3}${b1}` != 'aa'", None, B, lambda A: [[r[1], b[0]] for r in A for b in B if b[0] == r[0] and r[2] + b[0] != 'aa']),
            ("select a1, a2 order by `${a2}`", None, None, lambda A: [[r[0], r[1]] for r in sorted(A, key=lambda r: r[1])]),
            ("update a2 = `${a1}!` where `${a3}` == 'a'", None, None, lambda A: [[r[0], (r[0] + '!') if r[2] == 'a' else r[1], r[2]] for r in A]),
            ("select `${a1}` where `${a2}` != `${a3}`", None, None, lambda A: [[r[0]] for r in A if r[1] != r[2]]),
            ("select distinct `${a1}` where a2 != `${a1}`", None, None, lambda A: [[v] for v in dict.fromkeys(r[0] for r in A if r[1] != r[0])]),
        ]
        for n in range(spec['n']):
            A = [[rng.choice(['a', 'b', 'ab', '', '10']) for _ in range(3)] for _ in range(rng.randrange(1, 7))]
            q, cols, Bt, expf = T2[n % len(T2)]
            reqs.append({'query': q, 'input': A, 'join': Bt, 'input_cols': cols, 'join_cols': None})
            meta.append((q, A, expf(A)))
        outs = node.call({'op': 'query_batch', 'cases': reqs})['results']
        for (q, A, exp), o in zip(meta, outs):
            res.evaluations += 1
            res.count('js_template_literal_runs')
            res.nontrivial('js-template', q, json.dumps(A))
            if o['error'] is not None or o['out'] != exp:
                res.violation('js:template-literal-projection-differs', '[js] %s over %r -> %r (error %r) ; expected %r' % (q, A, o['out'], o['error'] and o['error']['msg'][:100], exp), {'leg': 'js-templates', 'query_text': q, 'A': A, 'engine': 'js'})
        res.sample({'leg': 'js-templates', 'queries': [t[0] for t in T[:4]]})
    finally:
        node.close()


def leg_py_fstrings(ns, res, spec):
    """Python f-strings in the query: a variable that occurs ONLY inside the f-strings of one clause (aN, a[N], a.name, a["name"], NR, NF, bN of a join) is still
    a reference to the current record."""
    rng = random.Random(spec['seed'] * 7919 + 29)
    B = [['a', 'J'], ['b', 'K'], ['a', 'L']]
    T = [
        ("select f'{NR}/{NF}'", None, None, lambda A: [['%d/%d' % (i + 1, len(r))] for i, r in enumerate(A)]),
        ("select a1 where f'{NF}' == '3'", None, None, lambda A: [[r[0]] for r in A if len(r) == 3]),
        ("select *, f'<{NF:02d}>'", None, None, lambda A: [list(r) + ['<%02d>' % len(r)] for r in A]),
        ("select f'{NF}' order by f'{NR:03d}' desc", None, None, lambda A: [[str(len(r))] for r in reversed(A)]),
        ("select a3 where f'{a1}-{a2}' == 'a-b'", None, None, lambda A: [[r[2]] for r in A if (r[0], r[1]) == ('a', 'b')]),
        ("select f\"{a[1]}|{a[3]}\", NR", None, None, lambda A: [['%s|%s' % (r[0], r[2]), i + 1] for i, r in enumerate(A)]),
        ("select NR where f'{a.v}' == 'a' or f'{a.w}{a.k}' == 'ab'", ['k', 'v', 'w'], None, lambda A: [[i + 1] for i, r in enumerate(A) if r[1] == 'a' or r[2] + r[0] == 'ab']),
        ("select a.k where f\"{a['v']}|{a['w']}\" != 'a|a'", ['k', 'v', 'w'], None, lambda A: [[r[0]] for r in A if (r[1], r[2]) != ('a', 'a')]),
        ("select a1, b2 join b on a1 == b1 where f'{b2}' != 'J'", None, B, lambda A: [[r[0], b[1]] for r in A for b in B if b[0] == r[0] and b[1] != 'J']),
        ("select f'{bNR}:{NR}', a2 join b on a1 == b1", None, B, lambda A: [['%d:%d' % (j + 1, i + 1), r[1]] for i, r in enumerate(A) for j, b in enumerate(B) if b[0] == r[0]]),
        ("select a1, a2 order by f'{a2}'", None, None, lambda A: [[r[0], r[1]] for r in sorted(A, key=lambda r: r[1])]),
        ("update a2 = f'{a1}!' where f'{a3}' == 'a'", None, None, lambda A: [[r[0], (r[0] + '!') if r[2] == 'a' else r[1], r[2]] for r in A]),
        ("update a1 = f'{NU}/{NF}' where a2 != 'b'", None, None, None),
        ("select distinct f'{a1}' where a2 != f'{a1}'", None, None, lambda A: [[v] for v in dict.fromkeys(r[0] for r in A if r[1] != r[0])]),
        ("select top 2 f'{NF}{NR}'", None, None, lambda A: [['%d%d' % (len(r), i + 1)] for i, r in enumerate(A)][:2]),
        # multi-line queries whose continuation lines start with an operator of the host language (// is floor division here, not a comment; % a remainder)
        ("select a1, NR,\n    len(a2) + 7\n    // 2", None, None, lambda A: [[r[0], i + 1, len(r[1]) + 7 // 2] for i, r in enumerate(A)]),
        ("select NR, a1\nwhere len(a2) + 2\n  // 2 == 1", None, None, lambda A: [[i + 1, r[0]] for i, r in enumerate(A) if len(r[1]) + 2 // 2 == 1]),
        ("select a1,\n  NR + 5\n  % 3\n  , a2", None, None, lambda A: [[r[0], i + 1 + 5 % 3, r[1]] for i, r in enumerate(A)]),
        ("select a2 order by\n len(a1)\n // 2,\n a2", None, None, lambda A: [[r[1]] for r in sorted(A, key=lambda r: (len(r[0]) // 2, r[1]))]),
        ("select a1 # the key\n# a whole comment line\n  , a3", None, None, None),
    ]
    for n in range(spec['n']):
        A = [[rng.choice(['a', 'b', 'ab', '', '10']) for _ in range(3)] for _ in range(rng.randrange(1, 7))]
        q, cols, Bt, expf = T[n % len(T)]
        if expf is None and q.startswith('select a1 #'):
            exp = None      # a trailing comment is not supported syntax in every version: only "fails or projects a1, a3" is demanded
        elif expf is None:
            nu = 0
            exp = []
            for r in A:
                if r[1] != 'b':
                    nu += 1
                    exp.append(['%d/%d' % (nu, len(r))] + r[1:])
                else:
                    exp.append(list(r))
        else:
            exp = expf(A)
        out, err = [], None
        try:
            ns.rbql.query_table(q, [list(r) for r in A], out, [], None if Bt is None else [list(r) for r in Bt], cols, None)
        except Exception as e:
            err = '%s: %s' % (util.error_class(e), str(e)[:120])
        res.evaluations += 1
        res.count('py_fstring_runs')
        res.nontrivial('py-fstring', q, repr(A))
        if exp is None:
            if err is None and out != [[r[0], r[2]] for r in A]:
                res.violation('py:comment-line-handling', '[py] %r over %r -> %r' % (q, A, out), {'leg': 'py-fstrings', 'query_text': q, 'A': A, 'engine': 'py'})
            continue
        if err is not None or out != exp:
            res.violation('py:fstring-variable-not-bound', '[py] %s over %r -> %r (error %r) ; expected %r' % (q, A, out, err, exp), {'leg': 'py-fstrings', 'query_text': q, 'A': A, 'engine': 'py'})
    res.sample({'leg': 'py-fstrings', 'queries': [t[0] for t in T[:4]]})
    # user helpers whose NAMES are RBQL keywords (numpy's where(), a limit() / join() / select() of one's own), called inside the expressions: a keyword
    # is a word followed by white space - `where(` is a call.  Python through user_init_code, JS through its init code.
    from ..js import bridge
    init_py = 'def where(c, x, y):\n    return x if c else y\ndef limit(v, n):\n    return v[:n]\ndef join(x, y):\n    return x + "+" + y\ndef select(x):\n    return "<" + x + ">"\ndef update(x):\n    return x.upper()\ndef top(x):\n    return x[:1]\ndef distinct(x):\n    return x\ndef order(x):\n    return len(x)\n'
    init_js = 'function where(c, x, y) { return c ? x : y; }\nfunction limit(v, n) { return v.slice(0, n); }\nfunction join(x, y) { return x + "+" + y; }\nfunction select(x) { return "<" + x + ">"; }\nfunction update(x) { return x.toUpperCase(); }\nfunction top(x) { return x.slice(0, 1); }\nfunction distinct(x) { return x; }\nfunction order(x) { return x.length; }\n'
    K = [
        ('select a1, where(%s > 1, "long", "short")', lambda A: [[r[0], 'long' if len(r[0]) > 1 else 'short'] for r in A]),
        ('select NR, limit(a2, 1), a3', lambda A: [[i + 1, r[1][:1], r[2]] for i, r in enumerate(A)]),
        ('select join(a1, a2) where limit(a1, 1) != "b"', lambda A: [[r[0] + '+' + r[1]] for r in A if r[0][:1] != 'b']),
        ('select a1 where where(a2 == "b", False, True)'.replace('False', '%F').replace('True', '%T'), lambda A: [[r[0]] for r in A if r[1] != 'b']),
        ('select select(a1), update(a2), top(a3), distinct(a1)', lambda A: [['<' + r[0] + '>', r[1].upper(), r[2][:1], r[0]] for r in A]),
        ('select a1, a2 order by order(a1), where(a2 == "", 1, 0)', lambda A: [[r[0], r[1]] for r in sorted(A, key=lambda r: (len(r[0]), 1 if r[1] == '' else 0))]),
        ('select a2 where order(a1) == 1 limit 2', lambda A: [[r[1]] for r in A if len(r[0]) == 1][:2]),
    ]
    node = bridge.Node.start()
    try:
        for n in range(max(28, spec['n'] // 4)):
            A = [[rng.choice(['a', 'b', 'ab', '', '10']) for _ in range(3)] for _ in range(rng.randrange(1, 7))]
            q0, expf = K[n % len(K)]
            exp = expf(A)
            for engine in ('py', 'js'):
                q = q0.replace('%s', 'len(a1)' if engine == 'py' else 'a1.length').replace('%F', 'False' if engine == 'py' else 'false').replace('%T', 'True' if engine == 'py' else 'true')
                out, err = [], None
                if engine == 'py':
                    try:
                        ns.rbql.query_table(q, [list(r) for r in A], out, [], None, None, None, None, True, init_py)
                    except Exception as e:
                        err = '%s: %s' % (util.error_class(e), str(e)[:120])
                elif node is None:
                    continue
                else:
                    o = node.call({'op': 'query_table', 'query': q.replace(' != ', ' != ').replace(' == ', ' == '), 'input': [list(r) for r in A], 'join': None, 'input_cols': None, 'join_cols': None, 'init_code': init_js})
                    out, err = o['out'], o['error'] and '%s: %s' % (o['error']['cls'], o['error']['msg'][:120])
                res.evaluations += 1
                res.count('keyword_named_helper_runs:' + engine)
                res.nontrivial('kw-helpers', engine, q, repr(A))
                if err is not None or out != exp:
                    res.violation('%s:call-of-helper-named-like-a-keyword' % engine, '[%s] %s (helpers where / limit / join / select / update / top / distinct / order defined in the init code) over %r -> %r (error %r) ; expected %r' % (
                        engine, q, A, out, err, exp), {'leg': 'kw-helpers', 'query_text': q, 'A': A, 'engine': engine})
    finally:
        if node is not None:
            node.close()


def summarize(tier, seed, m):
    shapes = sorted(k[6:] for k in m['counters'] if k.startswith('shape:'))
    return {
        'rule': 'structured SELECT queries (1-4 items over fields in 5 spellings, typed expressions, literals, *, a.*, b.*, * EXCEPT, UNNEST; WHERE; INNER/LEFT JOIN with 1-3 key pairs incl. NR/bNR; TOP) generated with a systematic sweep over the 64 clause combinations plus seeded random choices, on random tables of str/None cells (ragged, empty, up to 40 rows, 12 columns), with and without header; each executed through rbql.query with probe iterator/writer/registry and compared (rows exactly and in order, header, error class + record number) with the reference interpreter; the language-neutral ones also on the JS engine; a typed front-ends leg: dataframes (int64 / float64 / bool / object columns, all-numeric frames, integers beyond 2**53, a named index, a two-level named index) through DataframeIterator and sqlite tables (INTEGER / REAL / TEXT / BLOB / untyped columns with NULLs) through SqliteRecordIterator, ten select / where shapes each (two of them with the bare cell as the predicate, over columns holding NaN, inf, 0, 0.0, empty strings and NULLs), every emitted field compared with the cell by value AND type; a JS template-literal leg: ten select / where shapes whose items are template literals with column references inside ${...} and quote characters around them, and eleven shapes (WHERE, ORDER BY, JOIN + WHERE, UPDATE, DISTINCT, named columns) whose variables occur only inside the template literals of one clause; a Python f-string leg: fifteen shapes whose variables (aN, a[N], a.name, a["name"], bN, NR, NF, NU, bNR) occur only inside f-strings (select list, WHERE, ORDER BY, JOIN + WHERE, UPDATE, DISTINCT, TOP). distinct_nontrivial = distinct (query text, tables) with a non-empty reference result or a predicted error.',
        'required': ['py_cases', 'emitted_records_observed', 'js_cases', 'typed_front_end_runs:pandas', 'typed_front_end_runs:sqlite', 'js_template_literal_runs', 'py_fstring_runs', 'keyword_named_helper_runs:py', 'keyword_named_helper_runs:js'],
        'extra': {'shapes_seen': shapes},
        'assumptions': ['rv/model/refsem.py is the relational semantics of the statement', 'expressions are drawn from the typed vocabulary of rv/model/qast.py'],
    }


def replay(case, res):
    ns = env.import_rbql()
    common.replay_case(ns, res, case, PROPERTY, True, classify)
