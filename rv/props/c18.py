"""C18 - Python and JavaScript implementations agree on the CSV dialect and headers.

Differential monitor, no model: the Python side runs in-process, the JS side in the node driver, both on the working tree.
Legs: split (fields + warning flag, both preserve modes), quoting, readers (records / header / warnings / error class; JS bulk
and JS stream), cross round trips (py-write -> js-read, js-write -> py-read, identical bytes), output header of select lists
written in syntax common to both languages.
"""
import io
import itertools
import random
import re

from .. import env, util
from ..gen import enum
from ..model import qast
from . import c10

PROPERTY = 'C18'
LEVEL = 'exploration'

SPLIT_DELIMS = [',', ' ', '\t', '::', ';', ', ', ' | ', '  ']      # the last two: multi-character delimiters that begin / end with the padding character
SPLIT_LEN = {'quick': 7, 'thorough': 8}
FILE_LEN = {'quick': 5, 'thorough': 6}
FILE_ALPHABET = ['a', '"', ',', ' ', '\n', '\r', '#']
POLICIES_ALL = ['quoted', 'quoted_rfc', 'simple', 'whitespace', 'monocolumn']


def js_error_class(err):
    if err is None:
        return None
    n = err.get('cls', '')
    if 'RbqlParsingError' in n:
        return 'parsing'
    if 'RbqlRuntimeError' in n:
        return 'runtime'
    if 'RbqlIOHandlingError' in n:
        return 'io'
    if n == 'SyntaxError':
        return 'syntax'
    return 'other:' + n


def warn_multiset(ws):
    return sorted((util.warning_kind(w), tuple(int(x) for x in re.findall(r'\d+', w))) for w in ws)


def start_node(res):
    from ..js import bridge
    node = bridge.Node.start()
    if node is None:
        res.inconclusive.append('node is not available: C18 cannot be decided')
    return node


# ---------------------------------------------------------------------------------------------------------------
def leg_split(ns, node, res, spec):
    tier = spec['tier']
    dlm = spec['dlm']
    syms = ['a', '"', dlm] + ([' '] if dlm != ' ' else []) + ([dlm[0]] if len(dlm) > 1 else [])
    maxlen = SPLIT_LEN[tier] - (1 if len(syms) > 4 else 0) + (2 if len(syms) == 3 else 0)
    batch = []

    def flush():
        if not batch:
            return
        out = node.call({'op': 'split_batch', 'cases': [{'line': l, 'dlm': dlm, 'policy': p} for l, p in batch]})['results']
        for (line, policy), o in zip(batch, out):
            res.evaluations += 1
            res.count('split_comparisons')
            case = {'leg': 'split', 'line': line, 'dlm': dlm, 'policy': policy}
            try:
                py = ns.utils.smart_split(line, dlm, policy, False)
                pyp = ns.utils.smart_split(line, dlm, policy, True)
                pyv = (list(py[0]), bool(py[1]), list(pyp[0]), bool(pyp[1]))
            except Exception as e:
                pyv = ('error', util.error_class(e))
            jsv = (o['fields'], o['warning'], o['pfields'], o['pwarning']) if 'error' not in o else ('error', js_error_class(o['error']))
            if pyv != jsv:
                res.violation('split-differs', 'smart_split(%r, %r, %r): python %r, js %r' % (line, dlm, policy, pyv, jsv), case)
        del batch[:]

    idx = 0
    for tup in enum.words(syms, maxlen):
        idx += 1
        if idx % spec['k'] != spec['i']:
            continue
        line = ''.join(tup)
        if '"' in line:
            res.distinct_disjoint += 1
        batch.append((line, 'quoted'))
        if idx % 11 == 0:
            batch.append((line, 'quoted_rfc'))
            batch.append((line, 'simple'))
            batch.append((line, 'whitespace'))
            batch.append((line, 'monocolumn'))
        if len(batch) >= 6000:
            flush()
    flush()
    res.sample({'leg': 'split', 'dlm': dlm, 'alphabet': syms, 'max_symbols': maxlen})


def leg_quote(ns, node, res, spec):
    tier = spec['tier']
    cases = []
    for dlm in [',', ' ', '::', '\t']:
        alpha = ['a', '"', ' ', '\n', '\r'] + [c for c in dict.fromkeys(dlm) if c not in ' ']
        for tup in enum.words(alpha, 4 if tier == 'quick' else 5):
            cases.append((''.join(tup), dlm))
    for off in range(0, len(cases), 8000):
        chunk = cases[off:off + 8000]
        out = node.call({'op': 'quote_batch', 'cases': [{'field': f, 'dlm': d} for f, d in chunk]})['results']
        for (f, d), o in zip(chunk, out):
            res.evaluations += 1
            res.count('quote_comparisons')
            if '"' in f or d in f or '\n' in f or '\r' in f:
                res.distinct_disjoint += 1
            pyq, pyr = ns.utils.quote_field(f, d), ns.utils.rfc_quote_field(f, d)
            if 'error' in o or (o['q'], o['rfc']) != (pyq, pyr):
                res.violation('quote-differs', 'quote_field/rfc_quote_field(%r, %r): python %r, js %r' % (f, d, (pyq, pyr), o), {'leg': 'quote', 'field': f, 'dlm': d})
    res.sample({'leg': 'quote', 'field': 'a",\n', 'dlm': ','})


def py_read(ns, data, encoding, dlm, policy, header, comment):
    try:
        it = ns.csv.CSVRecordIterator(io.BytesIO(data), encoding, dlm, policy, header, comment_prefix=comment)
        recs = it.get_all_records()
        return {'records': recs, 'header': it.get_header(), 'warnings': it.get_warnings(), 'error': None}
    except Exception as e:
        return {'records': None, 'header': None, 'warnings': [], 'error': util.error_class(e)}


def compare_read(res, what, case, py, js, mode):
    jerr = js_error_class(js['error'])
    if js.get('stuck'):
        res.violation('js-reader-stuck', '%s: JS %s reader never resolved' % (what, mode), case)
        return
    if py['error'] is not None or jerr is not None:
        if py['error'] != jerr:
            res.violation('reader-error-differs', '%s: python error %r (records %r), js(%s) error %r (records %r)' % (what, py['error'], py['records'], mode, jerr, js['records']), case)
        return
    if py['records'] != js['records'] or py['header'] != js['header']:
        if len(py['records'] or []) > 200:
            k = next((i for i, (a, b) in enumerate(zip(py['records'], js['records'])) if a != b), min(len(py['records']), len(js['records'])))
            res.violation('reader-records-differ', 'a file of %d bytes: python %d records, js(%s) %d records; first difference at record %d: python %r, js %r' % (
                len(bytes.fromhex(case['bytes_hex'])), len(py['records']), mode, len(js['records']), k + 1, py['records'][k:k + 1], js['records'][k:k + 1]), dict(case, bytes_hex=case['bytes_hex'][:200] + '...'))
        else:
            res.violation('reader-records-differ', '%s: python records %r header %r; js(%s) records %r header %r' % (what, py['records'], py['header'], mode, js['records'], js['header']), case)
    elif warn_multiset(py['warnings']) != warn_multiset(js['warnings']):
        res.violation('reader-warnings-differ', '%s: python warnings %r; js(%s) warnings %r' % (what, py['warnings'], mode, js['warnings']), case)


def leg_files(ns, node, res, spec):
    tier = spec['tier']
    batch = []

    def flush():
        if not batch:
            return
        reqs = []
        for data, enc, dlm, policy, header, comment, stream in batch:
            reqs.append({'bytes_hex': data.hex(), 'chunks': ([len(data)] if len(data) else []) if stream else None, 'encoding': 'binary' if enc == 'latin-1' else enc,
                         'delim': dlm, 'policy': policy, 'has_header': header, 'comment_prefix': comment})
        out = node.call({'op': 'read_batch', 'cases': reqs})['results']
        for (data, enc, dlm, policy, header, comment, stream), o in zip(batch, out):
            res.evaluations += 1
            res.count('file_comparisons_stream' if stream else 'file_comparisons_bulk')
            py = py_read(ns, data, enc, dlm, policy, header, comment)
            case = {'leg': 'files', 'bytes_hex': data.hex(), 'encoding': enc, 'dlm': dlm, 'policy': policy, 'header': header, 'comment': comment, 'stream': stream}
            compare_read(res, 'file %r (%s %s dlm %r header %s comment %r)' % (data, policy, enc, dlm, header, comment), case, py, o, 'stream' if stream else 'bulk')
        del batch[:]

    idx = 0
    for tup in enum.words(FILE_ALPHABET, FILE_LEN[tier]):
        idx += 1
        if idx % spec['k'] != spec['i']:
            continue
        text = ''.join(tup)
        data = text.encode()
        nontrivial = any(c in text for c in '"\n\r#')
        for policy in ('simple', 'quoted', 'quoted_rfc'):
            for comment in (None, '#'):
                for header in (False, True):
                    if header and len(tup) > FILE_LEN[tier] - 1:
                        continue
                    if nontrivial:
                        res.distinct_disjoint += 1
                    batch.append((data, 'utf-8', ',', policy, header, comment, False))
                    if idx % 3 == 0:
                        batch.append((data, 'utf-8', ',', policy, header, comment, True))
        if idx % 5 == 0:
            batch.append((data, 'latin-1', ' ', 'whitespace', False, None, False))
            batch.append((data, 'latin-1', ',', 'monocolumn', False, '#', False))
            # the space-delimited dialects with a comment prefix (a line is a comment iff it STARTS with the prefix: an indented '#' is data)
            batch.append((data, 'utf-8', ' ', 'whitespace', False, '#', idx % 2 == 0))
            batch.append((data, 'utf-8', ' ', 'whitespace', True, '#', False))
            batch.append((data, 'utf-8', ' ', 'quoted', False, '#', False))
            batch.append((data, 'utf-8', ' ', 'simple', idx % 2 == 1, '#', False))
        if len(batch) >= 3000:
            flush()
    flush()
    res.sample({'leg': 'files', 'alphabet': FILE_ALPHABET, 'max_len': FILE_LEN[tier]})


def leg_files_special(ns, node, res, spec):
    """BOM under utf-8 and latin-1/binary, multi-byte text, random longer Unicode inputs, invalid UTF-8."""
    rng = random.Random(spec['seed'] * 101 + spec['shard'])
    samples = [('utf-8', '﻿a,é\r\nb,"x\ny"\r\n'), ('latin-1', 'ï»¿a,b\nc'), ('utf-8', '﻿'), ('latin-1', 'ï»¿'),
               ('utf-8', 'é,"€\n😀",z\r\nq'), ('utf-8', 'a,b\n﻿c,d'), ('latin-1', 'a\xff,\xe9\r\n"\xa0",x'),
               # valid boundary code points: the replacement character itself, the ends of every UTF-8 length class, NUL
               ('utf-8', 'a,\ufffd\nb,c\n'), ('utf-8', '\ufffd'), ('utf-8', 'x\uffff,\U0010ffff\r\n"\ufffd""",\x00'), ('utf-8', '\x7f\x80,\u07ff\u0800\n\ud7ff,\ue000')]
    alpha = ['a', 'b', '"', '"', ',', ',', '\n', '\r', '\r\n', '#', ' ', 'é', '€', '😀', '""', 'x y', '﻿', '\ufffd', '\uffff', '\U0010ffff', '\x80', '\u0800', '\x00']
    for _ in range(spec['n']):
        samples.append((rng.choice(['utf-8', 'utf-8', 'latin-1']), ''.join(rng.choice(alpha) for _ in range(rng.randrange(1, 60)))))
    reqs, meta = [], []
    for enc, text in samples:
        data = text.encode('utf-8')   # under latin-1 the same bytes are read as latin-1 text
        for policy in ('simple', 'quoted', 'quoted_rfc'):
            comment = rng.choice([None, '#'])
            header = rng.random() < 0.3
            dlm = rng.choice([',', ',', ';', ' '])
            for stream in (False, True):
                reqs.append({'bytes_hex': data.hex(), 'chunks': [len(data)] if stream else None, 'encoding': 'binary' if enc == 'latin-1' else enc, 'delim': dlm, 'policy': policy, 'has_header': header, 'comment_prefix': comment})
                meta.append((data, enc, dlm, policy, header, comment, stream))
            res.nontrivial('special', text, enc, policy)
    # every multi-byte character cut to every proper prefix, followed by ASCII, a delimiter, a line break, another character or the end of the file
    truncated = []
    for ch in ('é', '€', '😀'):
        enc_ = ch.encode('utf-8')
        for k in range(1, len(enc_)):
            for tail in (b'', b'b', b',x', b'\n', b'\r\nq', '€'.encode('utf-8')):
                truncated.append(b'a,' + enc_[:k] + tail)
                truncated.append(enc_[:k] + tail)
    for bad in [b'a\xffb\n', b'\xc0\x80,x', b'a,\xed\xa0\x80\n', b'ab\x80', b'q\n\xe2\x82'] + truncated:
        for stream in (False, True):
            reqs.append({'bytes_hex': bad.hex(), 'chunks': [len(bad)] if stream else None, 'encoding': 'utf-8', 'delim': ',', 'policy': 'quoted', 'has_header': False, 'comment_prefix': None})
            meta.append((bad, 'utf-8', ',', 'quoted', False, None, stream))
    # two long files of very short records (several 64 KiB chunks of more than 10000 records each) through the JS stream reader (real chunking) and bulk reader
    if spec.get('i', 0) % 2 == 0:
        for nrec, cell in ((40000, lambda i: '%d' % (i % 97)), (30000, lambda i: '%d,x' % i)):
            data = ''.join(cell(i) + '\n' for i in range(nrec)).encode('utf-8')
            n = len(data)
            for stream in (False, True):
                reqs.append({'bytes_hex': data.hex(), 'chunks': ([65536] * (n // 65536) + ([n % 65536] if n % 65536 else [])) if stream else None, 'encoding': 'utf-8', 'delim': ',', 'policy': 'quoted', 'has_header': False, 'comment_prefix': None, 'async_delivery': True})
                meta.append((data, 'utf-8', ',', 'quoted', False, None, stream))
            res.count('long_file_comparisons')
    out = node.call({'op': 'read_batch', 'cases': reqs})['results']
    for (data, enc, dlm, policy, header, comment, stream), o in zip(meta, out):
        res.evaluations += 1
        res.count('special_file_comparisons')
        py = py_read(ns, data, enc, dlm, policy, header, comment)
        case = {'leg': 'files', 'bytes_hex': data.hex(), 'encoding': enc, 'dlm': dlm, 'policy': policy, 'header': header, 'comment': comment, 'stream': stream}
        compare_read(res, 'file %r (%s %s dlm %r header %s comment %r)' % (data[:300], policy, enc, dlm, header, comment), case, py, o, 'stream' if stream else 'bulk')
    res.sample({'leg': 'files-special', 'sample': samples[0]})


def leg_cross(ns, node, res, spec):
    """py-write -> js-read, js-write -> py-read, identical bytes, on the C10 tables."""
    rng = random.Random(spec['seed'] * 17 + spec['shard'])
    cases = []
    for policy, dlm in c10.dialects():
        tabs = []
        for k, t in enumerate(c10.small_tables(dlm, 'quick')):
            if k % 61 == spec['i'] % 61:
                tabs.append(t)
        for _ in range(spec['n']):
            tabs.append(c10.random_table(rng, dlm, False))
        for t in tabs:
            if policy == 'monocolumn' and any(len(r) != 1 for r in t):
                continue
            enc = rng.choice(['utf-8', 'latin-1'])
            if enc == 'latin-1' and not c10.encodable(t, dlm, 'latin-1'):
                enc = 'utf-8'
            cases.append((t, policy, dlm, enc, rng.choice(c10.LINE_SEPS)))
    # list-valued cells (what UNNEST-less list expressions and ARRAY_AGG hand to the writer): both writers join them with the same inner separator, whatever
    # the delimiter is - a single bar, a delimiter that only contains a bar, blanks around one
    for dlm in ('|', '||', '|~|', ' | ', ';', ',', '\t'):
        for policy in ('quoted', 'simple', 'quoted_rfc'):
            for _ in range(3):
                t = [[rng.choice(['a', 'k 1', 'x']), [rng.choice(['red', 'b c', '1', '']) for _j in range(rng.randrange(0, 4))], rng.choice(['z', '4'])] for _i in range(rng.randrange(1, 4))]
                cases.append((t, policy, dlm, 'utf-8', '\n'))
    for off in range(0, len(cases), 500):
        chunk = cases[off:off + 500]
        wouts = node.call({'op': 'write_batch', 'cases': [{'table': t, 'delim': d, 'policy': p, 'line_separator': ls, 'encoding': 'binary' if e == 'latin-1' else e} for t, p, d, e, ls in chunk]})['results']
        reads = []
        pyw = []
        for (t, p, d, e, ls), w in zip(chunk, wouts):
            payload, pwarn, perr = c10.write_real(ns, t, d, p, e, ls)
            pyw.append((payload, pwarn, perr))
            reads.append({'bytes_hex': (payload or b'').hex(), 'chunks': None, 'encoding': 'binary' if e == 'latin-1' else e, 'delim': d, 'policy': p, 'has_header': False, 'comment_prefix': None})
        routs = node.call({'op': 'read_batch', 'cases': reads})['results']
        for (t, p, d, e, ls), w, (payload, pwarn, perr), r in zip(chunk, wouts, pyw, routs):
            res.evaluations += 1
            res.count('cross_roundtrips')
            case = {'leg': 'cross', 'table': t, 'policy': p, 'dlm': d, 'encoding': e, 'line_sep': ls}
            has_none = any(f is None for rec in t for f in rec)
            jerr = js_error_class(w['error'])
            if (perr is None) != (jerr is None):
                res.violation('writer-error-differs', 'writing %r (%s %r %s): python error %r, js error %r' % (t, p, d, e, perr, jerr), case)
                continue
            if perr is not None:
                continue
            jbytes = bytes.fromhex(w['bytes_hex'])
            res.nontrivial('cross', repr(t), p, d, e, ls)
            if jbytes != payload:
                res.violation('written-bytes-differ', 'table %r (%s %r %s sep %r): python wrote %r, js wrote %r' % (t, p, d, e, ls, payload, jbytes), case)
                continue
            wk_py, wk_js = util.warning_kinds(pwarn), util.warning_kinds(w['warnings'])
            if wk_py != wk_js:
                res.violation('writer-warnings-differ', 'writing %r (%s %r %s): python warnings %r, js warnings %r' % (t, p, d, e, pwarn, w['warnings']), case)
            # same bytes: js-read(py-write) vs py-read(js-write)
            py = py_read(ns, jbytes, e, d, p, False, None)
            compare_read(res, 'bytes %r written from %r (%s %s dlm %r)' % (payload, t, p, e, d), case, py, r, 'bulk')
    res.sample({'leg': 'cross', 'table': cases[0][0] if cases else None, 'dialect': cases[0][1:] if cases else None})


# ---------------------------------------------------------------------------------------------------------------
# header leg: select lists in syntax common to Python and JavaScript, evaluated on empty tables (no record is ever evaluated,
# so only the header derivation is exercised)

A_NAMES = ['name', 'age', 'home_town', 'x y', 'Dist (km)', 'q"uote', "it's", 'a1']
B_NAMES = ['id', 'name', 'b col', 'B3']


ODD_NAMES = ['', '', '0', 'col1', 'col2', ' lead', 'trail ', 'ü', 'NULL', 'null', 'undefined', 'None', 'false', '0.0', 'C:\\new', 'dir\\temp', 'x\\ray', 'back\\slash', 'tab\there', 'q"t\\n', "it's\\t"]


def header_items(rng, join, ncols_a, ncols_b, A_NAMES=A_NAMES, B_NAMES=B_NAMES):
    idents_a = [n for n in A_NAMES[:ncols_a] if re.match(r'^[_a-zA-Z][_a-zA-Z0-9]*$', n) and n not in ODD_NAMES]
    idents_b = [n for n in B_NAMES[:ncols_b] if re.match(r'^[_a-zA-Z][_a-zA-Z0-9]*$', n) and n not in ODD_NAMES]
    pool = []
    pool += ['a%d' % rng.randrange(1, ncols_a + 3), 'a[%d]' % rng.randrange(1, ncols_a + 3)]
    if idents_a:
        pool += ['a.%s' % rng.choice(idents_a)]
    nm = rng.choice(A_NAMES[:ncols_a])
    if nm != '':
        pool += ['a[%s]' % qast.lit(nm, '"'), 'a[%s]' % qast.lit(nm, "'")]
    pool += ['*', 'a.*', 'NR', 'NF', 'a1 + a2', 'f(a1, a2)', 'f(a1, [a2, 1])', 'f("x, y", a1)', '[a1, a2]', 'f(a1)[0]', "'lit'", '"li,t"', '1',
             'a1 * (2 + 3)', 'f(g(a1, a2), "a)b")', 'f({"k": a1})', "f('a(b', a2)", 'f(a1,a2,[1,[2,3]])', 'a1 == a2', 'f(a1 )', ' a2',
             # commas inside curly braces (a dictionary / object literal, valid in both host languages) do not separate columns
             '{"x": a1, "y": a2}', 'f({"k": a1, "l": [a2, 1]}, a2)', '[{"p": 1, "q": 2}, a1]', '{"n": {"m": a1, "o": 2}, "r": 3}', '({"u": a1, "v": a2})']
    if join:
        pool += ['b%d' % rng.randrange(1, ncols_b + 2), 'b[%d]' % rng.randrange(1, ncols_b + 2), 'b.*', 'bNR', 'f(a1, b1)']
        if idents_b:
            pool += ['b.%s' % rng.choice(idents_b)]
        nm = rng.choice(B_NAMES[:ncols_b])
        if nm != '':
            pool += ['b[%s]' % qast.lit(nm, '"')]
    return pool


def gen_header_case(rng):
    join = rng.random() < 0.4
    has_header = rng.random() < 0.7
    ncols_a = rng.randrange(2, len(A_NAMES) + 1)
    ncols_b = rng.randrange(1, len(B_NAMES) + 1)
    a_all, b_all = list(A_NAMES), list(B_NAMES)
    if rng.random() < 0.35:
        # unusual but legal header names (empty, falsy-looking, looking like default names) at random positions, kept distinct
        for names in (a_all, b_all):
            for j in range(len(names)):
                if rng.random() < 0.3:
                    nm = rng.choice(ODD_NAMES)
                    if nm not in names:
                        names[j] = nm
    pool = header_items(rng, join, ncols_a, ncols_b, a_all, b_all)
    items = []
    for _ in range(rng.randrange(1, 5)):
        it = rng.choice(pool)
        if not has_header and (it.startswith('a.') and it != 'a.*' or it.startswith('a["') or it.startswith("a['") or it.startswith('b.') and it != 'b.*' or it.startswith('b["')):
            it = 'a1'
        if rng.random() < 0.25 and it not in ('*', 'a.*', 'b.*'):
            it = '%s %s %s' % (it, rng.choice(['as', 'AS']), rng.choice(['alias1', 'Total', 'x_1', 'v']))
        items.append(it)
    prefix = rng.choice(['', '', '', 'distinct ', 'top 3 ', 'distinct count '])
    q = 'select ' + prefix + ', '.join(items)
    if join:
        q += ' %s b on a1 == b1' % rng.choice(['join', 'inner join', 'left join'])
    if rng.random() < 0.2:
        q += ' where a1 == a2'
    if rng.random() < 0.15:
        q += ' order by a1'
    return {'query': q, 'join': join, 'a_names': a_all[:ncols_a] if has_header else None, 'b_names': (b_all[:ncols_b] if has_header else None) if join else None}


def py_header(ns, c):
    out, warnings, names = [], [], []
    try:
        ns.rbql.query_table(c['query'], [], out, warnings, [] if c['join'] else None, c['a_names'], c['b_names'], names)
        return {'header': names, 'error': None}
    except Exception as e:
        return {'header': None, 'error': util.error_class(e), 'msg': str(e)[:200]}


def leg_header(ns, node, res, spec):
    rng = random.Random(spec['seed'] * 7 + spec['shard'])
    cases = [gen_header_case(rng) for _ in range(spec['n'])]
    # systematic part: every item kind alone and aliased, with and without header / join
    for join in (False, True):
        for hh in (True, False):
            for it in header_items(random.Random(1), join, 5, 3):
                for alias in ('', ' as zz'):
                    if alias and it in ('*', 'a.*', 'b.*'):
                        continue
                    if not hh and re.match(r'^[ab](\.[A-Za-z_]|\[["\'])', it):
                        continue
                    for prefix in ('', 'distinct count '):
                        q = 'select ' + prefix + it + alias + (' join b on a1 == b1' if join else '')
                        cases.append({'query': q, 'join': join, 'a_names': A_NAMES[:5] if hh else None, 'b_names': (B_NAMES[:3] if hh else None) if join else None})
    for off in range(0, len(cases), 1000):
        chunk = cases[off:off + 1000]
        outs = node.call({'op': 'query_batch', 'cases': [{'query': c['query'], 'input': [], 'join': [] if c['join'] else None, 'input_cols': c['a_names'], 'join_cols': c['b_names']} for c in chunk]})['results']
        for c, o in zip(chunk, outs):
            res.evaluations += 1
            res.count('header_comparisons')
            res.nontrivial('hdr', c['query'], repr(c['a_names']), repr(c['b_names']))
            py = py_header(ns, c)
            jerr = js_error_class(o['error'])
            case = dict(c, leg='header')
            if py['error'] is not None or jerr is not None:
                if py['error'] != jerr:
                    res.violation('header-error-differs', 'query %r (columns %r / %r): python %r (%s), js %r (%s)' % (c['query'], c['a_names'], c['b_names'], py['error'], py.get('msg'), jerr, o['error'] and o['error']['msg'][:200]), case, finding=classify_header(c, py, o))
                continue
            if py['header'] != o['header']:
                res.violation('header-differs', 'query %r (columns %r / %r): python header %r, js header %r' % (c['query'], c['a_names'], c['b_names'], py['header'], o['header']), case, finding=classify_header(c, py, o))
    res.sample({'leg': 'header', 'case': cases[0]})


def classify_header(c, py, js):
    return None


# ---------------------------------------------------------------------------------------------------------------
def plan(tier, seed):
    specs = []
    for dlm in SPLIT_DELIMS:
        k = 2 if tier == 'quick' else 6
        for i in range(k):
            specs.append({'kind': 'split', 'dlm': dlm, 'k': k, 'i': i})
    specs.append({'kind': 'quote'})
    k = 12 if tier == 'quick' else 36
    for i in range(k):
        specs.append({'kind': 'files', 'k': k, 'i': i})
    for i in range(2):
        specs.append({'kind': 'special', 'n': 150 if tier == 'quick' else 1500})
    for i in range(4):
        specs.append({'kind': 'cross', 'i': i, 'n': 15 if tier == 'quick' else 150})
    for i in range(4):
        specs.append({'kind': 'header', 'n': 1500 if tier == 'quick' else 15000})
    return specs


def run_shard(spec, res):
    ns = env.import_rbql()
    node = start_node(res)
    if node is None:
        return
    try:
        {'split': leg_split, 'quote': leg_quote, 'files': leg_files, 'special': leg_files_special, 'cross': leg_cross, 'header': leg_header}[spec['kind']](ns, node, res, spec)
        noise = node.take_noise()
        if noise:
            res.violation('node-async-noise', 'unhandled rejection / uncaught exception / warning in node: %r' % (noise[:3],), {'leg': spec['kind'], 'noise': noise[:3]})
    finally:
        node.close()


def summarize(tier, seed, m):
    return {
        'rule': 'split: exhaustive lines up to %d symbols over {a, quote, delimiter, space (+ first char of a multi-character delimiter)} x delimiters %r x policies x both preserve modes; quote: all fields up to length %d over the quoting alphabet; readers: exhaustive files up to %d characters over {a, quote, comma, space, LF, CR, #} x {simple, quoted, quoted_rfc} x comment prefix x header flag, python reader vs JS bulk (every third also vs JS stream), plus two files of 30000 / 40000 very short records (several chunks of more than 10000 records each, stream and bulk), BOM / multi-byte / random Unicode files and invalid ones (stray and overlong bytes, surrogates, every multi-byte character cut to every proper prefix in front of ASCII, a delimiter, a line break, another character and the end of the file); cross: C10 tables written by both writers (identical bytes, identical warning kinds) and read by both readers; header: generated common-syntax select lists on empty tables x header/no header x join. distinct_nontrivial = inputs containing a special character (exhaustive legs) + distinct random cases.' % (SPLIT_LEN[tier], SPLIT_DELIMS, 4 if tier == 'quick' else 5, FILE_LEN[tier]),
        'exhaustive': True,
        'required': ['long_file_comparisons', 'split_comparisons', 'quote_comparisons', 'file_comparisons_bulk', 'file_comparisons_stream', 'special_file_comparisons', 'cross_roundtrips', 'header_comparisons'],
        'assumptions': ['differential only: a defect shared by both ports is invisible here (C10-C12, C07 cover those with reference models)',
                        'warnings are compared as multisets of (kind, numbers in the text); wording and order are not part of the statement'],
    }


def replay(case, res):
    ns = env.import_rbql()
    node = start_node(res)
    if node is None:
        return
    try:
        leg = case.get('leg')
        if leg == 'header':
            o = node.call({'op': 'query_batch', 'cases': [{'query': case['query'], 'input': [], 'join': [] if case['join'] else None, 'input_cols': case['a_names'], 'join_cols': case['b_names']}]})['results'][0]
            py = py_header(ns, case)
            res.evaluations += 1
            if (py['error'], py['header']) != (js_error_class(o['error']), o['header'] if o['error'] is None else None):
                res.violation('header-differs', 'python %r js %r / %r' % (py, o['header'], o['error']), case, finding=classify_header(case, py, o))
        elif leg == 'files':
            data = bytes.fromhex(case['bytes_hex'])
            o = node.call({'op': 'read', 'bytes_hex': case['bytes_hex'], 'chunks': [len(data)] if case['stream'] else None, 'encoding': 'binary' if case['encoding'] == 'latin-1' else case['encoding'],
                           'delim': case['dlm'], 'policy': case['policy'], 'has_header': case['header'], 'comment_prefix': case['comment']})
            py = py_read(ns, data, case['encoding'], case['dlm'], case['policy'], case['header'], case['comment'])
            res.evaluations += 1
            compare_read(res, 'replay', case, py, o, 'stream' if case['stream'] else 'bulk')
        elif leg == 'split':
            o = node.call({'op': 'split_batch', 'cases': [{'line': case['line'], 'dlm': case['dlm'], 'policy': case['policy']}]})['results'][0]
            py = ns.utils.smart_split(case['line'], case['dlm'], case['policy'], False)
            res.evaluations += 1
            if (list(py[0]), bool(py[1])) != (o.get('fields'), o.get('warning')):
                res.violation('split-differs', 'python %r js %r' % (py, o), case)
        else:
            res.notes.append('replay for leg %r: run ./check C18 quick' % leg)
    finally:
        node.close()
