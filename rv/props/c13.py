"""C13 - Same query, same data => same result through every front-end and backend.

Differential monitor with query_table (itself pinned by C01-C05 / C07) as the reference: rbql.query with user-written iterator / writer
classes, query_csv file -> file, `python -m rbql` (files and stdin / stdout, --out-format input | csv | tsv, --with-headers),
query_pandas_dataframe, SqliteRecordIterator + query_sqlite_to_csv, `python -m rbql sqlite`; an options leg varies the parameters of the
CSV entry points (comment prefix, init source, latin-1, default policy).  Process observers: exit status,
stdout and stderr captured separately.
"""
import copy
import os
import random
import shutil
import sqlite3
import subprocess
import sys
import tempfile

from .. import env, util
from ..gen import queries as gq
from ..model import qast, refcsv
from ..monitors import boundary
from . import common

PROPERTY = 'C13'
LEVEL = 'exploration'
CASES = {'quick': 480, 'thorough': 4800}
NSHARDS = {'quick': 16, 'thorough': 32}

CELLS = ['a', 'b', 'ab', '1', '2', '10', 'x y', 'q"t', "it's", 'a,b', 'É', 'z', '', '']
NAMES_A = ['id', 'name', 'val', 'grp']
NAMES_B = ['bk', 'bv', 'bw']


def stringify(v):
    if v is None:
        return ''
    if isinstance(v, (list, tuple)):
        return '|'.join(stringify(x) for x in v)
    return str(v)


def norm_rows(rows):
    return [[stringify(v) for v in r] for r in rows]


def gen_case(rng, i):
    for _try in range(30):
        wa = rng.randrange(1, 5)
        A = [[rng.choice(CELLS) for _ in range(wa)] for _ in range(rng.randrange(1, 6))]
        feats = set()
        for b, name in enumerate(['where', 'order', 'distinct', 'top', 'join']):
            if (i >> b) & 1:
                feats.add(name)
        kind = ['select', 'select', 'update', 'except', 'agg', 'count', 'starjoin'][(i // 32) % 7]
        join = ('join' in feats and kind in ('select', 'update')) or kind == 'starjoin'
        B = None
        if join:
            wb = rng.randrange(1, 4)
            B = [[rng.choice(CELLS) for _ in range(wb)] for _ in range(rng.randrange(1, 5))]
            for r in B:
                if rng.random() < 0.8:
                    r[0] = rng.choice(A)[0]
        has_header = (i % 3) != 2
        a_names = NAMES_A[:wa] if has_header else None
        b_names = (NAMES_B[:len(B[0])] if has_header else None) if join else None
        if has_header and rng.random() < 0.15:
            # duplicate column names are legal in CSV headers, column-name lists and dataframes (sqlite cannot hold them: that front-end is skipped)
            for names in (a_names, b_names):
                if names and len(names) > 1 and rng.random() < 0.7:
                    i1, i2 = rng.sample(range(len(names)), 2)
                    names[i2] = names[i1]
        if has_header and rng.random() < 0.12:
            # column names as people type them: padded with a space, two words, a trailing tab-free blank (sqlite cannot hold them unquoted: skipped there)
            for names in (a_names, b_names):
                if names and rng.random() < 0.8:
                    j = rng.randrange(len(names))
                    names[j] = rng.choice([' ' + names[j], names[j] + ' ', ' ' + names[j] + '  ', 'first ' + names[j]])
        g = gq.G(rng, A, a_names, B, b_names)
        if kind == 'update':
            q = g.gen_update({'where'} & feats | ({'join'} if join else set()))
            if q['join']:
                q['join']['type'] = 'JOIN'
        elif kind == 'starjoin':
            # a lone star item over a join with duplicate keys on both sides and cells that need quoting
            for r in B:
                r[0] = rng.choice(A)[0]
            A.append(list(rng.choice(A)))
            B.append(list(rng.choice(B)))
            q = g.gen_select({'join'} | ({'where', 'order', 'top'} & feats))
            q['items'] = [{'kind': rng.choice(['astar', 'bstar', 'star', 'bstar'])}]
            q['join']['type'] = rng.choice(['JOIN', 'INNER JOIN'])
            q['join']['pairs'] = [[['field', 'a', 0, 'var'], ['field', 'b', 0, 'var'], '==', False]]
        elif kind == 'except':
            q = g.gen_select({'except'} | ({'where', 'order', 'top'} & feats))
            if q.get('except') and len(q['except']) >= wa:
                q['except'] = q['except'][:wa - 1]       # zero-width records have no CSV representation
            if 'except' in q and not q['except']:
                del q['except']
        elif kind == 'agg':
            kf = ['field', 'a', 0, 'var']
            q = g.gen_select(set())
            q['items'] = [{'kind': 'expr', 'expr': kf}, {'kind': 'agg', 'func': 'COUNT', 'spelling': 'COUNT', 'arg': '*'}, {'kind': 'agg', 'func': 'MAX', 'spelling': 'MAX', 'arg': ['len', ['field', 'a', 1, 'var']]}]
            q['group'] = [kf]
            if 'top' in feats:
                # fewer rows than groups: the writer chain is cut short, yet every front-end's sink must still be finished
                q['top'] = rng.randrange(0, 3)
                q['top_kw'] = rng.choice(['top', 'limit'])
        else:
            f2 = set(feats)
            f2.discard('join')
            if join:
                f2.add('join')
            if kind == 'count':
                f2.discard('distinct')
                f2.add('count')
            f2.add('nostar') if rng.random() < 0.4 else None
            q = g.gen_select(f2)
            if q['join']:
                q['join']['type'] = rng.choice(['JOIN', 'INNER JOIN'])
        if q.get('join'):
            q['join']['table'] = 'b'
            for p in q['join']['pairs']:
                if isinstance(p[0], str) or isinstance(p[1], str):
                    p[0] = ['field', 'a', 0, 'var']
                    p[1] = ['field', 'b', 0, 'var']
        multiline = i % 6 == 1
        if multiline and q['kind'] == 'select' and not q.get('group') and not any(it['kind'] == 'agg' for it in q['items']):
            # keep the cells in the output: no filter, and the select list is (or starts with) a star
            q['where'] = None
            q['top'] = None
            if q.get('except') is None:
                q['items'] = [{'kind': 'star'}] + [it for it in q['items'] if it['kind'] == 'expr' and it['expr'][0] == 'field'][:1]
                for it in q['items']:
                    it.pop('alias', None)
        if multiline:
            # cells that hold a line break: representable by every front-end except the CSV dialects other than quoted_rfc, which are not used for these cases
            for t in (A, B or []):
                for r in t:
                    for j in range(len(r)):
                        if rng.random() < 0.35:
                            r[j] = rng.choice(['l1\nl2', 'x\n', '\ny', 'a,b\nc'])
        ragged = i % 11 == 7 and not multiline
        if ragged:
            # records shorter or longer than the first one (which stays as wide as the header, a list table demands that): every front-end that can hold such
            # a table (lists, user iterators, CSV files, the command line) must still agree; dataframes and sqlite tables are rectangular and are skipped
            for t in (A, B or []):
                for r in t[1:]:
                    x = rng.random()
                    if x < 0.3 and len(r) > 1:
                        del r[rng.randrange(1, len(r)):]
                    elif x < 0.5:
                        r.extend(rng.choice(CELLS) for _ in range(rng.randrange(1, 3)))
        if has_header and i % 9 == 4:
            # the query was built for the full table; the front-ends now get only its header: a CSV file with one line, a zero-row dataframe
            # with named columns, an empty sqlite table, an empty list with column names
            A = []
        case = common.case_json(q, {'A': A, 'B': B, 'a_names': a_names, 'b_names': b_names})
        ctx = qast.Ctx(a_names, b_names)
        case['query_text'] = qast.render(q, ctx, 'py')
        case['multiline'] = multiline
        case['miscase'] = None
        if has_header and i % 13 == 5:
            # a column referred to in attribute notation with another letter case than the header has: no front-end knows such a column
            for nm in a_names:
                if 'a.' + nm in case['query_text'] and nm.upper() != nm:
                    case['miscase'] = ['a.' + nm, 'a.' + nm.upper()]
                    case['query_text'] = case['query_text'].replace('a.' + nm, 'a.' + nm.upper())
                    break
        case['ragged'] = ragged and any(len(r) != len(t[0]) for t in (A, B or []) for r in t)
        return case
    return None


def reference(ns, case):
    r = boundary.run_query_table(ns, case['query_text'], [list(x) for x in case['A']], None if case['B'] is None else [list(x) for x in case['B']], case['a_names'], case['b_names'])
    return r


def acceptable(ref, multiline=False):
    if ref['error'] is not None:
        return False
    if ref['header'] is not None and len(ref['header']) == 0:
        return False
    if ref['header'] is not None and any(len(r) != len(ref['header']) for r in ref['rows']):
        return False          # (ragged tables) the CSV writer refuses a record whose width differs from the output header; a list sink has no such rule
    for r in ref['rows']:
        if len(r) == 0:
            return False      # zero-width records have no CSV representation (an empty line reads back as one empty field)
        for v in r:
            if v is None or isinstance(v, (list, float)):
                return False
            if isinstance(v, str) and any(c in v for c in ('\t\r' if multiline else '\t\r\n')):
                return False
    return True


def make_user_classes(ns):
    eng = ns.engine

    class UserIterator(eng.RBQLInputIterator):
        """A user-written iterator: a generator of records plus the variable map built with the helpers the CSV / pandas adapters use."""

        def __init__(self, rows, names, prefix='a'):
            self.rows = iter(rows)
            self.names = names
            self.prefix = prefix

        def get_variables_map(self, query_text):
            m = dict()
            eng.parse_basic_variables(query_text, self.prefix, m)
            eng.parse_array_variables(query_text, self.prefix, m)
            if self.names is not None:
                eng.parse_dictionary_variables(query_text, self.prefix, self.names, m)
                eng.parse_attribute_variables(query_text, self.prefix, self.names, 'user header', m)
            return m

        def get_record(self):
            try:
                return list(next(self.rows))
            except StopIteration:
                return None

        def get_header(self):
            return self.names

    class UserWriter(eng.RBQLOutputWriter):
        def __init__(self):
            self.rows = []
            self.header = None

        def write(self, fields):
            self.rows.append(tuple(fields))
            return True

        def set_header(self, header):
            self.header = header

    class UserRegistry(eng.RBQLTableRegistry):
        def __init__(self, rows, names):
            self.rows, self.names = rows, names

        def get_iterator_by_table_id(self, table_id, single_char_alias):
            if table_id.lower() != 'b':
                return None
            return UserIterator(self.rows, self.names, single_char_alias)
    return UserIterator, UserWriter, UserRegistry


DIALECTS = [(',', 'quoted', ','), (',', 'quoted', ','), (';', 'quoted', ';'), ('\t', 'simple', 'TAB'), ('\t', 'simple', '\\t'), ('|', 'simple', '|'), ('Д', 'simple', 'Д'), ('→', 'quoted', '→'), ('::', 'quoted', '::')]


def csv_text(rows, header, dlm=',', policy='quoted'):
    allrows = ([header] if header is not None else []) + rows
    return refcsv.write_table(allrows, dlm, policy, '\n')


def csv_text_quote_all(rows, header, dlm):
    """Excel-style export: every field quoted (valid under quoted and quoted_rfc)."""
    allrows = ([header] if header is not None else []) + rows
    return ''.join(dlm.join('"' + v.replace('"', '""') + '"' for v in r) + '\n' for r in allrows)


def parse_out(data, dlm, policy, has_header):
    r = refcsv.read_text(data.decode('utf-8'), dlm, policy, 'utf-8', has_header)
    return r.records, r.header


def run_cli(cmd, d, stdin=None):
    e = dict(os.environ, PYTHONPATH=env.PY_PKG_DIR, PYTHONDONTWRITEBYTECODE='1', HOME=d, PYTHONWARNINGS='ignore')
    return subprocess.run([sys.executable, '-W', 'ignore', '-m', 'rbql'] + cmd, env=e, cwd=d, input=stdin, stdout=subprocess.PIPE, stderr=subprocess.PIPE, timeout=120)


def js_text(v, sub):
    if v is None:
        return ''
    if v is True or v is False:
        return 'true' if v else 'false'
    if isinstance(v, float):
        return str(int(v)) if v == int(v) and abs(v) < 1e15 else repr(v)
    if isinstance(v, list):
        return sub.join(js_text(x, sub) for x in v)
    return str(v)


def js_entry_points(res, node, case, q_csv, inp, dlm, pol, cli_dlm, cd, n, has_header):
    an, bn = case['a_names'], case['b_names']
    ctx = qast.Ctx(an, bn)
    qjs = qast.render(case['q'], ctx, 'js')
    qjs_csv = qast.render(q_csv, ctx, 'js')
    o = node.call({'op': 'query_table', 'query': qjs, 'input': case['A'], 'join': case['B'], 'input_cols': an, 'join_cols': bn})
    res.evaluations += 1
    res.count('js_entry_point_cases')
    cs = dict(case, query_text_js=qjs, engine='js')
    if o['error'] is not None:
        res.count('js_entry_point_cases_reference_fails')
        return
    flat = [v for r in o['out'] for v in r]
    if any(isinstance(v, dict) for v in flat) or any(isinstance(v, float) and v != int(v) for v in flat):
        return      # cells whose CSV text depends on number formatting are C10's subject
    sub = '|' if dlm != '|' else ';'
    exp_rows = [[js_text(v, sub) for v in r] for r in o['out']]
    exp_header = list(o['header']) if o['header'] else None

    def cmp(front, data, err):
        res.evaluations += 1
        res.count('front_end:' + front)
        c2 = dict(cs, front_end=front)
        if err is not None:
            res.violation('js:front-end-error:' + front, '[%s] %s failed: %s ; JS query_table gives %r' % (front, qjs_csv, err, exp_rows), c2)
            return
        rows, hdr = parse_out(data, dlm, pol, exp_header is not None)
        if rows != exp_rows:
            res.violation('js:front-end-rows-differ:' + front, '[%s] %s -> %r ; JS query_table -> %r (A=%r B=%r names=%r)' % (front, qjs_csv, rows, exp_rows, case['A'], case['B'], an), c2)
        elif (list(hdr) if hdr else None) != exp_header:
            res.violation('js:front-end-header-differs:' + front, '[%s] %s -> header %r ; JS query_table -> %r' % (front, qjs_csv, hdr, exp_header), c2)

    for bulk in (False, True):
        outp = os.path.join(cd, 'js_out_%d_%d.csv' % (n, bulk))
        r = node.call({'op': 'query_csv_files', 'query': qjs_csv, 'input_path': inp, 'delim': dlm, 'policy': pol, 'output_path': outp, 'out_delim': dlm, 'out_policy': pol,
                       'encoding': 'utf-8', 'with_headers': has_header, 'bulk_read': bulk})
        err = None
        if r['error'] is not None:
            err = '%s: %s' % (r['error']['cls'], r['error']['msg'][:100])
        elif r['out_hex'] is None:
            err = 'no output file'
        cmp('js-query_csv-bulk' if bulk else 'js-query_csv-stream', bytes.fromhex(r['out_hex'] or ''), err)
    if n % 4 == 0:
        e = dict(os.environ, HOME=cd)
        base = ['node', os.path.join(env.REPO, 'rbql-js', 'cli_rbql.js'), '--delim', cli_dlm, '--policy', pol, '--query', qjs_csv, '--input', inp] + (['--with-headers'] if has_header else [])
        outp = os.path.join(cd, 'js_cli_out_%d.csv' % n)
        to_file = n % 8 == 0
        p = subprocess.run(base + (['--output', outp] if to_file else []), env=e, cwd=cd, stdout=subprocess.PIPE, stderr=subprocess.PIPE, timeout=120)
        res.count('js_cli_runs')
        # a byte order mark in the input is reported on stderr and does not change the exit status
        if p.returncode != 0 or (to_file and p.stdout):
            res.violation('js:cli-exit-status-or-stdout', '[js cli] %s: exit %d stdout %r stderr %r' % (qjs_csv, p.returncode, p.stdout[:80], p.stderr[-200:]), dict(cs, front_end='js-cli'))
        else:
            data = open(outp, 'rb').read() if to_file else p.stdout
            cmp('js-cli-file' if to_file else 'js-cli-stdout', data, None)


def slow_reader_leg(ns, res, spec, d, rng):
    """The command lines (Python and node) writing a result of several mebibytes to a PIPE whose reader starts late and reads slowly: the same table as
    query_table, complete to the last byte, exit status 0, empty stderr (nothing may be cut off by the way the process ends)."""
    import time
    nrec = rng.choice([60000, 70001])
    lines = ['r%d,%s,%d,z' % (i, 'x' * (i % 60), i * 7) for i in range(nrec)]
    inp = os.path.join(d, 'slow_in.csv')
    with open(inp, 'w') as f:
        f.write('\n'.join(lines) + '\n')
    query = 'select a1, a2, a3, a4, NR'
    exp = ''.join('%s,%d\n' % (ln, i + 1) for i, ln in enumerate(lines)).encode()
    out, warnings = [], []
    ns.rbql.query_table(query, [ln.split(',') for ln in lines[:500]], out, warnings)
    if [','.join(str(c) for c in r) for r in out] != [x.decode() for x in exp.split(b'\n')[:500]]:
        raise env.InfraError('slow reader leg: the expectation disagrees with query_table')
    cmds = {'py-cli': [sys.executable, '-W', 'ignore', '-m', 'rbql', '--query', query, '--input', inp, '--delim', ',', '--policy', 'simple'],
            'js-cli': ['node', os.path.join(env.REPO, 'rbql-js', 'cli_rbql.js'), '--query', query, '--input', inp, '--delim', ',', '--policy', 'simple']}
    for front, cmd in cmds.items():
        if front == 'js-cli' and not env.node_path():
            continue
        e = dict(os.environ, HOME=d, PYTHONPATH=env.PY_PKG_DIR, PYTHONDONTWRITEBYTECODE='1')
        p = subprocess.Popen(cmd, env=e, cwd=d, stdout=subprocess.PIPE, stderr=subprocess.PIPE)
        time.sleep(1.5)                                  # the producer fills the pipe and has to wait
        chunks = []
        t0 = time.time()
        while True:
            c = p.stdout.read(65536)
            if not c:
                break
            chunks.append(c)
            if len(chunks) % 8 == 0:
                time.sleep(0.01)
            if time.time() - t0 > 600:
                p.kill()
                raise env.InfraError('slow reader leg: %s did not finish within the wall-clock watchdog (inconclusive, not a verdict)' % front)
        err = p.stderr.read()
        rc = p.wait(timeout=60)
        got = b''.join(chunks)
        res.evaluations += 1
        res.count('slow_pipe_reader_runs:' + front)
        res.nontrivial('slow-reader', front, nrec)
        if rc != 0 or got != exp or err.strip():
            res.violation('%s:large-stdout-through-slow-pipe' % front.replace('-cli', ':cli'), '[%s] %s over %d records into a pipe read late and slowly: exit %s, %d bytes / %d lines on stdout (expected %d / %d), identical prefix: %s, stderr %r' % (
                front, query, nrec, rc, len(got), got.count(b'\n'), len(exp), nrec, exp.startswith(got), err[-200:]), {'leg': 'slow-reader', 'front_end': front, 'records': nrec})


def run_shard(spec, res):
    ns = env.import_rbql()
    rng = random.Random(spec['seed'] * 982451653 + spec['i'])
    UI, UW, UR = make_user_classes(ns)
    d = tempfile.mkdtemp(prefix='rv-c13-')
    jsnode = None
    try:
        if spec['kind'] == 'failing':
            return failing_leg(ns, res, spec, d, rng)
        if spec['kind'] == 'options':
            return options_leg(ns, res, spec, d, rng)
        if spec['kind'] == 'slow-reader':
            return slow_reader_leg(ns, res, spec, d, rng)
        if spec['kind'] == 'bounded':
            return bounded_leg(ns, res, spec, d, rng)
        import pandas as pd
        from ..js import bridge
        jsnode = bridge.Node.start()
        if jsnode is None:
            res.notes.append('js entry points: unavailable (no node)')
        for n in range(spec['n']):
            idx = n * spec['k'] + spec['i']
            case = gen_case(rng, idx)
            ref = reference(ns, case)
            if ref['error'] is not None:
                # the reference entry point fails: the same query through rbql.query with user-written classes (same engine, same data) must fail as well
                w = UW()
                err2 = None
                try:
                    ns.rbql.query(case['query_text'], UI(case['A'], case['a_names']), w, [], UR(case['B'], case['b_names']) if case['B'] is not None else None)
                except Exception as e:
                    err2 = util.error_class(e)
                res.evaluations += 1
                res.count('failing_reference_cases')
                fails = {'query+user-classes': err2 is not None}
                cdf = os.path.join(d, 'f%d' % n)
                os.mkdir(cdf)
                fan, fbn, fA, fB = case['a_names'], case['b_names'], case['A'], case['B']
                fpol = 'quoted_rfc' if case.get('multiline') else 'quoted'
                with open(os.path.join(cdf, 'in.csv'), 'w', encoding='utf-8', newline='') as f:
                    f.write(csv_text(fA, fan, ',', fpol))
                fq = copy.deepcopy(case['q'])
                if fB is not None:
                    with open(os.path.join(cdf, 'jn.csv'), 'w', encoding='utf-8', newline='') as f:
                        f.write(csv_text(fB, fbn, ',', fpol))
                    fq['join']['table'] = 'jn.csv'
                fqtext = qast.render(fq, qast.Ctx(fan, fbn), 'py')
                if case.get('miscase'):
                    fqtext = fqtext.replace(case['miscase'][0], case['miscase'][1])
                try:
                    ns.rbql.query_csv(fqtext, os.path.join(cdf, 'in.csv'), ',', fpol, os.path.join(cdf, 'out.csv'), ',', fpol, 'utf-8', [], fan is not None)
                    fails['query_csv'] = False
                except Exception:
                    fails['query_csv'] = True
                if n % 2 == 0:
                    p = run_cli(['--delim', ',', '--policy', fpol, '--query', fqtext, '--input', os.path.join(cdf, 'in.csv'), '--output', os.path.join(cdf, 'out2.csv')] + (['--with-headers'] if fan is not None else []), cdf)
                    res.count('cli_runs')
                    fails['cli-file'] = p.returncode != 0 and b'Error [' in p.stderr
                rect = not case.get('ragged') and fA
                if rect:
                    try:
                        ns.rbql.query_pandas_dataframe(case['query_text'], pd.DataFrame(fA, columns=fan) if fan is not None else pd.DataFrame(fA), [], None if fB is None else (pd.DataFrame(fB, columns=fbn) if fbn is not None else pd.DataFrame(fB)))
                        fails['pandas'] = False
                    except Exception:
                        fails['pandas'] = True
                if rect and fan is not None and len(set(fan)) == len(fan) and (fbn is None or len(set(fbn)) == len(fbn)) and all(qast.is_identifier(x) for x in list(fan) + list(fbn or [])):
                    fdb = os.path.join(cdf, 'f.sqlite')
                    conn = sqlite3.connect(fdb)
                    conn.execute('CREATE TABLE t (%s)' % ', '.join('%s TEXT' % x for x in fan))
                    conn.executemany('INSERT INTO t VALUES (%s)' % ','.join('?' * len(fan)), fA)
                    if fB is not None:
                        conn.execute('CREATE TABLE b (%s)' % ', '.join('%s TEXT' % x for x in fbn))
                        conn.executemany('INSERT INTO b VALUES (%s)' % ','.join('?' * len(fbn)), fB)
                    conn.commit()
                    try:
                        ns.sqlite.query_sqlite_to_csv(case['query_text'], conn, 't', os.path.join(cdf, 'out3.csv'), ',', 'quoted_rfc', 'utf-8', [])
                        fails['sqlite'] = False
                    except Exception:
                        fails['sqlite'] = True
                    conn.close()
                    if n % 2 == 1:
                        p = run_cli(['sqlite', fdb, '--input', 't', '--query', case['query_text'], '--output', os.path.join(cdf, 'out4.csv')], cdf)
                        res.count('cli_runs')
                        fails['cli-sqlite'] = p.returncode != 0 and b'Error [' in p.stderr
                shutil.rmtree(cdf, ignore_errors=True)
                for fe, failed in sorted(fails.items()):
                    res.count('failing_reference_front_end:' + fe)
                    if not failed and fe != 'query+user-classes':
                        res.violation('py:front-end-succeeds-where-reference-fails:' + fe, '[%s] %s succeeds, but query_table raises %s: %s (A=%r B=%r names=%r)' % (fe, case['query_text'], ref['error'], (ref['error_msg'] or '')[:120], fA, fB, fan), dict(case, front_end=fe))
                if case.get('miscase'):
                    res.count('miscased_column_reference_cases')
                if err2 is None:
                    res.violation('py:front-end-error:query_table', '[query_table] %s raised %s: %s ; rbql.query with user-written iterator / writer gives %r (A=%r B=%r names=%r)' % (case['query_text'], ref['error'], (ref['error_msg'] or '')[:120], norm_rows(w.rows)[:6], case['A'], case['B'], case['a_names']), dict(case, front_end='query_table'))
            if not acceptable(ref, bool(case.get('multiline'))):
                res.count('cases_skipped_not_type_agnostic')
                continue
            exp_rows = norm_rows(ref['rows'])
            exp_header = ref['header']
            res.count('cases')
            if exp_rows:
                res.nontrivial(case['query_text'], repr(case['A']), repr(case['B']))
            res.count('shape:' + common.feature_sig(case['q']))
            A, B, an, bn = case['A'], case['B'], case['a_names'], case['b_names']
            has_header = an is not None
            qtext = case['query_text']

            def cmp(front, rows, header, err=None, check_header=True):
                res.evaluations += 1
                res.count('front_end:' + front)
                cs = dict(case, front_end=front)
                if err is not None:
                    res.violation('py:front-end-error:' + front, '[%s] %s raised %s ; query_table gives %r' % (front, qtext, err, exp_rows), cs)
                    return
                if norm_rows(rows) != exp_rows:
                    res.violation('py:front-end-rows-differ:' + front, '[%s] %s -> %r ; query_table -> %r (A=%r B=%r names=%r)' % (front, qtext, norm_rows(rows), exp_rows, A, B, an), cs)
                elif check_header and (list(header) if header else None) != (list(exp_header) if exp_header else None):
                    res.violation('py:front-end-header-differs:' + front, '[%s] %s -> header %r ; query_table -> %r' % (front, qtext, header, exp_header), cs)

            # 1. rbql.query with user-written iterator / writer / registry classes
            w = UW()
            err = None
            try:
                ns.rbql.query(qtext, UI(A, an), w, [], UR(B, bn) if B is not None else None)
            except Exception as e:
                err = '%s: %s' % (util.error_class(e), str(e)[:100])
            cmp('query+user-classes', w.rows, w.header, err)

            # 2. query_csv file -> file  (the CSV dialect of the files rotates: delimiter incl. non-ASCII and multi-character, policy)
            dlm, pol, cli_dlm = DIALECTS[idx % len(DIALECTS)]
            ml = bool(case.get('multiline'))
            if ml:
                dlm, pol, cli_dlm = (',', 'quoted_rfc', ',')
                res.count('multiline_cases')
            elif not refcsv.representable(([an] if an else []) + A + (B or []) + ([bn] if bn else []), dlm, pol, 'utf-8') or not refcsv.representable([[stringify(v) for v in r] for r in ref['rows']] or [['x']], dlm, pol, 'utf-8'):
                dlm, pol, cli_dlm = DIALECTS[0]
            res.count('dialect:%s/%s' % (cli_dlm, pol))
            # every case in a directory of its own; two cases in three call their files in.csv / jn.csv, so that the same relative join-table id
            # names a different file from one query to the next (it is resolved against the directory of the input file / the working directory)
            cd = os.path.join(d, 'c%d' % n)
            os.mkdir(cd)
            same_names = n % 3 != 0
            inp = os.path.join(cd, 'in.csv' if same_names else 'in_%d.csv' % n)
            # one case in five: files as a spreadsheet exports them - a UTF-8 byte order mark in front and every field quoted (the reader drops the
            # mark with a warning; the table is the same)
            bom_export = n % 5 == 2 and pol in ('quoted', 'quoted_rfc') and all(len(r) > 0 for r in A + (B or []))
            if bom_export:
                res.count('bom_quote_all_cases')
            with open(inp, 'w', encoding='utf-8', newline='') as f:
                f.write('\ufeff' + csv_text_quote_all(A, an, dlm) if bom_export else csv_text(A, an, dlm, pol))
            q_csv = copy.deepcopy(case['q'])
            if B is not None:
                jname = 'jn.csv' if same_names else 'jn_%d.csv' % n
                jn = os.path.join(cd, jname)
                with open(jn, 'w', encoding='utf-8', newline='') as f:
                    f.write('\ufeff' + csv_text_quote_all(B, bn, dlm) if bom_export else csv_text(B, bn, dlm, pol))
                q_csv['join']['table'] = jname
            qtext_csv = qast.render(q_csv, qast.Ctx(an, bn), 'py')
            outp = os.path.join(cd, 'out_%d.csv' % n)
            out_has_header = bool(exp_header)
            err = None
            rows = hdr = None
            try:
                ns.rbql.query_csv(qtext_csv, inp, dlm, pol, outp, dlm, pol, 'utf-8', [], has_header)
                with open(outp, 'rb') as f:
                    rows, hdr = parse_out(f.read(), dlm, pol, out_has_header)
            except Exception as e:
                err = '%s: %s' % (util.error_class(e), str(e)[:100])
            cmp('query_csv', rows, hdr, err)

            # 3. the command line: files, stdin/stdout, the three output formats
            base = ['--delim', cli_dlm, '--policy', pol, '--query', qtext_csv] + (['--with-headers'] if has_header else [])
            fmt = 'input' if ml else ['input', 'csv', 'tsv'][n % 3]
            dl, pol_o = {'input': (dlm, pol), 'csv': (',', 'quoted'), 'tsv': ('\t', 'simple')}[fmt]
            # the mode word is optional for csv: `rbql csv --input ...` and `rbql --input ...` are the same command
            p = run_cli((['csv'] if n % 4 == 1 else []) + base + ['--input', inp, '--output', outp, '--out-format', fmt], cd if n % 2 else d)
            res.count('cli_runs')
            if p.returncode != 0 or p.stdout:
                res.violation('py:cli-exit-status-or-stdout:file', '[cli file] %s: exit %d stdout %r stderr %r' % (qtext_csv, p.returncode, p.stdout[:80], p.stderr[-200:]), dict(case, front_end='cli-file'))
            else:
                with open(outp, 'rb') as f:
                    rows, hdr = parse_out(f.read(), dl, pol_o, out_has_header)
                cmp('cli-file-' + fmt, rows, hdr)
            if B is None or True:
                with open(inp, 'rb') as f:
                    data = f.read()
                fmt2 = 'input' if ml else ['csv', 'tsv', 'input'][n % 3]
                dl2, pol2 = {'input': (dlm, pol), 'csv': (',', 'quoted'), 'tsv': ('\t', 'simple')}[fmt2]
                # a join table is found relative to the current directory when the input comes from stdin
                p = run_cli(base + ['--out-format', fmt2], cd, stdin=data)
                res.count('cli_runs')
                if p.returncode != 0:
                    res.violation('py:cli-exit-status-or-stdout:stdin', '[cli stdin/stdout] %s: exit %d stderr %r' % (qtext_csv, p.returncode, p.stderr[-200:]), dict(case, front_end='cli-stdin'))
                else:
                    rows, hdr = parse_out(p.stdout, dl2, pol2, out_has_header)
                    cmp('cli-stdin-stdout-' + fmt2, rows, hdr)
                    if b'Error [' in p.stderr:
                        res.violation('py:cli-error-line-on-success', '[cli] %s: exit 0 but stderr %r' % (qtext_csv, p.stderr[-200:]), dict(case, front_end='cli-stdin'))

            if case.get('ragged'):
                res.count('ragged_cases')
                continue
            # 4. pandas
            dfa = pd.DataFrame(A, columns=an) if has_header else pd.DataFrame(A)
            dfb = None
            if B is not None:
                dfb = pd.DataFrame(B, columns=bn) if has_header else pd.DataFrame(B)
            err = None
            rows = hdr = None
            try:
                out = ns.rbql.query_pandas_dataframe(qtext, dfa, [], dfb)
                rows = [[v.item() if hasattr(v, 'item') else v for v in r] for r in out.values.tolist()]
                hdr = [str(c) for c in out.columns] if exp_header else None
            except Exception as e:
                err = '%s: %s' % (type(e).__name__, str(e)[:100])
            cmp('pandas', rows, hdr, err)

            # 5. sqlite (always has column names, all distinct)
            if has_header and len(set(an)) == len(an) and (bn is None or len(set(bn)) == len(bn)) and all(qast.is_identifier(x) for x in list(an) + list(bn or [])):
                # (the database file is named as people name files: blanks, #, ?, a percent sequence, non-ASCII)
                db = os.path.join(d, ['db_%d.sqlite', 'issue #%d.sqlite', 'what?%d.db', '100%%25 sure %d.sqlite', 'my db %d.sqlite', 'd\u00e9p\u00f4t_%d.sqlite', 'a&b=%d;c.sqlite'][n % 7] % n)
                conn = sqlite3.connect(db)
                conn.execute('CREATE TABLE t (%s)' % ', '.join('%s TEXT' % x for x in an))
                conn.executemany('INSERT INTO t VALUES (%s)' % ','.join('?' * len(an)), A)
                if B is not None:
                    conn.execute('CREATE TABLE b (%s)' % ', '.join('%s TEXT' % x for x in bn))
                    conn.executemany('INSERT INTO b VALUES (%s)' % ','.join('?' * len(bn)), B)
                conn.commit()
                err = None
                rows = hdr = None
                try:
                    ns.sqlite.query_sqlite_to_csv(qtext, conn, 't', outp, ',', 'quoted_rfc' if ml else 'quoted', 'utf-8', [])
                    with open(outp, 'rb') as f:
                        rows, hdr = parse_out(f.read(), ',', 'quoted_rfc' if ml else 'quoted', out_has_header)
                except Exception as e:
                    err = '%s: %s' % (util.error_class(e), str(e)[:100])
                conn.close()
                cmp('sqlite', rows, hdr, err)
                if n % 2 == 0 or ml:
                    # a database that holds one table needs no --input: the table is the input, and stdout still carries nothing but the table
                    default_table = B is None and n % 4 == 0
                    p = run_cli(['sqlite', db] + ([] if default_table else ['--input', 't']) + ['--query', qtext, '--out-format', 'csv'], d)
                    res.count('cli_runs')
                    if default_table:
                        res.count('cli_sqlite_default_table_runs')
                    if p.returncode != 0:
                        res.violation('py:cli-exit-status-or-stdout:sqlite', '[cli sqlite] %s: exit %d stderr %r' % (qtext, p.returncode, p.stderr[-200:]), dict(case, front_end='cli-sqlite'))
                    else:
                        rows, hdr = parse_out(p.stdout, ',', 'quoted_rfc', out_has_header)
                        cmp('cli-sqlite', rows, hdr)
                os.unlink(db)
            # 6. the entry points of the JS package: query_table (arrays) is the reference there; query_csv (stream and bulk reading) and the node
            #    command line (file -> file, file -> stdout) over the same files must give the same table and header
            if jsnode is not None and common.js_supported(case) and n % 2 == 0:
                js_entry_points(res, jsnode, case, q_csv, inp, dlm, pol, cli_dlm, cd, n, has_header)
            if n % 37 == 0:
                res.sample({'query': qtext, 'query_csv': qtext_csv, 'A': A, 'B': B, 'names': an, 'reference_rows': exp_rows[:4], 'front_ends': 8})
    finally:
        if jsnode is not None:
            jsnode.close()
        shutil.rmtree(d, ignore_errors=True)


COMMENT_PREFIXES = ['#', '//', '#!', '>>', '-', 'rem ', '"', '%%']      # not '--': argparse itself swallows that value
LATIN1_CELLS = ['a', 'b', '1', '2', 'x y', 'caf\xe9', '\xff\xfe', '\xa0', 'q"t', 'a,b', '\xd7', '', '\x80\x9f']


def with_comments(text, prefix, rng):
    body = text.split('\n')[:-1]
    out = []
    for l in body:
        while rng.random() < 0.3:
            out.append(prefix + rng.choice(['', ' note', ',"unbalanced', prefix, ' a,b,c,d,e,f', '\t']))
        out.append(l)
    while rng.random() < 0.4:
        out.append(prefix + ' end')
    return '\n'.join(out) + '\n'


def options_leg(ns, res, spec, d, rng):
    """The parameters of the CSV entry points: comment prefix, init source (explicit file / ~/.rbql_init_source.py / user_init_code), latin-1, default policy."""
    for n in range(spec['n']):
        idx = n * spec['k'] + spec['i']
        mode = ['comment', 'init', 'latin1', 'defpolicy', 'withmod'][n % 5]
        case = gen_case(rng, rng.randrange(0, 224) * 6 + rng.choice([0, 2, 3, 5]))      # never the multi-line family
        if case.get('multiline'):
            continue
        q = copy.deepcopy(case['q'])
        A, B, an, bn = case['A'], case['B'], case['a_names'], case['b_names']
        init = ''
        if mode == 'init':
            if q['kind'] != 'select' or q.get('group') or any(it['kind'] == 'agg' for it in q['items']) or q.get('except') is not None:
                mode = 'comment'
            else:
                q['items'].append({'kind': 'expr', 'expr': ['uvar', rng.choice(sorted(qast.UVARS))]})
                q['items'].append({'kind': 'expr', 'expr': ['call', 'f', [['field', 'a', 0, 'var']] * rng.randrange(0, 3)]})
                init = qast.INIT_PY
        if mode == 'latin1':
            for t in (A, B or []):
                for r in t:
                    for j in range(len(r)):
                        if rng.random() < 0.5:
                            r[j] = rng.choice(LATIN1_CELLS)
            if B:
                for r in B:
                    if rng.random() < 0.7 and A:
                        r[0] = rng.choice(A)[0]
        if mode == 'defpolicy' and A:
            # a cell whose CSV form depends on the policy in force
            rng.choice(A)[-1] = rng.choice(['q"t', '"q"', 'x;y', 'x,y', ' "p" '])
            if (n // 6) % 2 == 0:
                # and a query that is sure to show it
                q = {'kind': 'select', 'items': [{'kind': 'star'}], 'distinct': None, 'top': None, 'top_kw': 'top', 'where': None, 'join': None, 'order': None, 'group': None, 'except': None, 'assign': [], 'with': None}
                B = bn = None
        has_header = an is not None
        qtext = qast.render(q, qast.Ctx(an, bn), 'py')
        ref = boundary.run_query_table(ns, qtext, [list(x) for x in A], None if B is None else [list(x) for x in B], an, bn, True, init)
        if not acceptable(ref):
            res.count('cases_skipped_not_type_agnostic')
            continue
        exp_rows = norm_rows(ref['rows'])
        exp_header = ref['header']
        enc = 'latin-1' if mode == 'latin1' else 'utf-8'
        dlm, pol, cli_dlm = (',', 'quoted', ',')
        if mode == 'defpolicy':
            dlm, pol, cli_dlm = [(',', 'quoted', ','), (';', 'quoted', ';'), ('\t', 'simple', 'TAB'), ('|', 'simple', '|'), (' ', 'whitespace', ' '), ('::', 'simple', '::')][n % 6]
        alltext = ([an] if an else []) + A + (B or []) + ([bn] if bn else [])
        if mode == 'latin1' and not qtext.isascii():
            res.count('cases_skipped_not_encodable')      # documented: a non-ASCII query needs the utf-8 encoding
            continue
        try:
            (qtext + repr(alltext) + repr(exp_rows) + repr(exp_header)).encode(enc)
        except UnicodeEncodeError:
            res.count('cases_skipped_not_encodable')
            continue
        if not refcsv.representable(alltext, dlm, pol, enc) or not refcsv.representable(exp_rows or [['x']], dlm, pol, enc):
            if mode == 'defpolicy':
                res.count('cases_skipped_not_representable')
                continue
        cd = os.path.join(d, 'o%d' % n)
        os.mkdir(cd)
        home = os.path.join(cd, 'home')
        os.mkdir(home)
        prefix = None
        ta = csv_text(A, an, dlm, pol)
        tb = csv_text(B, bn, dlm, pol) if B is not None else None
        if mode == 'comment':
            ok = [p for p in COMMENT_PREFIXES if not any(l.startswith(p) for l in (ta + (tb or '')).split('\n'))]
            if not ok:
                continue
            prefix = ok[idx // 4 % len(ok)]
            ta = with_comments(ta, prefix, rng)
            if tb is not None:
                tb = with_comments(tb, prefix, rng)
        inp = os.path.join(cd, 'in.csv')
        with open(inp, 'w', encoding=enc, newline='') as f:
            f.write(ta)
        q_csv = copy.deepcopy(q)
        if B is not None:
            with open(os.path.join(cd, 'jn.csv'), 'w', encoding=enc, newline='') as f:
                f.write(tb)
            q_csv['join']['table'] = 'jn.csv'
        qtext_csv = qast.render(q_csv, qast.Ctx(an, bn), 'py')
        out_has_header = bool(exp_header)
        res.count('option_cases:' + mode)
        res.count('cases')
        if exp_rows:
            res.nontrivial(mode, qtext, repr(A), repr(B))
        cs = dict(common.case_json(q, {'A': A, 'B': B, 'a_names': an, 'b_names': bn}), query_text=qtext_csv, leg='options', mode=mode, comment_prefix=prefix, input_text=ta, join_text=tb)

        def cmp(front, data, dl, po, err=None):
            res.evaluations += 1
            res.count('front_end:' + front)
            if err is not None:
                res.violation('py:front-end-error:' + front, '[%s] %s raised %s ; query_table gives %r' % (front, qtext_csv, err, exp_rows), dict(cs, front_end=front))
                return
            r = refcsv.read_text(data.decode(enc), dl, po, enc, out_has_header)
            if norm_rows(r.records) != exp_rows:
                res.violation('py:front-end-rows-differ:' + front, '[%s] %s -> %r ; query_table -> %r (input file %r join file %r)' % (front, qtext_csv, norm_rows(r.records), exp_rows, ta, tb), dict(cs, front_end=front))
            elif (list(r.header) if r.header else None) != (list(exp_header) if exp_header else None):
                res.violation('py:front-end-header-differs:' + front, '[%s] %s -> header %r ; query_table -> %r' % (front, qtext_csv, r.header, exp_header), dict(cs, front_end=front))

        # withmod: the caller's flag says the opposite of what the files are, and the query ends with the modifier that puts it right
        flag_header, with_suffix = has_header, ''
        if mode == 'withmod' and not q.get('with'):
            flag_header = not has_header
            with_suffix = ' ' + rng.choice(['WITH', 'with']) + rng.choice([' ', '']) + ('(header)' if has_header else rng.choice(['(noheader)', '(noheaders)']))
        # the library
        outp = os.path.join(cd, 'out.csv')
        init_file = os.path.join(cd, 'init_source.py')
        use_home = mode == 'init' and idx % 8 >= 4
        if mode == 'init':
            with open(os.path.join(home, '.rbql_init_source.py') if use_home else init_file, 'w') as f:
                f.write(init)
        err = data = None
        old_home = os.environ.get('HOME')
        os.environ['HOME'] = home
        try:
            ns.rbql.query_csv(qtext_csv + with_suffix, inp, dlm, pol, outp, dlm, pol, enc, [], flag_header, prefix, '' if use_home else init)
            with open(outp, 'rb') as f:
                data = f.read()
        except Exception as e:
            err = '%s: %s' % (util.error_class(e), str(e)[:100])
        finally:
            if old_home is None:
                del os.environ['HOME']
            else:
                os.environ['HOME'] = old_home
        cmp('query_csv+' + mode, data, dlm, pol, err)
        # the command line
        base = ['--delim', cli_dlm, '--query', qtext_csv + with_suffix] + (['--with-headers'] if flag_header else [])
        if mode != 'defpolicy':
            base += ['--policy', pol]
        if mode == 'comment':
            base += ['--comment-prefix=' + prefix] if prefix.startswith('-') else ['--comment-prefix', prefix]
        if mode == 'latin1':
            base += ['--encoding', 'latin-1']
        if mode == 'init' and not use_home:
            base += ['--init-source-file', init_file]
        e = dict(os.environ, PYTHONPATH=env.PY_PKG_DIR, PYTHONDONTWRITEBYTECODE='1', HOME=home, PYTHONWARNINGS='ignore')
        for via in ('file', 'stdin'):
            if via == 'file':
                os.unlink(outp) if os.path.exists(outp) else None
                p = subprocess.run([sys.executable, '-W', 'ignore', '-m', 'rbql'] + base + ['--input', inp, '--output', outp], env=e, cwd=d, stdout=subprocess.PIPE, stderr=subprocess.PIPE, timeout=120)
            else:
                with open(inp, 'rb') as f:
                    p = subprocess.run([sys.executable, '-W', 'ignore', '-m', 'rbql'] + base, env=e, cwd=cd, input=f.read(), stdout=subprocess.PIPE, stderr=subprocess.PIPE, timeout=120)
            res.count('cli_runs')
            front = 'cli-%s+%s' % (via, mode)
            if p.returncode != 0 or (via == 'file' and p.stdout):
                res.violation('py:cli-exit-status-or-stdout:' + via, '[%s] %s: exit %d stdout %r stderr %r' % (front, qtext_csv, p.returncode, p.stdout[:80], p.stderr[-200:]), dict(cs, front_end=front))
                continue
            if via == 'file':
                with open(outp, 'rb') as f:
                    data = f.read()
            else:
                data = p.stdout
            cmp(front, data, dlm, pol)
        if mode == 'init' and has_header and not case.get('ragged') and len(set(an)) == len(an) and (bn is None or len(set(bn)) == len(bn)) and all(qast.is_identifier(x) for x in list(an) + list(bn or [])):
            db = os.path.join(cd, 'db.sqlite')
            conn = sqlite3.connect(db)
            conn.execute('CREATE TABLE t (%s)' % ', '.join('%s TEXT' % x for x in an))
            conn.executemany('INSERT INTO t VALUES (%s)' % ','.join('?' * len(an)), A)
            if B is not None:
                conn.execute('CREATE TABLE b (%s)' % ', '.join('%s TEXT' % x for x in bn))
                conn.executemany('INSERT INTO b VALUES (%s)' % ','.join('?' * len(bn)), B)
            conn.commit()
            conn.close()
            with open(init_file, 'w') as f:
                f.write(init)
            p = subprocess.run([sys.executable, '-W', 'ignore', '-m', 'rbql', 'sqlite', db, '--input', 't', '--query', qtext, '--init-source-file', init_file], env=e, cwd=d, stdout=subprocess.PIPE, stderr=subprocess.PIPE, timeout=120)
            res.count('cli_runs')
            if p.returncode != 0:
                res.violation('py:cli-exit-status-or-stdout:sqlite', '[cli sqlite+init] %s: exit %d stderr %r' % (qtext, p.returncode, p.stderr[-200:]), dict(cs, front_end='cli-sqlite+init'))
            else:
                cmp('cli-sqlite+init', p.stdout, ',', 'quoted_rfc')
        shutil.rmtree(cd, ignore_errors=True)
        if n % 23 == 0:
            res.sample({'leg': 'options', 'mode': mode, 'query_csv': qtext_csv, 'input_file': ta, 'join_file': tb, 'reference_rows': exp_rows[:4]})


def failing_leg(ns, res, spec, d, rng):
    """Exit status, Error [type] line, warnings on stderr."""
    inp = os.path.join(d, 'in_1.csv')
    with open(inp, 'w', newline='') as f:
        f.write('a,1\nb,x\nc,3\n')
    with open(os.path.join(d, 'jn_1.csv'), 'w', newline='') as f:
        f.write('a,J\n')
    db = os.path.join(d, 'db.sqlite')
    conn = sqlite3.connect(db)
    conn.execute('CREATE TABLE t (id TEXT, v TEXT)')
    conn.executemany('INSERT INTO t VALUES (?, ?)', [('a', '1'), ('b', 'x')])
    conn.commit()
    conn.close()
    failing = [('select a1 where a2 = 1', 'query parsing'), ('select int(a2)', 'query execution'), ('select a1 join nosuch.csv on a1 == b1', 'IO handling'), ('select a1 +', 'syntax error'),
               ('update a9 = 1', 'query execution'), ('select a1, UNNEST([1]), UNNEST([2])', 'query parsing'), ('select a1 limit x', 'query parsing'),
               ('', 'query parsing'), (' ', 'query parsing'), ('select', 'query parsing'), ('where a1 == "a"', 'query parsing'), ('# only a comment', 'query parsing'), (';', 'query parsing'),
               ('select a1 order by', 'syntax error'), ('select a1 join jn_1.csv on a1 == b9', 'query execution'), ('select a1 strict left join jn_1.csv on a1 == b1', 'query execution')]
    for qtext, etype in failing:
        for mode in ('file', 'csv-word', 'stdout', 'sqlite'):
            outp = os.path.join(d, 'o.csv')
            if mode == 'file':
                p = run_cli(['--input', inp, '--delim', ',', '--policy', 'quoted', '--query', qtext, '--output', outp], d)
            elif mode == 'csv-word':
                p = run_cli(['csv', '--input', inp, '--delim', ',', '--policy', 'quoted', '--query', qtext, '--output', outp], d)
            elif mode == 'stdout':
                with open(inp, 'rb') as f:
                    p = run_cli(['--delim', ',', '--query', qtext], d, stdin=f.read())
            else:
                if '.csv' in qtext:
                    continue
                p = run_cli(['sqlite', db, '--input', 't', '--query', qtext], d)
            res.evaluations += 1
            res.count('cli_failing_runs')
            res.distinct_disjoint += 1
            case = {'leg': 'failing', 'query_text': qtext, 'mode': mode}
            err_lines = [l for l in p.stderr.decode('utf-8', 'replace').splitlines() if l.startswith('Error [')]
            if p.returncode == 0:
                res.violation('py:cli-exit-zero-on-failure:' + mode, '[cli %s] %r failed but exit status is 0 (stderr %r)' % (mode, qtext, p.stderr[-200:]), case)
            if not err_lines:
                res.violation('py:cli-no-error-line-on-stderr:' + mode, '[cli %s] %r: no "Error [type]" line on stderr: %r (stdout %r)' % (mode, qtext, p.stderr[-200:], p.stdout[:200]), case)
            if b'Error [' in p.stdout:
                res.violation('py:cli-error-on-stdout:' + mode, '[cli %s] %r: error text on stdout %r' % (mode, qtext, p.stdout[:200]), case)
    # failures whose exception carries no message at all (a bare assert, StopIteration from a user callback): still a failure
    empty_msg = [(['--delim', '"', '--policy', 'quoted_rfc', '--query', 'select a1'], 'file'),
                 (['--delim', ',', '--policy', 'quoted', '--query', "select a1, ARRAY_AGG(a2, lambda v: next(x for x in v if x.startswith('zz'))) group by a1"], 'file'),
                 (['--delim', ',', '--query', 'select a1, ARRAY_AGG(a2, lambda v: next(iter([]))) group by a1'], 'stdin')]
    for args, mode in empty_msg:
        if mode == 'file':
            p = run_cli(['--input', inp, '--output', os.path.join(d, 'o2.csv')] + args, d)
        else:
            with open(inp, 'rb') as f:
                p = run_cli(args, d, stdin=f.read())
        res.evaluations += 1
        res.count('cli_failing_runs')
        res.count('cli_failing_runs_empty_message')
        res.distinct_disjoint += 1
        case = {'leg': 'failing-empty-message', 'args': args, 'mode': mode}
        if p.returncode == 0 or not [l for l in p.stderr.decode('utf-8', 'replace').splitlines() if l.startswith('Error [')]:
            res.violation('py:cli-failure-without-message-reported-as-success', '[cli %s] %r: exit %d stderr %r stdout %r' % (mode, args, p.returncode, p.stderr[-200:], p.stdout[:100]), case)
    # usage errors (a missing --delim, an unknown policy, a missing database or input file): a failure like any other - non-zero exit status, nothing on stdout
    for args in (['--query', 'select a1', '--input', inp], ['csv', '--query', 'select a1', '--input', inp], ['--delim', ',', '--policy', 'nosuch', '--query', 'select a1', '--input', inp],
                 ['sqlite', os.path.join(d, 'missing.sqlite'), '--input', 't', '--query', 'select a1'], ['csv', '--delim', ',', '--query', 'select a1', '--input', os.path.join(d, 'missing.csv')]):
        p = run_cli(args, d)
        res.evaluations += 1
        res.count('cli_failing_runs')
        res.count('cli_usage_error_runs')
        res.distinct_disjoint += 1
        if p.returncode == 0 or p.stdout.strip():
            res.violation('py:cli-usage-error-reported-as-success', '[cli] %r: exit %d stdout %r stderr %r' % (args, p.returncode, p.stdout[:100], p.stderr[-200:]), {'leg': 'failing-usage', 'args': args})
    # warnings go to stderr, stdout holds nothing but table data
    for qtext, kind in (('select a1, a7', 'none'), ('select a1, a2', None)):
        with open(inp, 'rb') as f:
            p = run_cli(['--delim', ',', '--query', qtext], d, stdin=f.read())
        res.evaluations += 1
        res.count('cli_warning_runs')
        rows, _h = parse_out(p.stdout, ',', 'quoted', False)
        exp = [['a', ''], ['b', ''], ['c', '']] if kind else [['a', '1'], ['b', 'x'], ['c', '3']]
        warn_lines = [l for l in p.stderr.decode().splitlines() if l.startswith('Warning:')]
        if p.returncode != 0 or rows != exp or bool(warn_lines) != bool(kind) or b'Warning' in p.stdout:
            res.violation('py:cli-warning-routing', '[cli] %r: exit %d stdout %r stderr %r' % (qtext, p.returncode, p.stdout[:200], p.stderr[-200:]), {'leg': 'warnings', 'query_text': qtext})
    res.sample({'leg': 'failing', 'queries': [q for q, _t in failing]})


BOUNDED_SHAPES = [
    'select top 2 distinct a.name', 'select distinct a.name, a.city limit 3', 'select distinct count a.name limit 2', 'select top 1 COUNT(*)', 'select MAX(a.qty), MIN(a.qty) limit 1',
    'select top 3 a.name order by a.qty desc', 'select top 2 * where a.city != "x"', 'select top 2 a.name, b.zone join b on a.city == b.town', 'select a.city, COUNT(*) group by a.city limit 2',
    'select top 4 distinct a.city order by a.city', 'select top 1 distinct count a.city', 'select distinct a.qty limit 1', 'select top 0 a.name', 'select top 5 a.name, UNNEST(a.name.split("n"))',
    'select top 2 a.name where a.qty == "3"', 'select ARRAY_AGG(a.name) limit 1', 'update a.qty = "0" where NR > 2',
    # the record numbers of the two tables: the header line of a file is not a record
    'select a.name, bNR, b.zone join b on a.city == b.town', 'select NR, a.name, b.zone join b on NR == bNR', 'select a.name, b.zone left join b on NR == bNR where bNR is None or bNR < 3',
]


def bounded_leg(ns, res, spec, d, rng):
    """Bounds (TOP / LIMIT) together with the clauses that need more than the first n input records - DISTINCT, DISTINCT COUNT, aggregates, ORDER BY, WHERE,
    JOIN, UNNEST - through the front-ends that could be tempted to read less: sqlite (library and command line), pandas, query_csv."""
    import pandas as pd
    names, bnames = ['name', 'city', 'qty'], ['town', 'zone']
    for n in range(spec['n']):
        A = [[rng.choice(['ann', 'bob', 'cid', 'dan']), rng.choice(['rome', 'oslo', 'x']), rng.choice(['1', '2', '3', '10'])] for _ in range(rng.randrange(5, 12))]
        if n % 2 == 0:
            A = [list(A[0]) for _ in range(3)] + A      # duplicates up front: the first n input records hold fewer than n distinct ones
        B = [['rome', 'south'], ['oslo', 'north'], ['rome', 'centre']]
        for q in BOUNDED_SHAPES:
            ref = boundary.run_query_table(ns, q, [list(r) for r in A], [list(r) for r in B], names, bnames)
            if ref['error'] is not None:
                res.violation('py:bounded-shape-reference-fails', '[query_table] %s failed: %s' % (q, ref['error_msg']), {'leg': 'bounded', 'query_text': q, 'A': A})
                continue
            exp_rows, exp_header = norm_rows(ref['rows']), ref['header']
            case = {'leg': 'bounded', 'query_text': q, 'A': A, 'B': B}

            def cmp(front, rows, header, err=None):
                res.evaluations += 1
                res.count('bounded_front_end:' + front)
                if err is not None or norm_rows(rows or []) != exp_rows or (list(header) if header else None) != (list(exp_header) if exp_header else None):
                    res.violation('py:bounded-front-end-differs:' + front, '[%s] %s over %d records -> %r / %r (error %r) ; query_table -> %r / %r' % (front, q, len(A), header, norm_rows(rows or []), err, exp_header, exp_rows), dict(case, front_end=front))
            db = os.path.join(d, 'bounded #%d.sqlite' % n)
            conn = sqlite3.connect(db)
            conn.execute('CREATE TABLE t (name TEXT, city TEXT, qty TEXT)')
            conn.executemany('INSERT INTO t VALUES (?, ?, ?)', A)
            conn.execute('CREATE TABLE b (town TEXT, zone TEXT)')
            conn.executemany('INSERT INTO b VALUES (?, ?)', B)
            conn.commit()
            outp = os.path.join(d, 'bounded_out.csv')
            rows = hdr = err = None
            try:
                ns.sqlite.query_sqlite_to_csv(q, conn, 't', outp, ',', 'quoted', 'utf-8', [])
                with open(outp, 'rb') as f:
                    rows, hdr = parse_out(f.read(), ',', 'quoted', bool(exp_header))
            except Exception as e:
                err = '%s: %s' % (util.error_class(e), str(e)[:100])
            conn.close()
            cmp('sqlite', rows, hdr, err)
            if n % 3 == 0:
                p = run_cli(['sqlite', db, '--input', 't', '--query', q, '--out-format', 'csv'], d)
                if p.returncode != 0:
                    cmp('cli-sqlite', None, None, 'exit %d: %r' % (p.returncode, p.stderr[-120:]))
                else:
                    rows, hdr = parse_out(p.stdout, ',', 'quoted_rfc', bool(exp_header))
                    cmp('cli-sqlite', rows, hdr)
            os.unlink(db)
            rows = hdr = err = None
            try:
                out = ns.rbql.query_pandas_dataframe(q, pd.DataFrame(A, columns=names), [], pd.DataFrame(B, columns=bnames))
                rows, hdr = out.values.tolist(), [str(c) for c in out.columns]
            except Exception as e:
                err = '%s: %s' % (util.error_class(e), str(e)[:100])
            if (exp_rows or err is not None) and not any(v is None for r in ref['rows'] for v in r):      # (a dataframe has its own notion of a missing value)
                cmp('pandas', rows, hdr if exp_header else None, err)
            inp = os.path.join(d, 'bounded_in.csv')
            with open(inp, 'w', encoding='utf-8', newline='') as f:
                f.write(csv_text(A, names))
            with open(os.path.join(d, 'b'), 'w', encoding='utf-8', newline='') as f:
                f.write(csv_text(B, bnames))
            rows = hdr = err = None
            try:
                ns.rbql.query_csv(q, inp, ',', 'quoted', outp, ',', 'quoted', 'utf-8', [], True)
                with open(outp, 'rb') as f:
                    rows, hdr = parse_out(f.read(), ',', 'quoted', bool(exp_header))
            except Exception as e:
                err = '%s: %s' % (util.error_class(e), str(e)[:100])
            cmp('query_csv', rows, hdr, err)
    res.sample({'leg': 'bounded', 'shapes': BOUNDED_SHAPES[:5]})


def plan(tier, seed):
    k = NSHARDS[tier]
    specs = [{'kind': 'cases', 'k': k, 'i': i, 'n': max(1, CASES[tier] // k)} for i in range(k)]
    specs += [{'kind': 'bounded', 'k': 1, 'i': 2000 + i, 'n': 3 if tier == 'quick' else 30} for i in range(2)]
    specs.append({'kind': 'failing', 'k': 1, 'i': 0})
    specs.append({'kind': 'slow-reader', 'k': 1, 'i': 3000})
    ko = {'quick': 4, 'thorough': 8}[tier]
    specs += [{'kind': 'options', 'k': ko, 'i': i + 1000, 'n': {'quick': 40, 'thorough': 300}[tier]} for i in range(ko)]
    return specs


def summarize(tier, seed, m):
    fe = {k[10:]: v for k, v in m['counters'].items() if k.startswith('front_end:')}
    return {
        'rule': 'rectangular string tables (0-5 rows, 1-4 columns, cells with spaces, quotes, commas, non-ASCII, empty; one case in six with line breaks inside cells, run through the quoted_rfc dialect; duplicated column names in 15% of the headed cases; one case in five (quoted policies) written the way a spreadsheet exports it - a UTF-8 byte order mark and every field quoted; one case in eleven with records shorter or longer than the first, run through the front-ends that can hold such a table; no tabs) with and without header; type-agnostic structured queries (select / where / order / distinct / distinct count / top / inner join / update / except / aggregates) rotating systematically over clause combinations; a case whose reference run fails (runtime errors, and a column referred to as a.NAME where the header says name - one headed case in thirteen) must fail through every entry point as well; each executed through query_table (reference) and through 8 entry points: rbql.query with user-written iterator / writer / registry classes, query_csv, CLI file -> file and stdin -> stdout in the three output formats, query_pandas_dataframe, query_sqlite_to_csv, CLI sqlite (with --input, and without it when the database holds one table); every second language-neutral case also through the entry points of the JS package - query_table over arrays as its reference, query_csv (stream and bulk reading) and the node command line (file -> file, file -> stdout) over the same files: same table and header, exit 0, nothing but the table on stdout; plus a bounded-shapes leg: 20 queries (three of them on the record numbers NR / bNR of the two tables) combining TOP / LIMIT with DISTINCT, DISTINCT COUNT, aggregates, ORDER BY, WHERE, JOIN and UNNEST over tables of 5-14 records (duplicates up front) through sqlite (library and command line), pandas and query_csv against query_table; plus failing queries (parsing, execution, IO, syntax) x {file, stdout, sqlite} for exit status / Error [type] on stderr, and warning routing; plus an options leg over the parameters of the CSV entry points, each compared with query_table over the same data: comment lines (8 prefixes, before the header, between records, at the end, in the join file too) with comment_prefix / --comment-prefix, user variables and functions from an init source (user_init_code, --init-source-file, ~/.rbql_init_source.py under a private HOME; CLI sqlite too), latin-1 files with cells over the whole 0x80-0xff range and --encoding latin-1, a caller flag that says the opposite of what the files are, put right by WITH (header) / WITH (noheader) in the query, and the policy the command line picks when --policy is left out (quoted for , and ; / whitespace for a space / simple otherwise) with a cell whose CSV form depends on the policy. distinct_nontrivial = distinct (query, tables) with a non-empty result + failing scenarios.',
        'required': ['slow_pipe_reader_runs:py-cli', 'slow_pipe_reader_runs:js-cli', 'cases', 'bounded_front_end:sqlite', 'bounded_front_end:cli-sqlite', 'bounded_front_end:pandas', 'bounded_front_end:query_csv', 'bom_quote_all_cases', 'multiline_cases', 'ragged_cases', 'failing_reference_cases', 'miscased_column_reference_cases', 'failing_reference_front_end:sqlite', 'failing_reference_front_end:pandas', 'failing_reference_front_end:query_csv', 'front_end:query+user-classes', 'front_end:query_csv', 'front_end:pandas', 'front_end:sqlite', 'front_end:cli-sqlite', 'cli_sqlite_default_table_runs', 'js_entry_point_cases', 'front_end:js-query_csv-stream', 'front_end:js-query_csv-bulk', 'front_end:js-cli-file', 'front_end:js-cli-stdout', 'front_end:cli-file-tsv', 'front_end:cli-file-csv', 'front_end:cli-file-input', 'front_end:cli-stdin-stdout-csv', 'cli_failing_runs', 'cli_usage_error_runs', 'cli_failing_runs_empty_message', 'cli_warning_runs', 'option_cases:comment', 'option_cases:init', 'option_cases:latin1', 'option_cases:defpolicy', 'option_cases:withmod', 'front_end:cli-file+comment', 'front_end:cli-stdin+init', 'front_end:cli-sqlite+init', 'front_end:query_csv+latin1', 'front_end:cli-file+defpolicy'],
        'extra': {'front_end_comparisons': fe},
        'assumptions': ['query_table is the reference (pinned by C01-C05, C07)', 'types are not compared across back ends (CSV and pandas stringify): cells are compared after the stringification every CSV sink applies', 'scratch files are named in.csv / jn.csv / in_<n>.csv / jn_<n>.csv in a directory c<n> per case: a path containing an a./b. token under a header is the C08 known finding, not a front-end difference'],
    }


def replay(case, res):
    res.notes.append('replay: run ./check C13 quick (the case is printed in full in the violation line)')
