"""C16 - Queries are isolated: consecutive and thread-interleaved runs do not interfere.

Monitors: (i) fresh-interpreter baseline: every scenario's solo result is computed in its own subprocess; (ii) history leg: all
sequences of length <= 2 and seeded random sequences of length <= 6 in one process, module-state snapshot between queries (advisory);
(iii) interleaving leg: two queries in two real threads whose probe iterators / writers block at every get_record / write / finish
until the deterministic scheduler grants the step - ALL interleavings enumerated by stateless DFS; (iv) preemption stress with
sys.monitoring LINE-event yield injection (thorough).
"""
import hashlib
import json
import os
import random
import subprocess
import sys
import threading

from .. import env, util
from ..monitors import boundary, sched

PROPERTY = 'C16'
LEVEL = 'exploration'


def table(R):
    base = [['b', '3', 'x,y'], ['a', '1', 'y'], ['b', '2', 'x'], ['c', '1', 'z'], ['a', '5', 'x']]
    return [list(r) for r in base[:R]]


def join_table():
    return [['b', 'J1']]


SCENARIOS = [
    ('select', 'select a1, a2, NR', False),
    ('like', 'select a1 where like(a1, "_") or like(a3, "x%")', False),
    ('unnest', 'select a1, UNNEST(a3.split(","))', False),
    ('order', 'select a1, a2 order by a2 desc', False),
    ('distinct-count', 'select distinct count a1', False),
    ('group-all-aggregates', 'select a1, COUNT(*), MIN(a2), MAX(a2), SUM(a2), AVG(a2), VARIANCE(a2), MEDIAN(a2), ARRAY_AGG(a3), ANY_VALUE(a1) group by a1', False),
    ('join', 'select a1, b2, bNR join b on a1 == b1', True),
    # a join on TWO keys next to the join on one: whatever a join keeps per key shape (key getter, index layout) is per query
    ('join-two-keys', 'select a1, b2, bNR, NR join b on a1 == b1 and NR == bNR', True),
    ('aggregates-over-numbers', 'select AVG(NR), VARIANCE(len(a1)), MIN(NR * 1.5), SUM(NF), MEDIAN(NR)', False),
    ('update-nu', 'update a2 = str(NU) + a2 where a1 != "c"', False),
    ('top', 'select top 1 a1, NF', False),
    ('syntax-error', 'select a1 +', False),
    ('parsing-error', 'select a1 where a2 = 1', False),
    ('runtime-error-record-2', 'select int(a2) * len(a3), [1][len(a3) - 3]', False),
    ('aggregate-misuse', 'select a1, COUNT(*) order by a1', False),
    ('double-unnest', 'select UNNEST([1, 2]), UNNEST([3])', False),
    # the same query TEXT over tables whose headers put the named columns at different positions (a per-text memo of the
    # translated query would silently run the code generated for the other header)
    ('named-columns-header-1', 'select a.v, a["k"], NR where a.w != "z"', False, ['k', 'v', 'w']),
    ('named-columns-header-2', 'select a.v, a["k"], NR where a.w != "z"', False, ['v', 'w', 'k']),
    ('named-update-except-header-1', 'update a.v = a.k + "!"', False, ['k', 'v', 'w']),
    ('named-update-except-header-2', 'update a.v = a.k + "!"', False, ['w', 'k', 'v']),
    # a dictionary-style field the (header-less) table does not provide: must fail the same way whatever ran before
    ('missing-dictionary-field', 'select a["k"], a["v"], NR', False),
    # the same aggregates and the same group keys as 'group-all-aggregates' but over other arguments, and ANY_VALUE without a key: a store
    # shared between queries (or between the columns of one query) keeps what another query put there for the same key
    ('group-aggregates-other-arguments', 'select a1, COUNT(a3), MIN(NR), MAX(NR * 10), SUM(NR), AVG(NR), VARIANCE(NR), MEDIAN(NR), ARRAY_AGG(NR), ANY_VALUE(a3), ANY_VALUE(NR) group by a1', False),
    ('any-value-no-key', 'select ANY_VALUE(a3), ANY_VALUE(a2), COUNT(*)', False),
    ('any-value-no-key-filtered', 'select ANY_VALUE(a2 + a1), MAX(a2) where a1 != "b"', False),
    # an expression that makes the interpreter issue a warning for every record (process-wide warning machinery: filters, showwarning, registries)
    ('python-warning-per-record', 'select a1, __import__("warnings").warn("careful with " + a1), NR', False),
]


def observe(ns, idx, R, on_step=None, who='', count_steps=None):
    sc = SCENARIOS[idx]
    name, qtext, uses_join = sc[0], sc[1], sc[2]
    a_names = sc[3] if len(sc) > 3 else None
    A = table(R)
    if a_names is not None:
        # logical columns k, v, w are the physical columns 0, 1, 2; the header order says where each one sits
        A = [[r['kvw'.index(c)] for c in a_names] for r in A]
    if count_steps is not None:
        on_step = lambda w, op: count_steps.append(op)
    o = boundary.run_py(ns, qtext, A, join_table() if uses_join else None, a_names, None, on_step=on_step, who=who, scribble=False)
    return {'rows': json.loads(json.dumps(o.rows)), 'header': o.header, 'warnings': o.warnings, 'error': o.error, 'error_records': util.record_numbers(o.error_msg or '')[:2]}


def solo_main(argv):
    """python -m rv.props.c16 R  -> JSON list of the solo observations of every scenario, each computed in THIS fresh interpreter one at a time?
    No: one scenario per process.  argv: idx R"""
    idx, R = int(argv[0]), int(argv[1])
    ns = env.import_rbql()
    steps = []
    obs = observe(ns, idx, R, count_steps=steps)      # one single query in this fresh interpreter
    obs['_steps'] = {k: steps.count(k) for k in ('get_record', 'write', 'finish')}
    print(json.dumps(obs))


def fresh_baselines(R):
    """Each scenario alone in a fresh interpreter."""
    procs = []
    e = dict(os.environ, PYTHONPATH=env.VERIF_DIR, PYTHONDONTWRITEBYTECODE='1', PYTHONHASHSEED='0', PYTHONWARNINGS='ignore')
    for idx in range(len(SCENARIOS)):
        procs.append(subprocess.Popen([sys.executable, '-W', 'ignore', '-m', 'rv.props.c16', str(idx), str(R)], stdout=subprocess.PIPE, stderr=subprocess.PIPE, env=e, cwd=env.VERIF_DIR))
    out = []
    for idx, p in enumerate(procs):
        so, se = p.communicate(timeout=300)
        if p.returncode != 0:
            raise env.InfraError('fresh-interpreter baseline for scenario %d failed: %s' % (idx, se.decode()[-400:]))
        out.append(json.loads(so.decode().strip().splitlines()[-1]))
    return out


MODULE_NAMES = ['engine', 'csv', 'utils', 'pandas', 'sqlite']


def module_state(ns):
    """Hash of every module-level non-callable, non-module object (advisory only: a memo cache would legitimately change it)."""
    h = hashlib.sha1()
    for mn in MODULE_NAMES:
        mod = getattr(ns, mn)
        for k in sorted(vars(mod)):
            v = vars(mod)[k]
            if k.startswith('__') or callable(v) or isinstance(v, type(sys)):
                continue
            try:
                h.update(('%s.%s=%r' % (mn, k, v)).encode('utf-8', 'replace'))
            except Exception:
                pass
    return h.hexdigest()


def compare_with_solo(res, idx, got, solo, context, case):
    solo = {k: v for k, v in solo.items() if not k.startswith('_')}
    if got != solo:
        diff = [k for k in solo if got.get(k) != solo[k]]
        res.violation('py:result-depends-on-%s:%s' % (context.split(':')[0], SCENARIOS[idx][0]), '[py] scenario %r (%s) differs from its fresh-interpreter solo run in %r when run %s: got %r, solo %r' % (
            SCENARIOS[idx][0], SCENARIOS[idx][1], diff, context, {k: got[k] for k in diff}, {k: solo[k] for k in diff}), case)
        return False
    return True


def leg_history(ns, res, spec):
    rng = random.Random(spec['seed'] * 31 + spec['shard'])
    R = spec['R']
    solo = spec['solo']
    n = len(SCENARIOS)
    seqs = [[i] for i in range(n)] + [[i, j] for i in range(n) for j in range(n)]
    for _ in range(spec['random_sequences']):
        seqs.append([rng.randrange(n) for _ in range(rng.randrange(3, 7))])
    state0 = module_state(ns)
    for seq in seqs:
        if len(seq) <= 2 and (seq[0] % spec['k']) != spec['i'] and spec['k'] > 1:
            continue
        for pos, idx in enumerate(seq):
            got = observe(ns, idx, R)
            res.evaluations += 1
            res.count('history_runs')
            compare_with_solo(res, idx, got, solo[idx], 'history:after %r' % [SCENARIOS[j][0] for j in seq[:pos]], {'leg': 'history', 'sequence': seq, 'position': pos, 'R': R})
            st = module_state(ns)
            if st != state0:
                res.count('module_state_changes_observed')
                res.notes.append('advisory: module-level state changed after scenario %r' % SCENARIOS[idx][0])
                state0 = st
        res.nontrivial('hist', tuple(seq))
    res.sample({'leg': 'history', 'sequences': len(seqs), 'example': [SCENARIOS[j][0] for j in seqs[-1]]})


def leg_interleave(ns, res, spec):
    R = spec['R']
    solo = spec['solo']
    kinds = tuple(spec.get('step_kinds', ['get_record', 'write', 'finish']))
    for (i, j) in spec['pairs']:
        bad = [0]

        def make_bodies():
            def body(idx, who):
                return lambda step: observe(ns, idx, R, on_step=(lambda w, op: step(w, op) if op in kinds else None), who=who)
            return [body(i, '1'), body(j, '2')]

        expected_steps = [sum(solo[idx]['_steps'][k] for k in kinds) for idx in (i, j)]

        def on_run(s, results, excs):
            res.evaluations += 1
            if s.blocked is not None:
                res.violation('py:interleaving-never-completes:%s+%s' % (SCENARIOS[i][0], SCENARIOS[j][0]), '[py] under schedule %s the queries cannot complete: %s (%s | %s)' % (
                    ''.join(str(t + 1) for t in s.trace), s.blocked, SCENARIOS[i][1], SCENARIOS[j][1]), {'leg': 'interleave', 'pair': [i, j], 'schedule': s.trace, 'R': R, 'step_kinds': list(kinds)})
                return False
            per_thread = [sum(1 for t in s.trace if t == tid) for tid in (0, 1)]
            if per_thread != expected_steps:
                res.violation('py:step-structure-depends-on-interleaving:%s+%s' % (SCENARIOS[i][0], SCENARIOS[j][0]), '[py] under schedule %s the two queries performed %r read/write steps, alone they perform %r (%s | %s)' % (
                    ''.join(str(t + 1) for t in s.trace), per_thread, expected_steps, SCENARIOS[i][1], SCENARIOS[j][1]), {'leg': 'interleave', 'pair': [i, j], 'schedule': s.trace, 'R': R, 'step_kinds': list(kinds)})
                return False
            res.count('schedules')
            res.count('handoffs', s.handoffs)
            res.count('steps_granted', len(s.trace))
            for tid, idx in ((0, i), (1, j)):
                if excs[tid] is not None:
                    res.violation('py:interleaving-infra', 'thread %d raised %r under schedule %r' % (tid, excs[tid], s.trace), {'leg': 'interleave', 'pair': [i, j], 'schedule': s.trace, 'R': R, 'step_kinds': list(kinds)})
                    continue
                if bad[0] < 3 and not compare_with_solo(res, idx, results[tid], solo[idx], 'interleaved:with %r under schedule %s' % (SCENARIOS[j if tid == 0 else i][0], ''.join(str(t + 1) for t in s.trace)),
                                                        {'leg': 'interleave', 'pair': [i, j], 'schedule': s.trace, 'R': R, 'step_kinds': list(kinds)}):
                    bad[0] += 1
        import math
        cap = spec.get('max_schedules') or 4 * math.comb(sum(expected_steps), expected_steps[0]) + 10
        count, traces, complete = sched.explore(make_bodies, on_run, cap)
        res.count('pairs')
        res.count('distinct_traces', traces)
        res.distinct_disjoint += traces
        if complete:
            res.count('pairs_enumerated_completely')
        else:
            res.count('pairs_truncated')
        if (i + j) % 11 == 0:
            res.sample({'leg': 'interleave', 'pair': [SCENARIOS[i][0], SCENARIOS[j][0]], 'records': R, 'schedules': count, 'distinct_traces': traces, 'complete': complete})


# ---------------------------------------------------------------------------------------------------------------
# generated queries: solo results come from a pristine helper interpreter that imports rbql, never runs a query itself and forks one
# child per case; the very same cases then run in one process in shuffled orders, and pairwise interleaved under random schedules

def observe_case(ns, case, on_step=None, who=''):
    o = boundary.run_py(ns, case['query_text'], [list(r) for r in case['A']], None if case['B'] is None else [list(r) for r in case['B']], case['a_names'], case['b_names'],
                        on_step=on_step, who=who, scribble=False, mutating_sink=False, init_code=case.get('init_code', ''))
    def plain(v):
        if isinstance(v, bool) or v is None or isinstance(v, str):
            return v
        if isinstance(v, int):
            return v if -10 ** 18 < v < 10 ** 18 else 'int:' + hex(v)      # decimal conversion of huge integers is capped (sys.get_int_max_str_digits)
        if isinstance(v, float):
            return v if v == v and v not in (float('inf'), float('-inf')) else 'float:' + repr(v)
        if isinstance(v, (list, tuple)):
            return [plain(x) for x in v]
        return repr(v)
    out = {'rows': json.loads(json.dumps([plain(r) for r in o.rows])), 'header': o.header, 'warnings': o.warnings, 'error': o.error, 'error_msg': (o.error_msg or '')[:300]}
    if on_step is None:
        # second sink: the CSV writer (it has state of its own)
        import io
        buf = io.StringIO(newline='')
        warns = []
        err = None
        try:
            w = ns.csv.CSVWriter(buf, False, None, ',', 'quoted_rfc')
            reg = None if case['B'] is None else ns.engine.ListTableRegistry([ns.engine.ListTableInfo('b', [list(r) for r in case['B']], case['b_names']), ns.engine.ListTableInfo('B', [list(r) for r in case['B']], case['b_names'])])
            ns.rbql.query(case['query_text'], ns.engine.TableIterator([list(r) for r in case['A']], case['a_names']), w, warns, reg, user_init_code=case.get('init_code', ''))
        except Exception as e:
            err = '%s: %s' % (type(e).__name__, str(e)[:200])
        out['csv'] = {'text': buf.getvalue(), 'warnings': warns, 'error': err}
    return out


def solo_server_main():
    """stdin: one JSON case per line; stdout: one JSON observation per line, each computed by a forked child of this query-free interpreter."""
    ns = env.import_rbql()
    for line in sys.stdin:
        case = json.loads(line)
        r, w = os.pipe()
        pid = os.fork()
        if pid == 0:
            os.close(r)
            try:
                data = json.dumps(observe_case(ns, case))
            except BaseException as e:   # noqa
                data = json.dumps({'infra': repr(e)})
            with os.fdopen(w, 'w') as f:
                f.write(data)
            os._exit(0)
        os.close(w)
        with os.fdopen(r) as f:
            data = f.read()
        os.waitpid(pid, 0)
        sys.stdout.write(data + '\n')
        sys.stdout.flush()


def solo_results(cases):
    e = dict(os.environ, PYTHONPATH=env.VERIF_DIR, PYTHONDONTWRITEBYTECODE='1', PYTHONHASHSEED='0', PYTHONWARNINGS='ignore')
    p = subprocess.run([sys.executable, '-W', 'ignore', '-m', 'rv.props.c16', '--solo-server'], input=''.join(json.dumps(c) + '\n' for c in cases).encode(), stdout=subprocess.PIPE, stderr=subprocess.PIPE, env=e, cwd=env.VERIF_DIR, timeout=900)
    lines = p.stdout.decode().splitlines()
    if p.returncode != 0 or len(lines) != len(cases):
        raise env.InfraError('solo server failed: rc=%s %d/%d lines, stderr %s' % (p.returncode, len(lines), len(cases), p.stderr.decode()[-400:]))
    out = [json.loads(l) for l in lines]
    for o in out:
        if 'infra' in o:
            raise env.InfraError('solo child failed: %s' % o['infra'])
    return out


def header_twin(rng, case):
    """The same query TEXT over the same data with the columns (and their names) in another order."""
    an = case['a_names']
    A = case['A']
    if an is None or len(an) < 2 or any(len(r) != len(an) for r in A):
        return None
    perm = list(range(len(an)))
    rng.shuffle(perm)
    if perm == sorted(perm):
        perm.reverse()
    t = dict(case)
    t['a_names'] = [an[j] for j in perm]
    t['A'] = [[r[j] for j in perm] for r in A]
    t['twin_of'] = case['query_text']
    return t


def generated_cases(rng, n, base):
    from . import c06
    from ..model import qast
    cases = []
    for k in range(n):
        c = c06.case_stream(rng, base + k)
        ctx = qast.Ctx(c['a_names'], c['b_names'])
        c = {'query_text': qast.render(c['q'], ctx, 'py'), 'A': c['A'], 'B': c['B'], 'a_names': c['a_names'], 'b_names': c['b_names']}
        if k % 5 == 4:
            c['query_text'] = rng.choice([c['query_text'] + ' +', c['query_text'].replace('SELECT', 'SELECT int(a1) + len(a9),', 1), 'SELECT ' + c['query_text']])     # failing variants
        cases.append(c)
        t = header_twin(rng, c)
        if t is not None and rng.random() < 0.6:
            cases.append(t)
    return cases


# Queries whose RESULT is interpreter-wide state: as queries they fall under the property like any other (same result alone and after any history), and
# they make a leak of such state by another query - which no table-valued query might ever show - visible at once.
ENV_READER = ("select __import__('sys').get_int_max_str_digits(), __import__('sys').getrecursionlimit(), __import__('sys').getswitchinterval(), __import__('decimal').getcontext().prec, "
              "__import__('locale').setlocale(0), __import__('sys').getdefaultencoding(), __import__('locale').getpreferredencoding(False), __import__('io').DEFAULT_BUFFER_SIZE, "
              "__import__('os').environ.get('TZ'), __import__('re').compile('a').flags, __import__('sys').float_repr_style, len(__import__('sys').path_hooks), __import__('csv').field_size_limit()")
# Queries that put an unusual load on the engine and the CSV writer (some fail half-way, after output was produced): huge integers, huge cells, wide records
ENV_STRESSORS = [
    ('select a1, 10 ** 5000 // int(a1)', [['7'], ['x'], ['3']]),
    ('select a1, 10 ** 5000 // int(a1)', [['7'], ['3']]),
    ('select MAX(a1), SUM(a1)', [['9' * 5000], ['1']]),
    ('select int(a1) % 97, len(a1)', [['12345'], ['7' * 5000]]),
    ('select len(a1), a1.upper()[:3]', [['x' * 200000], ['y']]),
    ('select NF, a1, a[NF]', [[str(i) for i in range(3000)], ['only']]),
    ('select a1, float(a1) * 1e308 * 10, str(float(a1) / 3)', [['1'], ['2.5'], ['nan']]),
    ('update a1 = 10 ** 4400', [['1'], ['2']]),
    ('select a1 order by int(a1) desc', [['3'], ['10' * 3000], ['x']]),
]


# user init code with module-level state (a counter, a memo): it belongs to ONE query - the next query starts it afresh
STATEFUL_INIT = ("import itertools\n_ids = itertools.count(1)\ndef next_id():\n    return next(_ids)\nmemo = {}\ndef seen(x):\n    memo[x] = memo.get(x, 0) + 1\n    return memo[x]\n"
                 "calls = [0]\ndef bump():\n    calls[0] += 1\n    return calls[0]\n")


def environment_cases():
    out = [{'query_text': ENV_READER, 'A': [['r']], 'B': None, 'a_names': None, 'b_names': None, 'env': 'reader'}]
    for q in ('select next_id(), a1', 'select seen(a1), a1 where bump() > 0', 'update a2 = next_id() * 10 + seen(a1)'):
        for _copy in range(2):
            out.append({'query_text': q, 'A': [['p', 'x'], ['q', 'y'], ['p', 'z']], 'B': None, 'a_names': None, 'b_names': None, 'env': 'stateful-init', 'init_code': STATEFUL_INIT})
    for q, A in ENV_STRESSORS:
        out.append({'query_text': q, 'A': A, 'B': None, 'a_names': None, 'b_names': None, 'env': 'stressor'})
    return out


def diff_keys(got, solo):
    return [k for k in sorted(set(got) | set(solo)) if got.get(k) != solo.get(k)]


def leg_generated(ns, res, spec):
    rng = random.Random(spec['seed'] * 4256233 + spec['i'])
    cases = generated_cases(rng, spec['n'], spec['i'] * 100000)
    envc = environment_cases()
    # the state reader several times over, so that every shuffled history meets it early, in the middle and late
    cases += envc + [dict(envc[0]) for _ in range(4)]
    res.count('environment_reader_and_stressor_cases', len(envc) + 4)
    solo = solo_results(cases)
    res.count('generated_solo_results', len(solo))
    res.count('generated_header_twins', sum(1 for c in cases if 'twin_of' in c))
    # (a) histories: three passes in different orders through one interpreter
    for p in range(3):
        order = list(range(len(cases)))
        rng.shuffle(order)
        for pos, idx in enumerate(order):
            got = observe_case(ns, cases[idx])
            res.evaluations += 1
            res.count('generated_history_runs')
            res.nontrivial('gen-hist', cases[idx]['query_text'], p)
            if got != solo[idx]:
                prev = [cases[j]['query_text'] for j in order[max(0, pos - 3):pos]]
                res.violation('py:generated-history-differs-from-fresh-interpreter:' + ','.join(diff_keys(got, solo[idx])), '[py] %s after %d other queries (last: %r) -> %r ; alone in a fresh interpreter -> %r' % (
                    cases[idx]['query_text'], pos, prev, {k: got[k] for k in diff_keys(got, solo[idx])}, {k: solo[idx].get(k) for k in diff_keys(got, solo[idx])}), {'leg': 'generated-history', 'cases': [cases[j] for j in order[:pos + 1]][-8:]})
    # (b) pairs interleaved in two threads under seeded random schedules of the get_record / write steps
    kinds = ('get_record', 'write')
    for _ in range(spec['pairs']):
        i, j = rng.randrange(len(cases)), rng.randrange(len(cases))
        for _s in range(spec['schedules']):
            srng = random.Random(rng.randrange(1 << 30))

            def body(idx, who):
                return lambda step: observe_case(ns, cases[idx], on_step=(lambda w, op: step(w, op) if op in kinds else None), who=who)
            s, results, excs = sched.run_schedule([body(i, '1'), body(j, '2')], [], chooser=lambda enabled, k: srng.choice(enabled))
            res.evaluations += 1
            res.count('generated_interleaved_schedules')
            if s.blocked is not None:
                res.violation('py:interleaving-never-completes:generated', '[py] under schedule %s the queries cannot complete: %s (%s | %s)' % (
                    ''.join(str(t + 1) for t in s.trace), s.blocked, cases[i]['query_text'], cases[j]['query_text']), {'leg': 'generated-interleave'})
                continue
            res.count('generated_interleaved_handoffs', s.handoffs)
            res.nontrivial('gen-il', cases[i]['query_text'], cases[j]['query_text'], tuple(s.trace))
            for tid, idx in ((0, i), (1, j)):
                if excs[tid] is not None:
                    res.violation('py:interleaving-infra', 'thread %d raised %r under schedule %r' % (tid, excs[tid], s.trace), {'leg': 'generated-interleave'})
                    continue
                want = {k: v for k, v in solo[idx].items() if k != 'csv'}
                if results[tid] != want:
                    res.violation('py:generated-interleaving-differs-from-fresh-interpreter:' + ','.join(diff_keys(results[tid], want)), '[py] %s interleaved with %s under schedule %s -> %r ; alone in a fresh interpreter -> %r' % (
                        cases[idx]['query_text'], cases[j if tid == 0 else i]['query_text'], ''.join(str(t + 1) for t in s.trace), {k: results[tid][k] for k in diff_keys(results[tid], want)}, {k: want.get(k) for k in diff_keys(results[tid], want)}),
                        {'leg': 'generated-interleave', 'cases': [cases[i], cases[j]], 'schedule': s.trace})
    res.sample({'leg': 'generated', 'cases': len(cases), 'example': cases[0]['query_text'], 'solo_example': {k: solo[0][k] for k in ('rows', 'error')}})


MODULE_HISTORY_SCRIPT = r"""
import io, json, sys, sqlite3
sys.path.insert(0, sys.argv[2])
import rbql
from rbql import rbql_csv, rbql_engine
mode = sys.argv[1]
def probe():
    T = [['y', float('nan'), 'q'], ['z', float('inf'), None], ['w', 1.5, 'x'], ['v', -0.0, 7], ['u', 10 ** 30, True]]
    res = []
    for q in ('select a1, a2, a3', 'select a1, float(a2) * 2, a3', 'select a1, a2 where a3 is not None', 'select a1, [a2, a3]', 'update a1 = a2', 'select a1, max(a2, 0), str(a2)'):
        out = io.StringIO()
        out.close = lambda: None
        warnings = []
        try:
            rbql.query(q, rbql_engine.TableIterator([list(r) for r in T]), rbql_csv.CSVWriter(out, False, None, ',', 'quoted'), warnings)
            res.append([q, out.getvalue(), sorted(warnings), None])
        except Exception as e:
            res.append([q, out.getvalue(), sorted(warnings), type(e).__name__ + ': ' + str(e)[:100]])
    return res
if mode == 'pandas-first':
    import pandas as pd
    rbql.query_pandas_dataframe('select a1, a2 where a2 > 0', pd.DataFrame([[1, 2.5], [3, float('nan')]], columns=['p', 'q']))
elif mode == 'sqlite-first':
    from rbql import rbql_sqlite
    conn = sqlite3.connect(':memory:')
    conn.execute('create table t (a integer, b real)')
    conn.execute('insert into t values (1, 2.5)')
    rbql.query('select a1, a2', rbql_sqlite.SqliteRecordIterator(conn, 't'), rbql_engine.TableWriter([]), [])
elif mode == 'imports-first':
    import pandas, numpy, decimal, fractions, datetime
elif mode == 'failing-first':
    for q in ('select a1 +', 'select a["nope"]', 'select int(a1)'):
        try:
            rbql.query_table(q, [['x']], [], [])
        except Exception:
            pass
print(json.dumps(probe()))
"""


def leg_module_history(ns, res, spec):
    """What a query writes must not depend on which optional modules (pandas, numpy, sqlite adapters) EARLIER queries happened to load into the interpreter:
    the same typed table (NaN, infinities, None, -0.0, big integers, booleans) through the CSV writer alone in a fresh interpreter, and in fresh
    interpreters that first ran a dataframe query / a sqlite query / bare imports / failing queries."""
    outs = {}
    e = dict(os.environ, PYTHONDONTWRITEBYTECODE='1', PYTHONHASHSEED='0', PYTHONWARNINGS='ignore')
    e.pop('PYTHONPATH', None)
    procs = {m: subprocess.Popen([sys.executable, '-W', 'ignore', '-c', MODULE_HISTORY_SCRIPT, m, env.PY_PKG_DIR], stdout=subprocess.PIPE, stderr=subprocess.PIPE, env=e, cwd=env.VERIF_DIR)
             for m in ('alone', 'pandas-first', 'sqlite-first', 'imports-first', 'failing-first')}
    for m, p in procs.items():
        so, se = p.communicate(timeout=600)
        if p.returncode != 0:
            raise env.InfraError('module-history probe %s failed: %s' % (m, se.decode()[-400:]))
        outs[m] = json.loads(so.decode().strip().splitlines()[-1])
    for m in outs:
        if m == 'alone':
            continue
        for solo, got in zip(outs['alone'], outs[m]):
            res.evaluations += 1
            res.count('module_history_comparisons')
            res.nontrivial('module-history', m, solo[0])
            if solo != got:
                res.violation('py:result-depends-on-modules-loaded-by-earlier-queries:' + m, '[py] %s through the CSV writer in an interpreter that ran %s before -> %r warnings %r error %r ; alone in a fresh interpreter -> %r warnings %r error %r' % (
                    solo[0], m, got[1], got[2], got[3], solo[1], solo[2], solo[3]), {'leg': 'module-history', 'mode': m, 'query_text': solo[0]})
    res.sample({'leg': 'module-history', 'modes': sorted(outs), 'queries': [x[0] for x in outs['alone']]})


def leg_js_history(ns, res, spec):
    """The JS port, sequentially (its module-global context rules out concurrent queries, which is documented and not claimed): the result of a
    query alone in a fresh node process vs after shuffled histories of other - also failing - queries in one node process."""
    from . import c06, common
    from ..js import bridge
    rng = random.Random(spec['seed'] * 2038074743 + spec['i'])
    cases = []
    k = 0
    while len(cases) < spec['n'] and k < spec['n'] * 20:
        c = c06.case_stream(rng, spec['i'] * 100000 + k)
        k += 1
        if common.js_supported(c):
            cases.append(c)
            t = header_twin(rng, dict(c, query_text='')) if c['a_names'] is not None else None
            if t is not None and rng.random() < 0.5:
                t.pop('query_text', None)
                cases.append(t)
    reqs = [common.js_request(c) for c in cases]
    noise = [{'query': qn, 'input': [list(r) for r in c['A']], 'join': None if c['B'] is None else [list(r) for r in c['B']], 'input_cols': c['a_names'], 'join_cols': c['b_names']} for c in cases[:len(common.JS_NOISE_QUERIES)] for qn in [rng.choice(common.JS_NOISE_QUERIES)]]
    key = lambda o: json.dumps({'out': o['out'], 'header': o['header'], 'warnings': o['warnings'], 'error': o['error']}, sort_keys=True)
    solo = []
    for r in reqs:
        node = bridge.Node.start()
        if node is None:
            res.notes.append('js history leg: unavailable (no node)')
            return
        try:
            solo.append(key(node.call({'op': 'query_batch', 'cases': [r]})['results'][0]))
        finally:
            node.close()
    res.count('js_solo_results_from_fresh_node_processes', len(solo))
    node = bridge.Node.start()
    try:
        for p in range(3):
            order = [('case', i) for i in range(len(reqs))] + [('noise', i) for i in range(len(noise))]
            rng.shuffle(order)
            outs = node.call({'op': 'query_batch', 'cases': [reqs[i] if kind == 'case' else noise[i] for kind, i in order]})['results']
            for pos, ((kind, i), o) in enumerate(zip(order, outs)):
                if kind != 'case':
                    res.count('js_history_noise_queries')
                    continue
                res.evaluations += 1
                res.count('js_history_runs')
                res.nontrivial('js-hist', reqs[i]['query'], p)
                if key(o) != solo[i]:
                    prev = [(reqs[j]['query'] if kd == 'case' else noise[j]['query']) for kd, j in order[max(0, pos - 3):pos]]
                    res.violation('js:history-differs-from-fresh-process', '[js] %s after %d other queries (last: %r) -> %s ; alone in a fresh node process -> %s' % (reqs[i]['query'], pos, prev, key(o)[:300], solo[i][:300]),
                                  {'leg': 'js-history', 'requests': [(reqs[j] if kd == 'case' else noise[j]) for kd, j in order[:pos + 1]][-8:]})
    finally:
        node.close()
    res.sample({'leg': 'js-history', 'cases': len(reqs), 'example': reqs[0]['query']})


SQLITE_HISTORY_QUERIES = [
    ('select a1, a2', 'utf-8'), ('select a.name, len(a.name), a.name.upper()', 'utf-8'), ('select a1, b.word join b on a1 == b.id', 'utf-8'), ('select a2 where a2 > "d"  order by a2', 'utf-8'),
    ('select a1 +', 'latin-1'), ('select int(a2)', 'latin-1'), ('select a1 join nosuch on a1 == b1', 'latin-1'), ('select a1 where a2 = 1', 'latin-1'), ('select a1, a2', 'latin-1'), ('select a1', 'latin-1'),
    ('select a1 +', 'utf-8'), ('select int(a2)', 'utf-8'), ('select a1 join nosuch on a1 == b1', 'utf-8'), ('update a2 = a2 + "!" where a1 != "2"', 'utf-8'), ('select distinct count a2', 'latin-1'),
]


def leg_sqlite_history(ns, res, spec):
    """The sqlite front-end with ONE connection shared by consecutive queries (output encodings differ, some queries fail): each result must equal
    the result of the same query on a fresh connection, and the caller's connection must keep its settings."""
    import sqlite3
    import tempfile
    import shutil
    d = tempfile.mkdtemp(prefix='rv-C16-')
    try:
        db = os.path.join(d, 'h.sqlite')
        c0 = sqlite3.connect(db)
        c0.execute('CREATE TABLE t (id TEXT, name TEXT)')
        c0.executemany('INSERT INTO t VALUES (?, ?)', [('1', 'caf\u00e9'), ('2', '\u65e5\u672c'), ('3', 'plain'), ('4', '\u00fcber \u20ac')])
        c0.execute('CREATE TABLE b (id TEXT, word TEXT)')
        c0.executemany('INSERT INTO b VALUES (?, ?)', [('1', 'na\u00efve'), ('2', '\u4e16\u754c'), ('4', 'x')])
        c0.commit()
        c0.close()

        def run(conn, q, enc, tag):
            outp = os.path.join(d, 'o_%s.csv' % tag)
            if os.path.exists(outp):
                os.unlink(outp)
            warns = []
            err = None
            try:
                ns.sqlite.query_sqlite_to_csv(q, conn, 't', outp, ',', 'quoted_rfc', enc, warns)
            except Exception as e:
                err = util.error_class(e) if 'Rbql' in type(e).__name__ or isinstance(e, SyntaxError) else 'other:' + type(e).__name__
            data = open(outp, 'rb').read() if os.path.exists(outp) else None
            return {'error': err, 'bytes': data.hex() if data is not None and err is None else None, 'warnings': warns}

        def settings(conn):
            return (conn.text_factory, conn.row_factory, conn.isolation_level, conn.in_transaction)
        solo = []
        for i, (q, enc) in enumerate(SQLITE_HISTORY_QUERIES):
            conn = sqlite3.connect(db)
            solo.append(run(conn, q, enc, 'solo'))
            conn.close()
        res.count('sqlite_history_solo_results', len(solo))
        res.count('sqlite_history_solo_failing', sum(1 for s in solo if s['error']))
        n = len(SQLITE_HISTORY_QUERIES)
        for i in range(n):
            for j in range(n):
                conn = sqlite3.connect(db)
                s0 = settings(conn)
                run(conn, SQLITE_HISTORY_QUERIES[i][0], SQLITE_HISTORY_QUERIES[i][1], 'first')
                s1 = settings(conn)
                got = run(conn, SQLITE_HISTORY_QUERIES[j][0], SQLITE_HISTORY_QUERIES[j][1], 'second')
                conn.close()
                res.evaluations += 1
                res.count('sqlite_history_runs')
                res.nontrivial('sqlite-hist', i, j)
                case = {'leg': 'sqlite-history', 'first': SQLITE_HISTORY_QUERIES[i], 'second': SQLITE_HISTORY_QUERIES[j]}
                if s1 != s0:
                    res.violation('py:sqlite-connection-settings-changed', '[py/sqlite] %r (%s) left the caller\'s connection with other settings: %r -> %r' % (SQLITE_HISTORY_QUERIES[i][0], SQLITE_HISTORY_QUERIES[i][1], s0, s1), case)
                if got != solo[j]:
                    res.violation('py:sqlite-result-depends-on-history', '[py/sqlite] %r (%s) after %r (%s) on the same connection -> %r ; on a fresh connection -> %r' % (
                        SQLITE_HISTORY_QUERIES[j][0], SQLITE_HISTORY_QUERIES[j][1], SQLITE_HISTORY_QUERIES[i][0], SQLITE_HISTORY_QUERIES[i][1], got, solo[j]), case)
        res.sample({'leg': 'sqlite-history', 'queries': n, 'pairs': n * n})
    finally:
        shutil.rmtree(d, ignore_errors=True)


def leg_pandas_history(ns, res, spec):
    """ONE DataFrame object (and one join frame) serves a whole history of queries while its owner re-labels, adds, drops and overwrites columns in place
    between them; every result must equal the result of the same query over a newly built equal frame in a forked child that has run no query."""
    import json
    import pandas as pd
    rng = random.Random(spec['seed'] * 1299709 + spec['i'])
    pool = ['id', 'name', 'val', 'grp', 'k', 'x', 'y', 'NR', 'a1', 'size', 'city']

    def run(q, dfa, dfb):
        try:
            out = ns.rbql.query_pandas_dataframe(q, dfa, [], dfb)
            return {'error': None, 'columns': [str(c) for c in out.columns], 'rows': [[str(v) for v in r] for r in out.values.tolist()]}
        except Exception as e:
            return {'error': util.error_class(e) if 'Rbql' in type(e).__name__ or isinstance(e, SyntaxError) else 'other:' + type(e).__name__, 'columns': None, 'rows': None}

    def solo(q, names, rows, bnames, brows, use_b):
        r, w = os.pipe()
        pid = os.fork()
        if pid == 0:
            code = 0
            try:
                os.close(r)
                got = run(q, pd.DataFrame(rows, columns=names), pd.DataFrame(brows, columns=bnames) if use_b else None)
                with os.fdopen(w, 'w') as f:
                    f.write(json.dumps(got))
            except BaseException:
                code = 1
            os._exit(code)
        os.close(w)
        with os.fdopen(r) as f:
            data = f.read()
        os.waitpid(pid, 0)
        return json.loads(data) if data else None

    for n in range(spec['n']):
        w = rng.randrange(2, 5)
        names = rng.sample(pool, w)
        rows = [[rng.choice(['a', 'b', '1', '2', 'x y']) for _ in range(w)] for _ in range(rng.randrange(1, 5))]
        bnames = ['bk', 'bv']
        brows = [[rng.choice(rows)[0], rng.choice(['p', 'q'])] for _ in range(rng.randrange(1, 4))]
        dfa = pd.DataFrame([list(r) for r in rows], columns=list(names))
        dfb = pd.DataFrame([list(r) for r in brows], columns=list(bnames))
        history = []
        for step in range(rng.randrange(3, 7)):
            # the owner changes the frames in place
            op = rng.choice(['none', 'relabel', 'rename', 'add', 'drop', 'cell', 'relabel-b', 'permute']) if step else 'none'
            if op == 'relabel':
                names = rng.sample(pool, len(names))
                dfa.columns = list(names)
            elif op == 'permute' and len(names) > 1:
                names = names[1:] + names[:1]
                dfa.columns = list(names)
            elif op == 'rename':
                j = rng.randrange(len(names))
                new = rng.choice([x for x in pool if x not in names])
                dfa.rename(columns={names[j]: new}, inplace=True)
                names[j] = new
            elif op == 'add' and len(names) < 6:
                new = rng.choice([x for x in pool if x not in names])
                vals = [rng.choice(['n1', 'n2']) for _ in rows]
                dfa[new] = vals
                names.append(new)
                rows = [r + [v] for r, v in zip(rows, vals)]
            elif op == 'drop' and len(names) > 2:
                j = rng.randrange(1, len(names))
                dfa.drop(columns=[names[j]], inplace=True)
                del names[j]
                rows = [r[:j] + r[j + 1:] for r in rows]
            elif op == 'cell':
                i, j = rng.randrange(len(rows)), rng.randrange(len(names))
                dfa.iloc[i, j] = 'changed'
                rows[i][j] = 'changed'
            elif op == 'relabel-b':
                bnames = rng.sample(['bk', 'bv', 'w', 'key', 'name'], 2)
                dfb.columns = list(bnames)
            col = rng.choice(names)
            attr = lambda t, c: '%s.%s' % (t, c) if c.isidentifier() else '%s["%s"]' % (t, c)
            q = rng.choice(['select *', 'select %s, NR' % attr('a', col), 'update a1 = "u"', 'select a1, %s join b on a1 == b1' % attr('b', rng.choice(bnames)), 'select a["%s"]' % col,
                            'select a.nosuch_column', 'select distinct count a1', 'select * except %s' % attr('a', col), 'select a.*, b.* join b on a1 == %s' % attr('b', bnames[0]), 'select a2 as %s, a1' % rng.choice(pool)])
            use_b = ' join ' in q
            got = run(q, dfa, dfb if use_b else None)
            want = solo(q, list(names), [list(r) for r in rows], list(bnames), [list(r) for r in brows], use_b)
            history.append([op, q])
            res.evaluations += 1
            res.count('pandas_history_runs')
            res.count('pandas_history_op:' + op)
            if want is None:
                res.count('pandas_history_solo_unavailable')
                continue
            res.count('pandas_history_solo_results_from_forked_children')
            if want['error']:
                res.count('pandas_history_solo_failing')
            res.nontrivial('pandas-hist', n, step, q, op)
            if got != want:
                res.violation('py:pandas-result-depends-on-history', '[py/pandas] %r over the SAME DataFrame object after history %r (columns now %r) -> %r ; over a newly built equal frame in a fresh child -> %r' % (q, history[:-1], names, got, want),
                              {'leg': 'pandas-history', 'history': history, 'names': names, 'rows': rows})
                break
    res.sample({'leg': 'pandas-history', 'histories': spec['n'], 'in_place_operations': ['relabel', 'permute', 'rename', 'add', 'drop', 'cell', 'relabel-b']})


def leg_frontend_threads(ns, res, spec):
    """The real front-ends side by side: 8 threads run query_csv (four dialects / encodings, with and without JOIN, some failing), query_pandas_dataframe
    and query_sqlite_to_csv over their own files / frames / connections, pre-empted at statement level (sys.monitoring LINE yield injection in the engine, the
    CSV reader / writer, the splitter and the pandas / sqlite adapters); every result must equal the one a forked child that ran nothing else produced."""
    import json
    import shutil
    import sqlite3
    import tempfile
    import pandas as pd
    d = tempfile.mkdtemp(prefix='rv-C16-')
    try:
        files = {
            'comma': (',', 'quoted', 'utf-8', 'id,name\n1,"x,y"\n2,"q""t"\n3,plain\n2,dup\n'),
            'semi_rfc': (';', 'quoted_rfc', 'utf-8', 'id;name\n1;"two\nlines"\n2;"semi;colon"\n3;z\n'),
            'tab': ('\t', 'simple', 'utf-8', 'id\tname\n1\tcaf\u00e9\n2\t\u65e5\u672c\n3\ta b\n'),
            'latin': ('|', 'simple', 'latin-1', 'id|name\n1|caf\u00e9\n2|\u00fcber\n3|\u00ff\n'),
            'multi': ('::', 'quoted', 'utf-8', 'id::name\n1::"a::b"\n2::c\n'),
        }
        for k, (dlm, pol, enc, text) in files.items():
            with open(os.path.join(d, k + '.csv'), 'w', encoding=enc, newline='') as f:
                f.write(text)
            with open(os.path.join(d, k + '_j.csv'), 'w', encoding=enc, newline='') as f:
                f.write(dlm.join(['id', 'word']) + '\n' + ''.join(dlm.join([str(i), 'w%d' % i]) + '\n' for i in (1, 2, 2, 4)))
        db = os.path.join(d, 't.sqlite')
        c0 = sqlite3.connect(db)
        c0.execute('CREATE TABLE t (id TEXT, name TEXT)')
        c0.executemany('INSERT INTO t VALUES (?, ?)', [('1', 'caf\u00e9'), ('2', 'x'), ('3', 'y z')])
        c0.execute('CREATE TABLE b (id TEXT, word TEXT)')
        c0.executemany('INSERT INTO b VALUES (?, ?)', [('1', 'w1'), ('3', 'w3'), ('3', 'w3b')])
        c0.commit()
        c0.close()
        queries = ['select a2, a1', 'select * where a1 != "2"', 'select a.name, NR order by a.id desc', 'update a2 = a2 + "!" + str(NU)', 'select distinct count a1', 'select a1, COUNT(*), MAX(a2) group by a1',
                   'select a1, b2 join %s on a1 == b1', 'select a.name, b.word left join %s on a.id == b.id', 'select int(a2)', 'select a1 +', 'select top 2 a1, UNNEST(a2.split(" "))', 'select a.nosuch']
        tasks = []
        for k in files:
            for qi, q in enumerate(queries):
                tasks.append(('csv', k, qi))
        for qi, q in enumerate(queries):
            tasks.append(('pandas', None, qi))
            tasks.append(('sqlite', None, qi))

        def run_task(task, tag):
            kind, k, qi = task
            q = queries[qi]
            warns = []
            try:
                if kind == 'csv':
                    dlm, pol, enc, _t = files[k]
                    q = q % (k + '_j.csv') if '%s' in q else q
                    outp = os.path.join(d, 'out_%s.csv' % tag)
                    ns.rbql.query_csv(q, os.path.join(d, k + '.csv'), dlm, pol, outp, dlm, pol, enc, warns, True)
                    with open(outp, 'rb') as f:
                        return {'error': None, 'out': f.read().hex(), 'warnings': warns}
                if kind == 'pandas':
                    q = q % 'b' if '%s' in q else q
                    dfa = pd.DataFrame([['1', 'x y'], ['2', 'q'], ['3', 'r'], ['2', 'dup']], columns=['id', 'name'])
                    dfb = pd.DataFrame([['1', 'w1'], ['2', 'w2'], ['2', 'w2b']], columns=['id', 'word'])
                    out = ns.rbql.query_pandas_dataframe(q, dfa, warns, dfb if ' join ' in q else None)
                    return {'error': None, 'out': [[str(c) for c in out.columns]] + [[str(v) for v in r] for r in out.values.tolist()], 'warnings': warns}
                q = q % 'b' if '%s' in q else q
                conn = sqlite3.connect(db)
                try:
                    outp = os.path.join(d, 'out_%s.csv' % tag)
                    ns.sqlite.query_sqlite_to_csv(q, conn, 't', outp, ',', 'quoted_rfc', 'utf-8', warns)
                    with open(outp, 'rb') as f:
                        return {'error': None, 'out': f.read().hex(), 'warnings': warns}
                finally:
                    conn.close()
            except Exception as e:
                return {'error': util.error_class(e) if 'Rbql' in type(e).__name__ or isinstance(e, SyntaxError) else 'other:' + type(e).__name__, 'out': None, 'warnings': None}

        # solo results: one forked child per task, before any thread exists and before this process has run a query
        solo = []
        for ti, task in enumerate(tasks):
            r, w = os.pipe()
            pid = os.fork()
            if pid == 0:
                code = 0
                try:
                    os.close(r)
                    with os.fdopen(w, 'w') as f:
                        f.write(json.dumps(run_task(task, 'solo%d' % ti)))
                except BaseException:
                    code = 1
                os._exit(code)
            os.close(w)
            with os.fdopen(r) as f:
                data = f.read()
            os.waitpid(pid, 0)
            solo.append(json.loads(data) if data else None)
        res.count('frontend_solo_results_from_forked_children', sum(1 for x in solo if x is not None))
        res.count('frontend_solo_failing', sum(1 for x in solo if x and x['error']))
        inj = sched.YieldInjector(spec['seed'] * 13 + spec['shard'], ['rbql_engine.py', 'rbql_csv.py', 'csv_utils.py', 'rbql_pandas.py', 'rbql_sqlite.py'], rate=0.02)
        old = sys.getswitchinterval()
        sys.setswitchinterval(1e-6)
        inj.start()
        errors = []
        lock = threading.Lock()
        nthreads = 8

        def worker(tid):
            rng = random.Random(spec['seed'] * 211 + tid * 17 + spec['shard'])
            for it in range(spec['n']):
                ti = rng.randrange(len(tasks))
                got = run_task(tasks[ti], 't%d' % tid)
                if solo[ti] is not None and got != solo[ti]:
                    with lock:
                        errors.append((tid, ti, got))
        threads = [threading.Thread(target=worker, args=(t,)) for t in range(nthreads)]
        try:
            for t in threads:
                t.start()
            for t in threads:
                t.join()
        finally:
            inj.stop()
            sys.setswitchinterval(old)
        res.evaluations += nthreads * spec['n']
        res.count('frontend_thread_runs', nthreads * spec['n'])
        res.count('frontend_line_events', inj.events)
        res.count('frontend_injected_yields', inj.yields)
        res.nontrivial('frontend-threads', spec['shard'])
        for tid, ti, got in errors[:5]:
            kind, k, qi = tasks[ti]
            res.violation('py:frontend-result-depends-on-other-threads:' + kind, '[py/%s%s] %r in thread %d among %d threads running other front-end queries -> %r ; alone in a forked child -> %r' % (kind, '/' + k if k else '', queries[qi], tid, nthreads, got, solo[ti]),
                          {'leg': 'frontend-threads', 'task': list(tasks[ti]), 'query_text': queries[qi]})
        res.sample({'leg': 'frontend-threads', 'threads': nthreads, 'tasks': len(tasks), 'runs': nthreads * spec['n'], 'line_events': inj.events, 'yields': inj.yields})
    finally:
        shutil.rmtree(d, ignore_errors=True)


def leg_csv_history(ns, res, spec):
    """query_csv histories in ONE process where what a query text denotes depends on its surroundings - the same relative join table name next to input
    files in different directories, a changed working directory, a re-pointed ~/.rbql_table_names, different dialects / encodings / header flags from one
    call to the next.  Every result must equal the one a forked child that ran only that call produces."""
    import json
    import shutil
    import tempfile
    rng = random.Random(spec['seed'] * 2750159 + spec['i'])
    d = tempfile.mkdtemp(prefix='rv-C16-')
    old_cwd, old_home = os.getcwd(), os.environ.get('HOME')
    try:
        home = os.path.join(d, 'home')
        os.mkdir(home)
        os.environ['HOME'] = home
        regions = {'europe': ['Paris', 'Rome', 'Oslo'], 'asia': ['Tokyo', 'Seoul'], 'africa': ['Cairo', 'Accra', 'Lagos', 'Tunis']}
        for reg, cities in regions.items():
            os.mkdir(os.path.join(d, reg))
            with open(os.path.join(d, reg, 'in.csv'), 'w', newline='') as f:
                f.write('id,who\n' + ''.join('k%d,%s%d\n' % (i + 1, reg[:2], i) for i in range(4)))
            with open(os.path.join(d, reg, 'lookup.csv'), 'w', newline='') as f:
                f.write('key,city\n' + ''.join('k%d,%s\n' % (i + 1, c) for i, c in enumerate(cities)))
            with open(os.path.join(d, reg, 'semi.csv'), 'w', newline='', encoding='latin-1') as f:
                f.write('id;who\n' + ''.join('k%d;"%s;\xe9"\n' % (i + 1, reg) for i in range(3)))
        os.mkdir(os.path.join(d, 'elsewhere'))
        with open(os.path.join(d, 'elsewhere', 'named.csv'), 'w', newline='') as f:
            f.write('key,city\nk1,Named1\nk3,Named3\n')
        with open(os.path.join(d, 'elsewhere', 'named2.csv'), 'w', newline='') as f:
            f.write('key,city\nk2,Other2\n')
        calls = []
        for reg in regions:
            inp = os.path.join(d, reg, 'in.csv')
            calls += [
                {'q': 'select a1, b2 left join lookup.csv on a1 == b1', 'inp': inp, 'dlm': ',', 'pol': 'quoted', 'enc': 'utf-8', 'hdr': True, 'cwd': d},
                {'q': 'select a.who, b.city join lookup.csv on a.id == b.key', 'inp': inp, 'dlm': ',', 'pol': 'quoted', 'enc': 'utf-8', 'hdr': True, 'cwd': os.path.join(d, 'elsewhere')},
                {'q': 'select a1, b2 join lookup.csv on a1 == b1', 'inp': inp, 'dlm': ',', 'pol': 'quoted', 'enc': 'utf-8', 'hdr': False, 'cwd': d},
                {'q': 'select a1, b2 left join mytable on a1 == b1', 'inp': inp, 'dlm': ',', 'pol': 'quoted', 'enc': 'utf-8', 'hdr': True, 'cwd': d, 'names': 'named.csv'},
                {'q': 'select a1, b2 left join mytable on a1 == b1', 'inp': inp, 'dlm': ',', 'pol': 'quoted', 'enc': 'utf-8', 'hdr': True, 'cwd': d, 'names': 'named2.csv'},
                {'q': 'select a2, a1', 'inp': os.path.join(d, reg, 'semi.csv'), 'dlm': ';', 'pol': 'quoted', 'enc': 'latin-1', 'hdr': True, 'cwd': d},
                {'q': 'select a1, b2 join nosuch.csv on a1 == b1', 'inp': inp, 'dlm': ',', 'pol': 'quoted', 'enc': 'utf-8', 'hdr': True, 'cwd': d},
                {'q': 'select a1, int(a2)', 'inp': inp, 'dlm': ',', 'pol': 'simple', 'enc': 'utf-8', 'hdr': True, 'cwd': d},
            ]
        # a relative input path: the working directory decides which file it is
        for reg in regions:
            calls.append({'q': 'select a2, b.city join lookup.csv on a1 == b1', 'inp': 'in.csv', 'dlm': ',', 'pol': 'quoted', 'enc': 'utf-8', 'hdr': True, 'cwd': os.path.join(d, reg)})

        def run(c, tag):
            os.chdir(c['cwd'])
            names_file = os.path.join(home, '.rbql_table_names')
            if c.get('names'):
                with open(names_file, 'w') as f:
                    f.write('mytable\t%s\n' % os.path.join(d, 'elsewhere', c['names']))
            elif os.path.exists(names_file):
                os.unlink(names_file)
            outp = os.path.join(d, 'out_%s.csv' % tag)
            if os.path.exists(outp):
                os.unlink(outp)
            warns = []
            try:
                ns.rbql.query_csv(c['q'], c['inp'], c['dlm'], c['pol'], outp, c['dlm'], c['pol'], c['enc'], warns, c['hdr'])
                with open(outp, 'rb') as f:
                    return {'error': None, 'out': f.read().hex(), 'warnings': warns}
            except Exception as e:
                return {'error': util.error_class(e) if 'Rbql' in type(e).__name__ or isinstance(e, SyntaxError) else 'other:' + type(e).__name__, 'out': None, 'warnings': None}
            finally:
                os.chdir(d)

        solo = []
        for ci, c in enumerate(calls):
            r, w = os.pipe()
            pid = os.fork()
            if pid == 0:
                code = 0
                try:
                    os.close(r)
                    with os.fdopen(w, 'w') as f:
                        f.write(json.dumps(run(c, 'solo%d' % ci)))
                except BaseException:
                    code = 1
                os._exit(code)
            os.close(w)
            with os.fdopen(r) as f:
                data = f.read()
            os.waitpid(pid, 0)
            solo.append(json.loads(data) if data else None)
        res.count('csv_history_solo_results_from_forked_children', sum(1 for x in solo if x is not None))
        res.count('csv_history_solo_failing', sum(1 for x in solo if x and x['error']))
        for h in range(spec['n']):
            order = [rng.randrange(len(calls)) for _ in range(rng.randrange(3, 9))]
            hist = []
            for ci in order:
                got = run(calls[ci], 'hist')
                hist.append(ci)
                res.evaluations += 1
                res.count('csv_history_runs')
                res.nontrivial('csv-hist', tuple(hist))
                if solo[ci] is not None and got != solo[ci]:
                    show = lambda x: dict(x, out=bytes.fromhex(x['out']).decode('latin-1')[:200] if x.get('out') else None)
                    res.violation('py:csv-result-depends-on-history', '[py/query_csv] %r over %s (cwd %s, header %s) after the history %r -> %r ; alone in a forked child -> %r' % (
                        calls[ci]['q'], calls[ci]['inp'].replace(d, '<tmp>'), calls[ci]['cwd'].replace(d, '<tmp>'), calls[ci]['hdr'], [(calls[j]['q'], calls[j]['inp'].replace(d, '<tmp>')) for j in hist[:-1]][-3:], show(got), show(solo[ci])),
                        {'leg': 'csv-history', 'history': [dict(calls[j], inp=calls[j]['inp'].replace(d, '<tmp>'), cwd=calls[j]['cwd'].replace(d, '<tmp>')) for j in hist]})
                    break
        res.sample({'leg': 'csv-history', 'calls': len(calls), 'histories': spec['n']})
    finally:
        os.chdir(old_cwd)
        if old_home is None:
            os.environ.pop('HOME', None)
        else:
            os.environ['HOME'] = old_home
        shutil.rmtree(d, ignore_errors=True)


def leg_shared_table_history(ns, res, spec):
    """ONE list table object (typed cells: numbers, None, strings that a CSV sink has to quote) and one join table serve a whole history of queries through
    different sinks (CSV writer quoted / simple, list writer) - what an application holding its data in memory does.  Each result must equal the result of
    the same call over a fresh copy of the original tables in a forked child."""
    import io
    import json
    rng = random.Random(spec['seed'] * 3571 + spec['i'])
    queries = ['select *', 'select * where a1 is not None', 'select top 2 *', 'select * order by a2', 'select distinct *', 'select a.*', 'select a1, a2', 'select *, a1', 'update a2 = a2', 'update a1 = 7 where NR == 1',
               'select * join b on a1 == b1', 'select b.* join b on a1 == b1', 'select a2, b2 left join b on a1 == b1', 'select a1, ARRAY_AGG(a2) group by a1', 'select * except a1', 'select int(a2) + 1', 'select a1 +',
               'select distinct count a2', 'select a3, a1 order by a3 desc', 'select MAX(a1), MIN(a3)']

    def run(q, A, B, sink, reg=None):
        warns = []
        try:
            it = ns.engine.TableIterator(A, None)
            if reg is None:
                reg = ns.engine.ListTableRegistry([ns.engine.ListTableInfo('b', B, None), ns.engine.ListTableInfo('B', B, None)])
            if sink == 'list':
                out = []
                ns.rbql.query(q, it, ns.engine.TableWriter(out), warns, reg)
                return {'error': None, 'out': [[repr(v) for v in r] for r in out], 'warnings': warns}
            buf = io.StringIO(newline='')
            pol, dlm = {'csv-quoted': ('quoted', ','), 'csv-rfc': ('quoted_rfc', ';'), 'csv-simple': ('simple', '\t')}[sink]
            ns.rbql.query(q, it, ns.csv.CSVWriter(buf, False, None, dlm, pol), warns, reg)
            return {'error': None, 'out': buf.getvalue(), 'warnings': warns}
        except Exception as e:
            return {'error': util.error_class(e) if 'Rbql' in type(e).__name__ or isinstance(e, SyntaxError) else 'other:' + type(e).__name__, 'out': None, 'warnings': None}

    def solo(q, A, B, sink):
        r, w = os.pipe()
        pid = os.fork()
        if pid == 0:
            code = 0
            try:
                os.close(r)
                with os.fdopen(w, 'w') as f:
                    f.write(json.dumps(run(q, A, B, sink)))
            except BaseException:
                code = 1
            os._exit(code)
        os.close(w)
        with os.fdopen(r) as f:
            data = f.read()
        os.waitpid(pid, 0)
        return json.loads(data) if data else None

    for h in range(spec['n']):
        A0 = [[rng.choice([1, 2, None, 10]), rng.choice([3, 0.5, 'x,y', 'q"t', None, '7']), rng.choice(['p', 'a b', 'multi\nline', ''])] for _ in range(rng.randrange(1, 6))]
        B0 = [[rng.choice([1, 2, 10]), rng.choice(['J', 'k,l', None, 5])] for _ in range(rng.randrange(1, 4))]
        A, B = [list(r) for r in A0], [list(r) for r in B0]
        hist = []
        # every second history: the application also keeps ONE registry object for its tables and hands it to every query
        shared_reg = ns.engine.ListTableRegistry([ns.engine.ListTableInfo('b', B, None), ns.engine.ListTableInfo('B', B, None)]) if h % 2 == 0 else None
        for step in range(rng.randrange(3, 8)):
            q, sink = rng.choice(queries), rng.choice(['list', 'csv-quoted', 'csv-rfc', 'csv-simple', 'csv-quoted'])
            if shared_reg is not None and step % 2 == 1:
                q = rng.choice([x for x in queries if ' join ' in x])
            want = solo(q, [list(r) for r in A0], [list(r) for r in B0], sink)
            got = run(q, A, B, sink, shared_reg)
            if shared_reg is not None:
                res.count('shared_registry_history_runs')
            hist.append([q, sink])
            res.evaluations += 1
            res.count('shared_table_history_runs')
            res.count('shared_table_history_sink:' + sink)
            res.nontrivial('shared-table', h, step, q, sink)
            if want is None:
                continue
            res.count('shared_table_solo_results_from_forked_children')
            if got != want:
                res.violation('py:shared-table-result-depends-on-history', '[py] %r (sink %s) over the application\'s table object after the history %r -> %r ; over a fresh copy of the original table %r in a forked child -> %r (the shared table now reads %r)' % (
                    q, sink, hist[:-1], got, A0, want, A), {'leg': 'shared-table-history', 'history': hist, 'A': [[repr(v) for v in r] for r in A0], 'B': [[repr(v) for v in r] for r in B0]})
                break
    res.sample({'leg': 'shared-table-history', 'histories': spec['n'], 'queries': len(queries), 'sinks': ['list', 'csv-quoted', 'csv-rfc', 'csv-simple']})


def leg_preempt(ns, res, spec):
    """8 threads x N queries with a tiny switch interval and seeded sleep(0) injected between statements of the engine and the generated loop."""
    R = spec['R']
    solo = spec['solo']
    inj = sched.YieldInjector(spec['seed'] * 7 + spec['shard'], ['rbql_engine.py'], rate=0.03)
    old = sys.getswitchinterval()
    sys.setswitchinterval(1e-6)
    started = inj.start()
    if not started:
        res.notes.append('sys.monitoring unavailable: preemption stress runs with the switch interval only')
    errors = []
    lock = threading.Lock()

    def worker(tid):
        rng = random.Random(spec['seed'] * 101 + tid)
        for _ in range(spec['n']):
            idx = rng.randrange(len(SCENARIOS))
            got = observe(ns, idx, R)
            if got != {k: v for k, v in solo[idx].items() if not k.startswith('_')}:
                with lock:
                    errors.append((tid, idx, got))
    threads = [threading.Thread(target=worker, args=(t,)) for t in range(8)]
    try:
        for t in threads:
            t.start()
        for t in threads:
            t.join()
    finally:
        inj.stop()
        sys.setswitchinterval(old)
    res.evaluations += 8 * spec['n']
    res.count('preemption_runs', 8 * spec['n'])
    res.count('line_events', inj.events)
    res.count('line_events_in_main_loop', inj.events_main_loop)
    res.count('injected_yields', inj.yields)
    res.nontrivial('preempt', spec['shard'])
    for tid, idx, got in errors[:5]:
        compare_with_solo(res, idx, got, solo[idx], 'preempted:thread %d among 8 threads' % tid, {'leg': 'preempt', 'scenario': idx, 'R': R})
    res.sample({'leg': 'preempt', 'threads': 8, 'queries_per_thread': spec['n'], 'line_events': inj.events, 'yields': inj.yields})


def balanced(pairs, solo, kinds, nbins):
    """Longest-processing-time assignment of pairs to shards: a pair costs C(n1 + n2, n1) schedules."""
    import math
    steps = [sum(o['_steps'][k] for k in kinds) for o in solo]
    cost = lambda p: math.comb(steps[p[0]] + steps[p[1]], steps[p[0]])
    bins = [[0, []] for _ in range(nbins)]
    for p in sorted(pairs, key=cost, reverse=True):
        b = min(bins, key=lambda x: x[0])
        b[0] += cost(p)
        b[1].append(p)
    return [b[1] for b in bins if b[1]], sum(cost(p) for p in pairs)


def plan(tier, seed):
    n = len(SCENARIOS)
    pairs = [(i, j) for i in range(n) for j in range(i, n)]
    specs = []
    solo2 = fresh_baselines(2)
    solo3 = fresh_baselines(3)
    if tier == 'quick':
        kinds = ['get_record', 'write']
        groups, _total = balanced(pairs, solo2, kinds, 28)
        for g in groups:
            specs.append({'kind': 'interleave', 'R': 2, 'solo': solo2, 'pairs': g, 'step_kinds': kinds})
        for s in range(2):
            specs.append({'kind': 'history', 'R': 3, 'solo': solo3, 'k': 2, 'i': s, 'random_sequences': 150})
        specs.append({'kind': 'preempt', 'R': 3, 'solo': solo3, 'n': 60})
        specs += [{'kind': 'generated', 'i': i, 'n': 60, 'pairs': 40, 'schedules': 3} for i in range(4)]
        specs += [{'kind': 'js-history', 'i': i, 'n': 40} for i in range(4)]
        specs += [{'kind': 'js-csv-history', 'i': i, 'n': 30} for i in range(2)]
        specs.append({'kind': 'fs-registry', 'max_schedules': 300})
        specs.append({'kind': 'sqlite-history'})
        specs.append({'kind': 'module-history'})
        specs += [{'kind': 'pandas-history', 'i': i, 'n': 40} for i in range(2)]
        specs += [{'kind': 'frontend-threads', 'n': 25} for i in range(2)]
        specs += [{'kind': 'csv-history', 'i': i, 'n': 60} for i in range(2)]
        specs += [{'kind': 'shared-table-history', 'i': i, 'n': 40} for i in range(2)]
    else:
        solo4 = fresh_baselines(4)
        kinds = ['get_record', 'write', 'finish']
        groups, _t = balanced(pairs, solo2, kinds, 16)
        for g in groups:
            specs.append({'kind': 'interleave', 'R': 2, 'solo': solo2, 'pairs': g, 'step_kinds': kinds})
        groups, _t = balanced(pairs, solo3, ['get_record', 'write'], 48)
        for g in groups:
            specs.append({'kind': 'interleave', 'R': 3, 'solo': solo3, 'pairs': g, 'step_kinds': ['get_record', 'write'], 'max_schedules': 30000})
        for p in [(0, 5), (3, 8), (5, 7), (2, 11), (4, 13), (8, 8)]:
            specs.append({'kind': 'interleave', 'R': 4, 'solo': solo4, 'pairs': [p], 'step_kinds': ['get_record', 'write'], 'max_schedules': 200000})
        for s in range(4):
            specs.append({'kind': 'history', 'R': 4, 'solo': solo4, 'k': 4, 'i': s, 'random_sequences': 1500})
        for s in range(4):
            specs.append({'kind': 'preempt', 'R': 4, 'solo': solo4, 'n': 200})
        specs += [{'kind': 'generated', 'i': i, 'n': 400, 'pairs': 400, 'schedules': 6} for i in range(12)]
        specs += [{'kind': 'js-history', 'i': i, 'n': 200} for i in range(8)]
        specs += [{'kind': 'js-csv-history', 'i': i, 'n': 120} for i in range(4)]
        specs.append({'kind': 'fs-registry', 'max_schedules': 5000})
        specs.append({'kind': 'sqlite-history'})
        specs.append({'kind': 'module-history'})
        specs += [{'kind': 'pandas-history', 'i': i, 'n': 300} for i in range(6)]
        specs += [{'kind': 'frontend-threads', 'n': 150} for i in range(8)]
        specs += [{'kind': 'csv-history', 'i': i, 'n': 600} for i in range(6)]
        specs += [{'kind': 'shared-table-history', 'i': i, 'n': 400} for i in range(6)]
    return specs


def leg_js_csv_history(ns, res, spec):
    """The JS CSV front-end, sequentially in one node process: files with multi-byte characters streamed in chunks that arrive on separate event-loop turns
    and end inside a character, read by queries that stop early (TOP / LIMIT), fail (runtime, parsing) or run to the end - each result against the
    same request alone in a fresh node process."""
    from ..js import bridge
    rng = random.Random(spec['seed'] * 49979687 + spec['i'])
    texts = ['é,1\nü,2\n€,3\n😀,4\n', 'a,é\nb,€€\nc,😀\nd,x\n', 'k,"é\n€"\n😀😀,2\n€,3\n', 'ß,ß\nßß,ßß\nßßß,€\n']
    queries = ['select top 1 a1', 'select a1, a2', 'select a2 limit 2', 'select a1.nosuch.length', 'select a1 where a2 = 1', 'select NR, a1 order by a2', 'select top 1 a2 where NR > 1', 'select a1, a2 limit 0',
               'select distinct a2', 'update a1 = a2 + "!"']
    reqs = []
    for _ in range(spec['n']):
        data = rng.choice(texts).encode('utf-8')
        first_nl = data.index(b'\n')
        inside = [p_ for p_ in range(first_nl + 1, len(data)) if 0x80 <= data[p_] <= 0xbf]     # cut positions that fall inside a multi-byte character, behind the first record
        pos = rng.choice(inside)
        chunks = [pos, len(data) - pos] if rng.random() < 0.7 else [pos, 1, len(data) - pos - 1]
        reqs.append({'bytes_hex': data.hex(), 'chunks': [c for c in chunks if c > 0], 'async_delivery': True, 'encoding': 'utf-8', 'delim': ',', 'policy': rng.choice(['quoted', 'quoted_rfc']), 'has_header': False,
                     'comment_prefix': None, 'query': rng.choice(queries), 'out_delim': ',', 'out_policy': 'quoted'})
    key = lambda o: json.dumps({'out': o['bytes_hex'], 'warnings': sorted(o['warnings']), 'error': o['error'] and [o['error']['cls'], o['error']['msg'][:80]]}, sort_keys=True)
    solo = []
    for r in reqs:
        node = bridge.Node.start()
        if node is None:
            res.notes.append('js csv history leg: unavailable (no node)')
            return
        try:
            solo.append(key(node.call({'op': 'query_csv_text_batch', 'cases': [r]})['results'][0]))
        finally:
            node.close()
    node = bridge.Node.start()
    try:
        for p_ in range(3):
            order = list(range(len(reqs)))
            rng.shuffle(order)
            outs = node.call({'op': 'query_csv_text_batch', 'cases': [reqs[i] for i in order]})['results']
            for pos, (i, o) in enumerate(zip(order, outs)):
                res.evaluations += 1
                res.count('js_csv_history_runs')
                res.nontrivial('js-csv-hist', reqs[i]['query'], reqs[i]['bytes_hex'], tuple(reqs[i]['chunks']), p_)
                if key(o) != solo[i]:
                    prev = [reqs[j]['query'] for j in order[max(0, pos - 3):pos]]
                    res.violation('js:csv-history-differs-from-fresh-process', '[js] %s over %r in chunks %r after %d other queries (last: %r) -> %s ; alone in a fresh node process -> %s' % (
                        reqs[i]['query'], bytes.fromhex(reqs[i]['bytes_hex']), reqs[i]['chunks'], pos, prev, key(o)[:300], solo[i][:300]), {'leg': 'js-csv-history', 'requests': [reqs[j] for j in order[:pos + 1]][-6:]})
        noise = node.take_noise()
        if noise:
            res.violation('js:csv-history-async-noise', 'unhandled rejection / uncaught exception in node during the history: %r' % (noise[:3],), {'leg': 'js-csv-history', 'noise': noise[:3]})
    finally:
        node.close()
    res.sample({'leg': 'js-csv-history', 'cases': len(reqs), 'example': {k: v for k, v in reqs[0].items() if k in ('query', 'chunks', 'policy')}})


def leg_fs_registry_interleave(ns, res, spec):
    """Two CSV queries that each JOIN a file of their own through ONE FileSystemCSVRegistry object kept by the application, under every interleaving of
    their join-table and input reads: each result as when the query runs alone with a registry of its own."""
    import io
    import shutil
    import tempfile
    d = tempfile.mkdtemp(prefix='rv-c16-')
    tl = threading.local()
    try:
        for k in (1, 2):
            with open(os.path.join(d, 'in_%d.csv' % k), 'w', newline='') as f:
                f.write(''.join('k%d,x%d%d\n' % (i, k, i) for i in range(3)))
            with open(os.path.join(d, 'jn_%d.csv' % k), 'w', newline='') as f:
                f.write(''.join('k%d,y%d%d\n' % (i % 2, k, i) for i in range(3)))

        class SteppingRegistry(ns.csv.FileSystemCSVRegistry):
            def get_iterator_by_table_id(self, table_id, single_char_alias):
                it = ns.csv.FileSystemCSVRegistry.get_iterator_by_table_id(self, table_id, single_char_alias)
                orig = it.get_record

                def get_record():
                    st = getattr(tl, 'step', None)
                    if st is not None:
                        st(getattr(tl, 'who', ''), 'get_record')
                    return orig()
                it.get_record = get_record
                return it

        def run(k, reg, step=None, who=''):
            tl.step, tl.who = step, who
            out, warns = [], []
            try:
                with open(os.path.join(d, 'in_%d.csv' % k), 'rb') as f:
                    it = ns.csv.CSVRecordIterator(f, 'utf-8', ',', 'quoted')
                    ns.rbql.query('select a1, a2, b2, bNR join jn_%d.csv on a1 == b1' % k, it, ns.engine.TableWriter(out), warns, reg)
                return {'rows': out, 'warnings': warns, 'error': None}
            except Exception as e:
                return {'rows': out, 'warnings': warns, 'error': '%s: %s' % (type(e).__name__, str(e)[:80])}
            finally:
                tl.step = None

        def fresh_registry():
            return SteppingRegistry(d, ',', 'quoted', 'utf-8', False, None)
        solo = {}
        for k in (1, 2):
            reg = fresh_registry()
            solo[k] = run(k, reg)
            reg.finish()
        holder = {}

        def make_bodies():
            holder['reg'] = fresh_registry()
            return [lambda step: run(1, holder['reg'], step, '1'), lambda step: run(2, holder['reg'], step, '2')]
        bad = [0]

        def on_run(s, results, excs):
            res.evaluations += 1
            res.count('fs_registry_schedules')
            try:
                holder['reg'].finish()
            except Exception:
                pass
            if s.blocked is not None:
                res.violation('py:shared-fs-registry-interleaving-never-completes', '[py] schedule %s cannot complete: %s' % (''.join(str(t + 1) for t in s.trace), s.blocked), {'leg': 'fs-registry', 'schedule': s.trace})
                return False
            for tid, k in ((0, 1), (1, 2)):
                got = results[tid] if excs[tid] is None else {'error': repr(excs[tid])}
                if got != solo[k] and bad[0] < 3:
                    bad[0] += 1
                    res.violation('py:shared-fs-registry-result-depends-on-interleaving', '[py] two CSV JOIN queries through one FileSystemCSVRegistry under schedule %s: query %d -> %r ; alone -> %r' % (
                        ''.join(str(t + 1) for t in s.trace), k, got, solo[k]), {'leg': 'fs-registry', 'schedule': s.trace, 'query': k})
        # the same registry object across a HISTORY of queries, some of which carry a WITH modifier, name their input by FROM, or fail: whatever a query
        # configured is its own affair
        def run_text(q, reg, with_input):
            out, warns = [], []
            try:
                if with_input:
                    with open(os.path.join(d, 'in_1.csv'), 'rb') as f:
                        ns.rbql.query(q, ns.csv.CSVRecordIterator(f, 'utf-8', ',', 'quoted'), ns.engine.TableWriter(out), warns, reg)
                else:
                    ns.rbql.query(q, None, ns.engine.TableWriter(out), warns, reg)
                return {'rows': out, 'warnings': warns, 'error': None}
            except Exception as e:
                return {'rows': out, 'warnings': warns, 'error': '%s: %s' % (type(e).__name__, str(e)[:80])}
        HIST = [('select a1, a2 from in_1.csv WITH (header)', False), ('select a1, b2 join jn_2.csv on a1 == b1', True), ('select a1 from in_2.csv', False), ('select a1, b2 join jn_1.csv on a1 == b1 WITH (noheader)', True),
                ('select a1 + from in_1.csv WITH (header)', False), ('select a1, b.k0 join jn_1.csv on a1 == b1 WITH (header)', True), ('select NR, a1 from jn_1.csv', False), ('select int(a2) from in_1.csv with (header)', False)]
        solo_h = []
        for q, wi in HIST:
            reg = fresh_registry()
            solo_h.append(run_text(q, reg, wi))
            try:
                reg.finish()
            except Exception:
                pass
        hrng = random.Random(spec['seed'] * 7 + 1)
        for _h in range(12):
            reg = fresh_registry()
            order = list(range(len(HIST)))
            hrng.shuffle(order)
            for pos, i in enumerate(order):
                got = run_text(HIST[i][0], reg, HIST[i][1])
                res.evaluations += 1
                res.count('fs_registry_history_runs')
                if got != solo_h[i]:
                    res.violation('py:shared-fs-registry-result-depends-on-history', '[py] %r through a FileSystemCSVRegistry that served %r before -> %r ; with a registry of its own -> %r' % (
                        HIST[i][0], [HIST[j][0] for j in order[:pos]][-3:], got, solo_h[i]), {'leg': 'fs-registry-history', 'order': order[:pos + 1]})
                    break
            try:
                reg.finish()
            except Exception:
                pass
        count, traces, complete = sched.explore(make_bodies, on_run, spec.get('max_schedules', 400))
        res.count('fs_registry_distinct_traces', traces)
        res.distinct_disjoint += traces
        res.sample({'leg': 'fs-registry', 'schedules': count, 'distinct_traces': traces, 'complete': complete, 'solo': solo[1]})
    finally:
        shutil.rmtree(d, ignore_errors=True)


def run_shard(spec, res):
    ns = env.import_rbql()
    {'module-history': leg_module_history, 'fs-registry': leg_fs_registry_interleave, 'js-csv-history': leg_js_csv_history, 'history': leg_history, 'interleave': leg_interleave, 'preempt': leg_preempt, 'generated': leg_generated, 'js-history': leg_js_history, 'sqlite-history': leg_sqlite_history, 'pandas-history': leg_pandas_history, 'frontend-threads': leg_frontend_threads, 'csv-history': leg_csv_history, 'shared-table-history': leg_shared_table_history}[spec['kind']](ns, res, spec)


def summarize(tier, seed, m):
    return {
        'rule': '%d scenarios (plain select, like, UNNEST, ORDER BY, DISTINCT COUNT, GROUP BY with all nine aggregates, JOIN, UPDATE with NU, TOP, syntax error, parsing error, runtime error at record 2, aggregate misuse, double UNNEST, and two pairs of identical query texts over differently ordered headers); solo results from one fresh interpreter per scenario; history: every sequence of length <= 2 plus random sequences of length 3..6 in one process; interleaving: every unordered pair of scenarios (incl. a scenario with itself) in two real threads under the cooperative scheduler, ALL interleavings of the get_record / write / finish steps enumerated by stateless DFS (%s); preemption stress with sys.monitoring LINE yield injection; generated queries (C01-C05 generators, failing variants, and header twins: the same query text over the same data with the columns in another order) whose solo results come from forked children of a query-free interpreter, together with a state-reading query (its result is interpreter-wide state: int/str digit limit, recursion limit, switch interval, decimal precision, locale, encodings, buffer size, TZ, csv field limit) three queries whose user init code keeps module-level state (a counter, a memo; each twice), and nine stress queries (5000-digit integers written before a failure, 200000-character cells, 3000-column records, float overflow), then run in three shuffled orders through one interpreter (probe sink and CSV writer sink) and pairwise in two threads under seeded random schedules; the JS port sequentially: generated language-neutral queries alone in a fresh node process each vs three shuffled histories (with failing queries interspersed) in one node process; the sqlite front-end with one connection shared by every ordered pair of 15 queries (utf-8 / latin-1 output, 7 of them failing) vs a fresh connection each, and the caller\'s connection settings before / after; the pandas front-end with ONE DataFrame object (and one join frame) serving histories of 3-6 queries while its owner re-labels, permutes, renames, adds, drops and overwrites columns in place between them, each result compared with the same query over a newly built equal frame in a forked child that ran no query; query_csv histories of 3-8 calls where the meaning of a query text depends on its surroundings (the same relative join table name next to inputs in three directories, a relative input path under a changing working directory, a ~/.rbql_table_names entry re-pointed between calls, dialect / encoding / header flag changing from call to call, failing calls in between), against forked-child baselines; histories of 3-7 queries over ONE list table object with typed cells (numbers, None, strings a CSV sink must quote) and one join table through list and CSV sinks, against fresh copies in forked children; the front-ends side by side: 8 threads running query_csv (five dialects / encodings, JOIN files, failing queries), query_pandas_dataframe and query_sqlite_to_csv under statement-level yield injection in the engine, CSV reader / writer, splitter and adapters, each result compared with a forked child that ran only that task. distinct_nontrivial = distinct step traces realised + distinct history sequences.' % (
            len(SCENARIOS), '2-record tables' if tier == 'quick' else '2- and 3-record tables for all pairs (3-record pairs capped at 20000 schedules), 4-record tables for 6 selected pairs'),
        'exhaustive': m['counters'].get('pairs_truncated', 0) == 0,
        'required': ['module_history_comparisons', 'js_csv_history_runs', 'fs_registry_schedules', 'fs_registry_history_runs', 'shared_registry_history_runs', 'shared_table_history_runs', 'shared_table_solo_results_from_forked_children', 'shared_table_history_sink:csv-quoted', 'shared_table_history_sink:list', 'csv_history_runs', 'csv_history_solo_results_from_forked_children', 'csv_history_solo_failing', 'environment_reader_and_stressor_cases', 'frontend_thread_runs', 'frontend_solo_results_from_forked_children', 'frontend_solo_failing', 'frontend_injected_yields', 'pandas_history_runs', 'pandas_history_solo_results_from_forked_children', 'pandas_history_solo_failing', 'pandas_history_op:relabel', 'pandas_history_op:add', 'sqlite_history_runs', 'sqlite_history_solo_failing', 'js_solo_results_from_fresh_node_processes', 'js_history_runs', 'generated_solo_results', 'generated_header_twins', 'generated_history_runs', 'generated_interleaved_schedules', 'generated_interleaved_handoffs', 'schedules', 'pairs_enumerated_completely', 'handoffs', 'history_runs', 'preemption_runs', 'line_events_in_main_loop', 'injected_yields'],
        'assumptions': ['exhaustive at the granularity of iterator / writer calls (what the statement names); statement-level preemption is sampled; bytecode-level is not explored', 'a change of module-level state alone is not a refutation (advisory notes only)'],
    }


def replay(case, res):
    ns = env.import_rbql()
    R = case['R']
    solo = fresh_baselines(R)
    if case.get('leg') == 'interleave':
        i, j = case['pair']

        kinds = tuple(case.get('step_kinds', ['get_record', 'write', 'finish']))

        def body(idx, who):
            return lambda step: observe(ns, idx, R, on_step=(lambda w, op: step(w, op) if op in kinds else None), who=who)
        s, results, excs = sched.run_schedule([body(i, '1'), body(j, '2')], case['schedule'])
        res.evaluations += 1
        if s.blocked is not None:
            res.violation('py:interleaving-never-completes:replay', '[py] the schedule cannot complete: %s' % s.blocked, case)
            return
        for tid, idx in ((0, i), (1, j)):
            compare_with_solo(res, idx, results[tid], solo[idx], 'interleaved:replay', case)
    elif case.get('leg') == 'history':
        for pos, idx in enumerate(case['sequence']):
            got = observe(ns, idx, R)
            res.evaluations += 1
            compare_with_solo(res, idx, got, solo[idx], 'history:replay', case)


if __name__ == '__main__':
    if sys.argv[1:2] == ['--solo-server']:
        solo_server_main()
    else:
        solo_main(sys.argv[1:])
