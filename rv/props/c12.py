"""C12 - CSV reading depends only on content, never on how the stream is chunked.

Differential monitor: the real CSVRecordIterator fed by an injected stream that delivers prescribed pieces
(short reads, exactly like a pipe) must observe the same (records, header, warnings, error class) as when the
content arrives in one piece; the whole-read result is additionally compared with rv.model.refcsv.read_text
(line-ending, comment, multi-line, BOM rules).  Byte-level partitions go through a RawIOBase whose readinto returns
the pieces, decoded by the reader's own TextIOWrapper.
"""
import io
import json
import os
import random

from .. import env, util
from ..gen import enum
from ..model import refcsv

PROPERTY = 'C12'
LEVEL = 'exploration'

ALPHABET = ['a', '"', ',', '\n', '\r', '#', ' ']
POLICIES = ['simple', 'quoted', 'quoted_rfc']
NSHARDS = {'quick': 32, 'thorough': 96}
# (max text length, configs) : all partitions are enumerated for every text up to that length
FULL_LEN = {'quick': 5, 'thorough': 6}       # all 12 configurations (policy x comment prefix x header)
EXTRA_LEN = {'quick': 6, 'thorough': 7}      # header off only (6 configurations)


class PieceText(object):
    """Text stream whose read(n) returns the next prescribed piece truncated to n (a short-reading pipe)."""
    __slots__ = ('pieces', 'i', 'rest', 'log')

    def __init__(self, pieces, log=None):
        self.pieces = pieces
        self.i = 0
        self.rest = ''
        self.log = log

    def read(self, n=-1):
        if self.rest:
            p = self.rest
            self.rest = ''
        elif self.i < len(self.pieces):
            p = self.pieces[self.i]
            self.i += 1
        else:
            p = ''
        if n is not None and 0 <= n < len(p):
            self.rest = p[n:]
            p = p[:n]
        if self.log is not None:
            self.log.append((n, len(p)))
        return p


class PieceRaw(io.RawIOBase):
    """Raw byte stream whose readinto returns the prescribed pieces."""

    def __init__(self, pieces, log=None):
        io.RawIOBase.__init__(self)
        self.pieces = list(pieces)
        self.rest = b''
        self.log = log

    def readable(self):
        return True

    def readinto(self, b):
        if self.rest:
            p = self.rest
            self.rest = b''
        elif self.pieces:
            p = self.pieces.pop(0)
        else:
            return 0
        n = len(b)
        if len(p) > n:
            self.rest = p[n:]
            p = p[:n]
        b[:len(p)] = p
        if self.log is not None:
            self.log.append((n, len(p)))
        return len(p)


def observe(ns, stream, encoding, dlm, policy, has_header, comment_prefix, chunk_size):
    """-> (records, header, warnings, error class)"""
    try:
        it = ns.csv.CSVRecordIterator(stream, encoding, dlm, policy, has_header, comment_prefix=comment_prefix, chunk_size=chunk_size)
        recs = it.get_all_records()
        return (recs, it.get_header(), it.get_warnings(), None)
    except Exception as e:
        return (None, None, None, util.error_class(e))


def cut(text, lens):
    out = []
    pos = 0
    for n in lens:
        out.append(text[pos:pos + n])
        pos += n
    return out


CONFIGS_FULL = [(p, c, h) for p in POLICIES for c in (None, '#') for h in (False, True)]
CONFIGS_NOHDR = [(p, c, False) for p in POLICIES for c in (None, '#')]
CONFIGS_NOHDR_QUICK = [('quoted_rfc', None, False), ('quoted_rfc', '#', False), ('quoted', None, False), ('simple', '#', False)]


def check_against_reference(res, text, cfg, whole, encoding=None, dlm=','):
    policy, comment, header = cfg
    ref = refcsv.read_text(text, dlm, policy, encoding, header, comment)
    res.count('reference_comparisons')
    recs, hdr, warns, err = whole
    case = {'text': text, 'policy': policy, 'comment': comment, 'header': header, 'encoding': encoding, 'mode': 'reference'}
    if ref.io_error:
        if err != 'io':
            res.violation('ref-rfc-malformed-not-io', 'whole read of %r (%s): reference says IO-handling error, got records=%r error=%r' % (text, cfg, recs, err), case)
        return
    if err is not None:
        res.violation('ref-unexpected-error', 'whole read of %r (%s) raised %s, reference records %r' % (text, cfg, err, ref.records), case)
        return
    if recs != ref.records or hdr != ref.header:
        res.violation('ref-records', 'whole read of %r (%s) -> records %r header %r, reference %r / %r' % (text, cfg, recs, hdr, ref.records, ref.header), case)
    elif util.warning_kinds(warns) != ref.warning_kinds():
        res.violation('ref-warnings', 'whole read of %r (%s) -> warnings %r, reference kinds %r' % (text, cfg, warns, ref.warning_kinds()), case)


def run_text(ns, res, text, configs, parts_by_len, rng, sample_every):
    n = len(text)
    nontrivial = ('\n' in text or '\r' in text or '"' in text)
    for cfg in configs:
        policy, comment, header = cfg
        whole = observe(ns, PieceText([text]), None, ',', policy, header, comment, n + 1)
        res.evaluations += 1
        check_against_reference(res, text, cfg, whole)
        if nontrivial:
            res.distinct_disjoint += 1
        if n == 0:
            continue
        for lens in parts_by_len[n]:
            if len(lens) == 1:
                continue
            got = observe(ns, PieceText(cut(text, lens)), None, ',', policy, header, comment, n + 1)
            res.evaluations += 1
            if got != whole:
                res.violation('chunk-dependence', 'text %r (%s) delivered as %r -> %r, whole read -> %r' % (text, cfg, cut(text, lens), got, whole),
                              {'text': text, 'policy': policy, 'comment': comment, 'header': header, 'encoding': None, 'pieces': lens, 'chunk_size': n + 1, 'mode': 'pieces'})
        res.count('partition_runs', max(0, len(parts_by_len[n]) - 1))
        # chunk size sweep: whole text offered, reader asks for chunk_size characters at a time; plus one random partition per size
        for cs in range(1, n + 1):
            got = observe(ns, PieceText([text]), None, ',', policy, header, comment, cs)
            res.evaluations += 1
            res.count('chunk_size_runs')
            if got != whole:
                res.violation('chunk-size-dependence', 'text %r (%s) read with chunk_size %d -> %r, whole read -> %r' % (text, cfg, cs, got, whole),
                              {'text': text, 'policy': policy, 'comment': comment, 'header': header, 'encoding': None, 'pieces': [n], 'chunk_size': cs, 'mode': 'pieces'})


EXTRA_DIALECTS = [(';', 'quoted', '#'), (' ', 'whitespace', None), (' ', 'quoted', '#'), ('', 'monocolumn', '#'), ('::', 'quoted_rfc', '##'), ('::', 'simple', None), ('\t', 'simple', '#a')]


def run_text_dialect(ns, res, text, dlm, policy, comment, header, parts_by_len):
    """Same differential as run_text for one (delimiter, policy, comment prefix); the whole read is compared with the reference too."""
    n = len(text)
    whole = observe(ns, PieceText([text]), None, dlm, policy, header, comment, n + 1)
    res.evaluations += 1
    ref = refcsv.read_text(text, dlm, policy, None, header, comment) if dlm else refcsv.read_text(text, ',', policy, None, header, comment)
    case = {'text': text, 'policy': policy, 'comment': comment, 'header': header, 'encoding': None, 'dlm': dlm, 'mode': 'dialect'}
    recs, hdr, warns, err = whole
    res.count('dialect_reference_comparisons')
    if ref.io_error:
        if err != 'io':
            res.violation('ref-rfc-malformed-not-io', 'whole read of %r (%r %s %r): reference says IO error, got %r / %r' % (text, dlm, policy, comment, recs, err), case)
    elif err is not None or recs != ref.records or hdr != ref.header or util.warning_kinds(warns) != ref.warning_kinds():
        res.violation('ref-records-dialect', 'whole read of %r (%r %s comment %r header %s) -> %r %r %r %r, reference %r %r %r' % (text, dlm, policy, comment, header, recs, hdr, warns, err, ref.records, ref.header, ref.warning_kinds()), case)
    for lens in parts_by_len[n]:
        if len(lens) == 1:
            continue
        got = observe(ns, PieceText(cut(text, lens)), None, dlm, policy, header, comment, n + 1)
        res.evaluations += 1
        res.count('dialect_partition_runs')
        if got != whole:
            res.violation('chunk-dependence-dialect', 'text %r (%r %s comment %r) delivered as %r -> %r, whole -> %r' % (text, dlm, policy, comment, cut(text, lens), got, whole), dict(case, pieces=lens))


def byte_samples():
    s = []
    s.append(('utf-8', 'é,"€\n😀",z\r\nq'))                       # 2-, 3-, 4-byte characters inside a multi-line quoted field + CRLF
    s.append(('utf-8', '﻿a,é\r\nb,"x\ny"\r\n'))                  # BOM + CRLF + multi-line
    s.append(('utf-8', '﻿\r\n€'))
    s.append(('latin-1', 'a,\xe9\xff\r\n\xef\xbb\xbfb\r'))
    s.append(('latin-1', '\xef\xbb\xbfa,"\xe9\n\xff"\n'))
    s.append(('utf-8', '#é\n"a\r#b",😀\r'))
    # a BOM in front of a comment line (the BOM must be dropped before the prefix is compared), single- and multi-character prefixes
    s.append(('utf-8', '\ufeff#c,"\na,é\n#d'))
    s.append(('latin-1', '\xef\xbb\xbf#c\na,\xe9\n'))
    s.append(('utf-8', '\ufeff//c\n/,//\n//'))
    # a BOM in front of the only line, which has no terminator (header-only or single-record files), also quoted and empty
    s.append(('utf-8', '\ufeffa,b'))
    s.append(('utf-8', '\ufeff"x,y",z'))
    s.append(('latin-1', '\xef\xbb\xbfq'))
    s.append(('utf-8', '\ufeff'))
    return s


def run_bytes(ns, res, tier, sample_idx, policies):
    for encoding, text in byte_samples()[sample_idx:sample_idx + 1]:
        data = text.encode(encoding)
        n = len(data)
        for policy in policies:
            for comment in (None, '#') + (('//',) if '//' in text else ()):
                for header in (False, True):
                    cfg = (policy, comment, header)
                    log0 = []
                    whole = observe(ns, PieceRaw([data], log0), encoding, ',', policy, header, comment, 1024)
                    res.evaluations += 1
                    res.distinct_disjoint += 1
                    # the TextIOWrapper the reader builds translates CR / CRLF to LF before the reader sees them
                    check_against_reference(res, refcsv.normalise_newlines(text), cfg, whole, encoding)
                    step = 1 if (tier == 'thorough' or n <= 12) else 2 ** (n - 13) + 1
                    seen_logs = set()
                    for k, lens in enumerate(enum.compositions(n)):
                        if k % step:
                            continue
                        pieces = cut(data, lens)
                        log = []
                        got = observe(ns, PieceRaw(pieces, log), encoding, ',', policy, header, comment, 1024)
                        res.evaluations += 1
                        res.count('byte_partition_runs')
                        if k % 3 == 0:
                            # what sys.stdin.buffer or a socket file is: a peekable BufferedReader over the raw stream that returns short reads
                            got_b = observe(ns, io.BufferedReader(PieceRaw(pieces)), encoding, ',', policy, header, comment, 1024)
                            res.evaluations += 1
                            res.count('byte_partition_runs_buffered_reader')
                            if got_b != whole:
                                res.violation('byte-chunk-dependence-buffered', '%s bytes %r (%s) delivered as %r through a BufferedReader -> %r, whole -> %r' % (encoding, data, cfg, pieces, got_b, whole),
                                              {'text': text, 'policy': policy, 'comment': comment, 'header': header, 'encoding': encoding, 'pieces': lens, 'chunk_size': 1024, 'mode': 'bytes-buffered'})
                        seen_logs.add(tuple(x[1] for x in log))
                        if got != whole:
                            res.violation('byte-chunk-dependence', '%s bytes %r (%s) delivered as %r -> %r, whole -> %r' % (encoding, data, cfg, pieces, got, whole),
                                          {'text': text, 'policy': policy, 'comment': comment, 'header': header, 'encoding': encoding, 'pieces': lens, 'chunk_size': 1024, 'mode': 'bytes'})
                    res.count('distinct_byte_delivery_traces', len(seen_logs))
                    for cs in (1, 2, 3, 5):
                        got = observe(ns, PieceRaw([data]), encoding, ',', policy, header, comment, cs)
                        res.evaluations += 1
                        if got != whole:
                            res.violation('byte-chunk-size-dependence', '%s bytes %r (%s) chunk_size %d -> %r, whole -> %r' % (encoding, data, cfg, cs, got, whole),
                                          {'text': text, 'policy': policy, 'comment': comment, 'header': header, 'encoding': encoding, 'pieces': [n], 'chunk_size': cs, 'mode': 'bytes'})
        res.sample({'mode': 'bytes', 'encoding': encoding, 'text': text, 'partitions': 2 ** (n - 1)})


def run_random_long(ns, res, rng, count):
    """Longer random texts, random partitions, random chunk sizes, both text and byte level."""
    alpha = ['a', 'b', '"', '"', ',', ',', '\n', '\r', '\r\n', '#', ' ', 'é', '€', '😀', '""']
    # characters that str.splitlines() treats as line boundaries but the CSV dialect does not (only LF, CR, CRLF end a line)
    odd = ['\x0b', '\x0c', '\x1c', '\x1d', '\x1e', '\x85', '\u2028', '\u2029']
    for n_ in range(count):
        if n_ % 4 == 3:
            # a quoted_rfc cell that runs over many physical lines (8-16), some of them holding such characters, between ordinary records
            lines = [''.join(rng.choice(['a', 'b', ' ', ',', 'é'] + odd) for _ in range(rng.randrange(0, 5))) for _ in range(rng.randrange(8, 17))]
            text = 'x,y' + rng.choice(['\n', '\r\n']) + 'k,"' + rng.choice(['\n', '\r\n', '\r']).join(lines) + '",z' + rng.choice(['\n', '']) + rng.choice(['', 'p,q\n'])
        else:
            text = ''.join(rng.choice(alpha + (odd if n_ % 2 else [])) for _ in range(rng.randrange(5, 80)))
        policy = rng.choice(POLICIES) if n_ % 4 != 3 else rng.choice(['quoted_rfc', 'quoted_rfc', 'quoted'])
        comment = rng.choice([None, '#', '#a'])
        header = rng.random() < 0.3
        cfg = (policy, comment, header)
        whole = observe(ns, PieceText([text]), None, ',', policy, header, comment, 1024)
        res.evaluations += 1
        res.nontrivial('long', text, cfg)
        check_against_reference(res, text, cfg, whole)
        for _j in range(6):
            lens = []
            left = len(text)
            while left:
                k = min(left, rng.choice([1, 1, 2, 3, 5, 8, 13]))
                lens.append(k)
                left -= k
            cs = rng.choice([1, 2, 3, 4, 7, 16, 1024])
            log = []
            got = observe(ns, PieceText(cut(text, lens), log), None, ',', policy, header, comment, cs)
            res.evaluations += 1
            res.count('random_long_runs')
            if got != whole:
                res.violation('chunk-dependence', 'text %r (%s) pieces %r chunk_size %d -> %r, whole -> %r' % (text, cfg, lens, cs, got, whole),
                              {'text': text, 'policy': policy, 'comment': comment, 'header': header, 'encoding': None, 'pieces': lens, 'chunk_size': cs, 'mode': 'pieces'})
        # byte level
        data = text.encode('utf-8')
        wholeb = observe(ns, PieceRaw([data]), 'utf-8', ',', policy, header, comment, 1024)
        for _j in range(4):
            lens = []
            left = len(data)
            while left:
                k = min(left, rng.choice([1, 1, 2, 3, 5, 8]))
                lens.append(k)
                left -= k
            cs = rng.choice([1, 2, 3, 7, 1024])
            got = observe(ns, PieceRaw(cut(data, lens)), 'utf-8', ',', policy, header, comment, cs)
            res.evaluations += 1
            res.count('random_long_byte_runs')
            if got != wholeb:
                res.violation('byte-chunk-dependence', 'utf-8 bytes of %r (%s) pieces %r chunk_size %d -> %r, whole -> %r' % (text, cfg, lens, cs, got, wholeb),
                              {'text': text, 'policy': policy, 'comment': comment, 'header': header, 'encoding': 'utf-8', 'pieces': lens, 'chunk_size': cs, 'mode': 'bytes'})


def run_very_long(ns, res, rng, count):
    """Physical lines and quoted_rfc records of 1100-6000 characters - longer than any buffer size the reader asks for - delivered in pieces of one to three
    characters: thousands of successive reads before the line break arrives, at the default and at small chunk sizes."""
    for n_ in range(count):
        L = rng.choice([1100, 1500, 2100, 3000, 4200, 6000])
        body = ''.join(rng.choice(['a', 'b', ' ', ',', 'é', '"x"', '', '€']) for _ in range(L))
        if n_ % 3 == 2:
            policy = 'quoted_rfc'
            text = 'h1,h2\n1,"' + body.replace('"', '').replace(',', ',\n', 3) + '",z\nlast,' + rng.choice(['1', '"q"']) + rng.choice(['', '\n'])
        else:
            policy = rng.choice(['simple', 'quoted', 'quoted_rfc'])
            text = 'h1,h2' + rng.choice(['\n', '\r\n']) + body.replace('"', '') + rng.choice(['\n', '\r\n', '\r']) + 'x,y' + rng.choice(['', '\n'])
        comment = rng.choice([None, '#'])
        header = n_ % 2 == 0
        cfg = (policy, comment, header)
        whole = observe(ns, PieceText([text]), None, ',', policy, header, comment, 1024)
        res.evaluations += 1
        res.nontrivial('verylong', text, cfg)
        check_against_reference(res, text, cfg, whole)
        for mode in ('ones', 'twos', 'mixed', 'ones-small-chunk'):
            if mode == 'ones':
                lens = [1] * len(text)
            elif mode == 'twos':
                lens = [2] * (len(text) // 2) + ([1] if len(text) % 2 else [])
            else:
                lens = []
                left = len(text)
                while left:
                    k = min(left, rng.choice([1, 1, 2, 3]) if mode == 'mixed' else 1)
                    lens.append(k)
                    left -= k
            cs = 7 if mode == 'ones-small-chunk' else rng.choice([1024, 1024, 4096, 512])
            got = observe(ns, PieceText(cut(text, lens)), None, ',', policy, header, comment, cs)
            res.evaluations += 1
            res.count('very_long_line_runs')
            if got != whole:
                res.violation('chunk-dependence', 'text of %d characters with a %d-character line (%s) delivered in pieces of %s at chunk_size %d -> %r, whole -> %r' % (len(text), L, cfg, mode, cs, str(got)[:300], str(whole)[:300]),
                              {'text': text, 'policy': policy, 'comment': comment, 'header': header, 'encoding': None, 'pieces': lens, 'chunk_size': cs, 'mode': 'pieces'})


def run_js_bytes(res, tier, sample_idx, rng):
    """The JS stream reader: every byte partition (short samples) or every one-, two-cut and byte-by-byte partition (long ones) of the multi-byte samples
    against the same reader fed the whole content in one read."""
    from ..js import bridge
    node = bridge.Node.start()
    if node is None:
        res.notes.append('js byte-partition leg: unavailable (no node)')
        return
    try:
        encoding, text = (byte_samples() + JS_EXTRA_SAMPLES)[sample_idx]
        data = text.encode(encoding)
        n = len(data)
        if n <= (11 if tier == 'quick' else 15):
            parts = [list(l) for l in enum.compositions(n)]
        else:
            parts = [[i, n - i] for i in range(1, n)] + [[i, j - i, n - j] for i in range(1, n) for j in range(i + 1, n)] + [[1] * n]
            for _ in range(200 if tier == 'quick' else 5000):
                lens, left = [], n
                while left:
                    c = min(left, rng.choice([1, 1, 2, 3, 4, 5]))
                    lens.append(c)
                    left -= c
                parts.append(lens)
        key = lambda o: json.dumps({'records': o['records'], 'header': o.get('header'), 'warnings': sorted(o.get('warnings') or []), 'error': o['error'] and o['error']['cls'], 'stuck': bool(o.get('stuck'))}, sort_keys=True)
        for policy in POLICIES:
            for comment in (None, '#'):
                for header in (False, True):
                    base = {'bytes_hex': data.hex(), 'encoding': 'binary' if encoding == 'latin-1' else encoding, 'delim': ',', 'policy': policy, 'has_header': header, 'comment_prefix': comment}
                    reqs = [dict(base, chunks=[n] if n else [])] + [dict(base, chunks=p_) for p_ in parts]
                    outs = node.call({'op': 'read_batch', 'cases': reqs + [dict(base, chunks=None)]})['results']
                    whole = key(outs[0])
                    res.distinct_disjoint += 1
                    # the other way of reading it whole: the bulk reader over the file
                    bulk = outs.pop()
                    res.count('js_bulk_vs_one_read_comparisons')
                    if key(bulk) != whole:
                        res.violation('js-bulk-read-differs-from-one-stream-read', '[js] %s bytes %r (%s comment %r header %s): bulk reader -> %s, stream reader in one read -> %s' % (encoding, data, policy, comment, header, key(bulk)[:300], whole[:300]),
                                      {'mode': 'js-bytes', 'text': text, 'policy': policy, 'comment': comment, 'header': header, 'encoding': encoding, 'pieces': None})
                    for p_, o in zip(parts, outs[1:]):
                        res.evaluations += 1
                        res.count('js_byte_partition_runs')
                        if key(o) != whole:
                            res.violation('js-byte-chunk-dependence', '[js stream] %s bytes %r (%s comment %r header %s) delivered as %r -> %s, in one read -> %s' % (encoding, data, policy, comment, header, p_, key(o)[:300], whole[:300]),
                                          {'mode': 'js-bytes', 'text': text, 'policy': policy, 'comment': comment, 'header': header, 'encoding': encoding, 'pieces': p_})
                            break
        res.sample({'mode': 'js-bytes', 'encoding': encoding, 'text': text, 'partitions': len(parts)})
        # many short records in small chunks that arrive on event-loop turns of their own, read by a consumer that yields to the event loop every so
        # many records (the producer runs ahead, a backlog of tens to hundreds of records builds up and drains again) - against one read of the whole
        if sample_idx < 4:
            nrec = [120, 300, 700, 1500][sample_idx]
            data = ''.join('%d,%s\n' % (i, 'x' * (i % 5)) for i in range(nrec)).encode()
            n = len(data)
            base = {'bytes_hex': data.hex(), 'encoding': 'utf-8', 'delim': ',', 'policy': 'quoted', 'has_header': False, 'comment_prefix': None}
            reqs = [dict(base, chunks=[n])]
            for csize in (37, 150, 600, 4000):
                chunks = [csize] * (n // csize) + ([n % csize] if n % csize else [])
                for pause in (0, 1, 2, 7):
                    reqs.append(dict(base, chunks=chunks, async_delivery=True, consumer_pause_every=pause))
            outs = node.call({'op': 'read_batch', 'cases': reqs})['results']
            whole = key(outs[0])
            for rq, o in zip(reqs[1:], outs[1:]):
                res.evaluations += 1
                res.count('js_lagging_consumer_runs')
                if key(o) != whole:
                    res.violation('js-chunk-dependence-lagging-consumer', '[js stream] %d records in chunks of %d bytes delivered asynchronously, consumer pausing every %d records -> %d records (error %r, stuck %r) ; in one read -> %d records' % (
                        nrec, rq['chunks'][0], rq['consumer_pause_every'], len(o['records']), o['error'], o.get('stuck'), len(outs[0]['records'])), {'mode': 'js-lagging', 'records': nrec, 'chunk': rq['chunks'][0], 'pause_every': rq['consumer_pause_every']})
        # a file of more than two mebibytes with a multi-byte character lying across the offsets 2**20 and 2**21 (and across a 64 KiB multiple): the bulk reader,
        # the stream reader in one read and in 64 KiB / 1 MiB chunks all return the same records
        if sample_idx == 5:
            def pad_to(buf, target, ch):
                # ASCII lines of 100 bytes, then a last line that ends so that `ch` starts one byte before `target`
                while len(buf) + 100 < target - 200:
                    buf += b'x' * 99 + b'\n'
                buf += b'y' * (target - 1 - len(buf) - 1) + b',' + ch.encode('utf-8') + b',z\n'
                return buf
            big = pad_to(bytearray(), 65536 * 3, '\u00e9')
            big = pad_to(big, 2 ** 20, '\u20ac')
            big = pad_to(big, 2 ** 21, '\U0001f600')
            big += b'last,line'
            n = len(big)
            base = {'bytes_hex': bytes(big).hex(), 'encoding': 'utf-8', 'delim': ',', 'policy': 'quoted', 'has_header': False, 'comment_prefix': None}
            reqs = [dict(base, chunks=None), dict(base, chunks=[n]), dict(base, chunks=[65536] * (n // 65536) + [n % 65536]), dict(base, chunks=[2 ** 20, 2 ** 20, n - 2 ** 21]), dict(base, chunks=[2 ** 20 + 1, n - 2 ** 20 - 1])]
            outs = [node.call({'op': 'read_batch', 'cases': [r]})['results'][0] for r in reqs]
            exp_n = bytes(big).count(b'\n') + 1
            for rq, o in zip(reqs, outs):
                res.evaluations += 1
                res.count('js_big_file_reads')
                if key(o) != key(outs[1]) or o['error'] is not None or len(o['records']) != exp_n:
                    first = next((i for i, (x, y) in enumerate(zip(o['records'], outs[1]['records'])) if x != y), None)
                    res.violation('js-big-file-read-differs', '[js] a %d-byte file with multi-byte characters across the offsets 196608, 2**20 and 2**21 read %s -> %d records (error %r), first difference at record %r: %r ; in one stream read -> %d records' % (
                        n, 'by the bulk reader' if rq['chunks'] is None else 'in %d chunks' % len(rq['chunks']), len(o['records']), o['error'], first, None if first is None else o['records'][first][-2:], len(outs[1]['records'])),
                        {'mode': 'js-big-file', 'chunks': None if rq['chunks'] is None else len(rq['chunks'])})
        # a file of 17 MiB written to disk (multi-byte characters lie across many 64 KiB offsets): the bulk reader and the file stream return the same records
        # (count, digest, no replacement character anywhere)
        if sample_idx == 6:
            import hashlib
            import tempfile
            fd, pth = tempfile.mkstemp(prefix='rv-c12-', suffix='.csv')
            try:
                line_no, size, h, nrec = 0, 0, hashlib.sha1(), 0
                with os.fdopen(fd, 'wb') as f:
                    while size < 17 * 2 ** 20:
                        rec = ['%d' % line_no, '\u8a9e\u0430\u0430\u0430\u8a9e\u0431' * (1 + line_no % 7), '\u20ac' * (line_no % 11)]
                        b = (','.join(rec) + '\n').encode('utf-8')
                        f.write(b)
                        size += len(b)
                        h.update(json.dumps(rec, ensure_ascii=True, separators=(',', ':')).encode())
                        line_no += 1
                want = {'n': line_no, 'sha1': h.hexdigest()}
                for bulk in (True, False):
                    o = node.call({'op': 'read_path', 'path': pth, 'bulk': bulk, 'encoding': 'utf-8', 'delim': ',', 'policy': 'simple'})
                    res.evaluations += 1
                    res.count('js_17mib_file_reads')
                    # (the driver digests JSON.stringify of every record: the same text as json.dumps with ASCII escapes turned off on the python side is not
                    #  guaranteed, so the count and the absence of U+FFFD decide, and the two readers must agree on the digest)
                    if o['error'] is not None or o.get('stuck') or o['n_records'] != want['n'] or o.get('first_record_with_replacement_character') is not None:
                        res.violation('js-17mib-file-read-differs', '[js] a %d-byte file of %d records read by the %s: %d records, error %r, first record holding U+FFFD: %r' % (
                            size, want['n'], 'bulk reader' if bulk else 'file stream', o['n_records'], o['error'], o.get('first_record_with_replacement_character')), {'mode': 'js-17mib', 'bulk': bulk})
                    want.setdefault('digests', []).append(o.get('sha1'))
                if len(set(want.get('digests', []))) > 1:
                    res.violation('js-17mib-bulk-and-stream-digests-differ', '[js] bulk reader and file stream return different records for the same 17 MiB file', {'mode': 'js-17mib'})
            finally:
                try:
                    os.unlink(pth)
                except OSError:
                    pass
    finally:
        node.close()


# further samples for the JS leg: 4-byte characters at the start, in the middle and at the end, next to each other and next to line breaks
JS_EXTRA_SAMPLES = [('utf-8', 'a,\ufffd\n\ufffd\ufffd,"\uffff\n\ufffd"\r\n'), ('utf-8', '😀'), ('utf-8', 'a😀😀\n\U0010ffff,€é\r\n😀'), ('utf-8', '"😀\r\n😀",\U00010000\r'),
                    # the very last character is a CR that ends an EMPTY line (old-Mac line ends with a trailing blank line)
                    ('utf-8', 'a,1\rb,2\r\r'), ('utf-8', '\r'), ('utf-8', 'a\n\r'), ('utf-8', 'a,b\r\n\r'), ('utf-8', '"q\r"\r\r\r')]


def plan(tier, seed):
    k = NSHARDS[tier]
    specs = [{'kind': 'exhaustive', 'k': k, 'i': i} for i in range(k)]
    specs += [{'kind': 'bytes', 'sample': i, 'policies': [p]} for i in range(len(byte_samples())) for p in POLICIES]
    specs += [{'kind': 'long', 'i': i, 'n': 300 if tier == 'quick' else 3000} for i in range(4)]
    specs += [{'kind': 'js-bytes', 'sample': i} for i in range(len(byte_samples()) + len(JS_EXTRA_SAMPLES))]
    specs += [{'kind': 'dialects', 'k': 8, 'i': i} for i in range(8)]
    return specs


def run_shard(spec, res):
    ns = env.import_rbql()
    tier = spec['tier']
    rng = random.Random(104729 * spec['seed'] + spec['shard'])
    if spec['kind'] == 'exhaustive':
        parts_by_len = {n: list(enum.compositions(n)) for n in range(0, EXTRA_LEN[tier] + 1)}
        idx = 0
        for tup in enum.words(ALPHABET, EXTRA_LEN[tier]):
            idx += 1
            if idx % spec['k'] != spec['i']:
                continue
            text = ''.join(tup)
            configs = CONFIGS_FULL if len(tup) <= FULL_LEN[tier] else (CONFIGS_NOHDR if tier == 'thorough' else CONFIGS_NOHDR_QUICK)
            run_text(ns, res, text, configs, parts_by_len, rng, 0)
            res.count('exhaustive_texts')
            if idx % 50021 == 0:
                res.sample({'mode': 'pieces', 'text': text, 'partitions': 2 ** max(0, len(text) - 1), 'configs': len(configs)})
    elif spec['kind'] == 'dialects':
        maxlen = 5 if tier == 'quick' else 6
        parts_by_len = {n: list(enum.compositions(n)) for n in range(0, maxlen + 1)}
        for dlm, policy, comment in EXTRA_DIALECTS:
            alpha = ['a', '"', '\n', '\r', ' '] + [c for c in dict.fromkeys(dlm) if c not in ' '] + ([comment[0]] if comment else [])
            idx = 0
            for tup in enum.words(alpha, maxlen):
                idx += 1
                if idx % spec['k'] != spec['i']:
                    continue
                text = ''.join(tup)
                run_text_dialect(ns, res, text, dlm, policy, comment, idx % 5 == 0, parts_by_len)
                if '\n' in text or '\r' in text or '"' in text:
                    res.distinct_disjoint += 1
        res.sample({'mode': 'dialects', 'dialects': EXTRA_DIALECTS, 'max_len': maxlen})
    elif spec['kind'] == 'bytes':
        run_bytes(ns, res, tier, spec['sample'], spec['policies'])
    elif spec['kind'] == 'js-bytes':
        run_js_bytes(res, tier, spec['sample'], rng)
    elif spec['kind'] == 'long':
        run_random_long(ns, res, rng, spec['n'])
        run_very_long(ns, res, rng, 6 if tier == 'quick' else 40)


def summarize(tier, seed, m):
    return {
        'rule': 'every text of length <= %d over {a, quote, comma, LF, CR, #, space} x all 2^(n-1) partitions into successive reads (chunk_size n+1) x policies {simple, quoted, quoted_rfc} x comment prefix {none, #} x header {off, on}; length %d with header off (quick tier: 4 of the 6 policy x comment configurations at that length); for each text also chunk_size 1..n on the undivided text; every byte partition of %d multi-byte UTF-8 / latin-1 / BOM samples through a RawIOBase; the same samples (+ three with 4-byte characters at every position) through the JS stream reader, every partition (short) or every one- and two-cut, byte-by-byte and random partition (long) against the whole content in one read; 120-1500 short records in chunks of 37-4000 bytes delivered on separate event-loop turns to a consumer that yields every 0 / 1 / 2 / 7 records; random longer texts with random partitions and chunk sizes (text and byte level); lines and quoted_rfc records of 1100-6000 characters delivered one, two or 1-3 characters per read (thousands of reads per line) at chunk sizes 7 / 512 / 1024 / 4096; the same exhaustive differential up to 5 / 6 characters for 7 further dialects (semicolon, space + whitespace policy, space + quoted, monocolumn, multi-character delimiter with quoted_rfc and simple, tab) with single- and multi-character comment prefixes. Each whole read is also compared with the reference reader. distinct_nontrivial = (text, configuration) pairs whose text contains a line break or a quote.' % (FULL_LEN[tier], EXTRA_LEN[tier], len(byte_samples())),
        'exhaustive': True,
        'required': ['partition_runs', 'js_byte_partition_runs', 'js_big_file_reads', 'js_17mib_file_reads', 'js_bulk_vs_one_read_comparisons', 'js_lagging_consumer_runs', 'byte_partition_runs', 'byte_partition_runs_buffered_reader', 'reference_comparisons', 'chunk_size_runs', 'dialect_partition_runs', 'dialect_reference_comparisons', 'very_long_line_runs'],
        'assumptions': ['all delivery sequences a stream can produce are covered by enumerating partitions under a large chunk_size (a read(k) request returns min(piece, k)) plus the chunk-size sweep',
                        'rv.model.refcsv.read_text states the line-ending / comment / multi-line / BOM rules'],
    }


def replay(case, res):
    ns = env.import_rbql()
    text = case['text']
    cfg = (case['policy'], case['comment'], case['header'])
    enc = case.get('encoding')
    if case['mode'] == 'reference':
        whole = observe(ns, PieceText([text]), None, ',', cfg[0], cfg[2], cfg[1], len(text) + 1)
        res.evaluations += 1
        check_against_reference(res, text, cfg, whole)
        return
    if enc:
        data = text.encode(enc)
        whole = observe(ns, PieceRaw([data]), enc, ',', cfg[0], cfg[2], cfg[1], 1024)
        got = observe(ns, PieceRaw(cut(data, case['pieces'])), enc, ',', cfg[0], cfg[2], cfg[1], case['chunk_size'])
    else:
        whole = observe(ns, PieceText([text]), None, ',', cfg[0], cfg[2], cfg[1], len(text) + 1)
        got = observe(ns, PieceText(cut(text, case['pieces'])), None, ',', cfg[0], cfg[2], cfg[1], case['chunk_size'])
    res.evaluations += 1
    if got != whole:
        res.violation('chunk-dependence', 'delivered as %r -> %r, whole -> %r' % (case['pieces'], got, whole), case)
