"""C03 - Aggregates / GROUP BY: one exact result row per group, in key order.

Oracle: rv.model.refsem (groups as dict of lists, exact rationals).  Numeric cells compare by value; AVG / VARIANCE / MEDIAN /
float SUM within 1e-9 relative; ANY_VALUE by membership.
"""
import random

from .. import env, util
from ..gen import queries as gq
from ..model import qast, refsem
from . import common

PROPERTY = 'C03'
LEVEL = 'exploration'
CASES = {'quick': 16000, 'thorough': 320000}
NSHARDS = {'quick': 16, 'thorough': 32}

JS_GROUP = 'js-group-order-json-text'
NUMERIC = ['MIN', 'MAX', 'SUM', 'AVG', 'VARIANCE', 'MEDIAN']
SPELL = {
    'COUNT': ['COUNT', 'count', 'Count'], 'MIN': ['MIN', 'min', 'Min'], 'MAX': ['MAX', 'max', 'Max'], 'SUM': ['SUM', 'sum', 'Sum'],
    'AVG': ['AVG', 'avg', 'Avg'], 'VARIANCE': ['VARIANCE', 'variance', 'Variance'], 'MEDIAN': ['MEDIAN', 'median', 'Median'],
    'ARRAY_AGG': ['ARRAY_AGG', 'array_agg', 'Array_agg'], 'ANY_VALUE': ['ANY_VALUE', 'any_value', 'Any_value'],
}
INTS = ['0', '1', '2', '3', '7', '10', '-1', '-4', '12', '100', '0']
# integers beyond 2**53: exact in Python; a double cannot hold them (such tables are not sent to the JS leg)
BIG_INTS = ['9007199254740993', '9007199254740995', '-9007199254740997', '123456789012345678', '123456789012345679', '1', '-3', '18014398509481985']
FLOATS = ['0.5', '2.5', '-1.5', '10.25', '0.0', '3.75', '-0.25', '2.0']
# 16-digit integers that a double still holds exactly (microsecond timestamps, large ids): their sums need more than 15 significant digits
MED_INTS = ['1700000000000001', '1700000000000002', '1000000000000003', '4503599627370497', '1234567890123457', '-1000000000000001']
KEYS = ['a', 'B', 'ab', 'a b', 'c', 'b', 'Zz', 'é']


def classify(mech, case, got, ref):
    if mech == 'rows-differ' and case.get('engine') == 'js' or mech == 'rows-differ':
        q = case['q']
        if q.get('group') and got.get('error') is None:
            ref2 = refsem.run(q, case['A'], case['B'], case['a_names'], case['b_names'], variant='js-group')
            if ref2.error is None and common.rows_match(got['rows'], ref2):
                return JS_GROUP
    return None


def classify_js(mech, case, got, ref):
    return common.classify_known_js(mech, case, got, ref)


def gen_numeric_table(rng, big=True):
    nrows = rng.choice([0, 1, 2, 3, 4, 5, 6, 8, 12]) if rng.random() < 0.9 else rng.randrange(12, 40)
    nkeys = rng.choice([1, 1, 2])
    nvals = rng.choice([1, 2, 3])
    kvals = [rng.sample(KEYS, rng.randrange(1, 6)) for _ in range(nkeys)]
    if nkeys == 2 and rng.random() < 0.15:
        # two-part keys that read the same once glued together with the separator between them ("a,b" + "c" / "a" + "b,c", and the like with | : and a blank)
        sep = rng.choice([',', ',', '|', ':', ' ', '","'])
        kvals = [['a' + sep + 'b', 'a', 'x', 'a' + sep], ['c', 'b' + sep + 'c', 'x', sep + 'c']]
    # numeric strings (what CSV sources deliver) and, in a quarter of the columns, native numbers (what list / pandas / sqlite sources deliver)
    kinds = [rng.choice(['int', 'int', 'float', 'mixed', 'zeros', 'int', 'float', 'mixed', 'zeros', 'nint', 'nfloat', 'nmixed', 'fancy']) for _ in range(nvals)]
    if big and rng.random() < 0.06:
        kinds[rng.randrange(nvals)] = rng.choice(['bigint', 'nbigint'])
    elif big and rng.random() < 0.08:
        kinds[rng.randrange(nvals)] = rng.choice(['medint', 'nmedint'])
    A = []
    for r in range(nrows):
        rec = [rng.choice(kv) for kv in kvals]
        for kd in kinds:
            if kd == 'int':
                rec.append(rng.choice(INTS))
            elif kd == 'float':
                rec.append(rng.choice(FLOATS))
            elif kd == 'zeros':
                rec.append(rng.choice(['0', '0', '0', '5', '-5']))
            elif kd == 'fancy':
                # numeric strings in the other spellings both host languages accept: exponents, bare leading / trailing dot, explicit sign, padding, leading zeros
                rec.append(rng.choice(['1e3', '5E-1', '.5', '-.25', '+5', ' 7 ', '1.', '-0', '00012', '2.50', '1e-2', '+.5e1']))
            elif kd == 'medint':
                rec.append(rng.choice(MED_INTS))
            elif kd == 'nmedint':
                rec.append(int(rng.choice(MED_INTS)))
            elif kd == 'bigint':
                rec.append(rng.choice(BIG_INTS))
            elif kd == 'nbigint':
                rec.append(int(rng.choice(BIG_INTS)))
            elif kd == 'nint':
                rec.append(int(rng.choice(INTS)))
            elif kd == 'nfloat':
                rec.append(float(rng.choice(FLOATS)))
            elif kd == 'nmixed':
                rec.append(int(rng.choice(INTS)) if r < nrows // 2 or rng.random() < 0.3 else float(rng.choice(FLOATS)))
            else:
                rec.append(rng.choice(INTS) if r < nrows // 2 or rng.random() < 0.3 else rng.choice(FLOATS))
        A.append(rec)
    if big and A and rng.random() < 0.04:
        # one cell that only STARTS like a number (or holds two): not a number in either host language - a numeric aggregate over it fails the query
        # (in a column of numeric STRINGS: the engine decides by the first value of a column whether it has to convert at all)
        scols = [j for j, kd in enumerate(kinds) if not kd.startswith('n')]
        if scols:
            A[rng.randrange(len(A))][nkeys + rng.choice(scols)] = rng.choice(NOT_NUMBERS)
    return A, nkeys, nvals


NOT_NUMBERS = ['20 apples', '12abc', '1,5', '3.4.5', '2021-03-04', '7-', '5 6', '1e', '-+1', '10%', '$5', '1 000']


def gen_case(rng, i, neutral_only=False):
    A, nkeys, nvals = gen_numeric_table(rng)
    width = nkeys + nvals
    opt_col = None
    if rng.random() < 0.3:
        # one more column that also holds None (NULL): it is counted, collected or picked (COUNT / ARRAY_AGG / ANY_VALUE arguments) or selected as a plain column
        pool = rng.choice([['x', 'y', None, None], ['x', 'y', None, None], [None, 'x'], [None], [None, 'null', 'None'], [None, 'null', 'None', 'undefined', '']])    # a missing cell next to its own spellings
        for r in A:
            r.append(rng.choice(pool))
        opt_col = width
        width += 1
    a_names = None
    if rng.random() < 0.4:
        a_names = gq.gen_names(rng, width)
    g = gq.G(rng, A, a_names)

    def fld(j):
        return ['field', 'a', j, g.spelling('a', j)]
    q = {'kind': 'select', 'items': [], 'distinct': None, 'top': None, 'top_kw': 'top', 'where': None, 'join': None, 'order': None, 'group': None, 'except': None, 'assign': [], 'with': None}
    mode = i % 4     # 0: no group by, 1: one key, 2: two keys / expression key, 3: one key
    group_exprs = []
    if mode in (1, 3):
        group_exprs = [fld(0)]
    elif mode == 2:
        r = rng.random()
        if nkeys == 2 and r < 0.5:
            group_exprs = [fld(0), fld(1)]
        elif r < 0.6:
            group_exprs = [['arith', '%', ['NR'], ['int', rng.randrange(1, 4)]]]
        elif r < 0.75:
            group_exprs = [['arith', '*', ['len', fld(0)], ['int', 5]]]
        else:
            group_exprs = [['len', fld(0)], fld(0)]
    if group_exprs:
        q['group'] = group_exprs
    items = []
    for _ in range(rng.choice([1, 2, 2, 3, 4, 5])):
        r = rng.random()
        if r < 0.2 and group_exprs:
            items.append({'kind': 'expr', 'expr': rng.choice(group_exprs)})
        elif r < 0.25:
            items.append({'kind': 'expr', 'expr': ['str', 'const'] if rng.random() < 0.5 else ['int', 7]})
        else:
            func = rng.choice(list(SPELL))
            sp = rng.choice(SPELL[func])
            if func == 'COUNT':
                arg = rng.choice(['*', ['int', 1], fld(rng.randrange(width))] + ([fld(opt_col), fld(opt_col)] if opt_col is not None else []))
            elif func in NUMERIC:
                vj = nkeys + rng.randrange(nvals)
                arg = fld(vj)
                if not neutral_only and rng.random() < 0.2:
                    arg = ['arith', '*', ['float_of', fld(vj)], ['int', 10]] if rng.random() < 0.5 else ['arith', '+', ['len', fld(0)], ['NR']]
            else:
                arg = fld(rng.randrange(width)) if rng.random() < 0.8 else ['concat', fld(0), ['str', '!']]
                if opt_col is not None and rng.random() < 0.4:
                    arg = fld(opt_col)
                elif rng.random() < 0.15:
                    # a list-valued argument: one element per record, the element being the list (an empty one too)
                    arg = rng.choice([['split', fld(0), ' '], ['list', [fld(0), ['NR']]], ['list', []], ['split', fld(0), 'a']])
            items.append({'kind': 'agg', 'func': func, 'spelling': sp, 'arg': arg})
        if rng.random() < 0.15:
            items[-1]['alias'] = g.alias()
            items[-1]['as_kw'] = rng.choice(['as', 'AS'])
    if not any(it['kind'] == 'agg' for it in items):
        items.append({'kind': 'agg', 'func': 'COUNT', 'spelling': 'COUNT', 'arg': '*'})
    # occasionally a non-constant plain column: must be rejected
    if rng.random() < 0.06 and A:
        items.append({'kind': 'expr', 'expr': fld(nkeys)})
    # a plain column over the cells that may be None: None and a value (in either order) are not constant, a group of None only is
    if opt_col is not None and rng.random() < 0.3:
        items.insert(rng.randrange(len(items) + 1), {'kind': 'expr', 'expr': fld(opt_col)})
    q['items'] = items
    if rng.random() < 0.35:
        q['where'] = rng.choice([['cmp', '!=', fld(0), ['str', 'a']], ['cmp', '>', ['NR'], ['int', 1]], ['cmp', '==', ['arith', '%', ['NR'], ['int', 2]], ['int', 0]], ['cmp', '==', fld(0), ['str', 'zz']]])
    if rng.random() < 0.25:
        q['top'] = rng.randrange(0, 4)
        q['top_kw'] = rng.choice(['top', 'limit'])
    B = b_names = None
    if rng.random() < 0.07:
        # the aggregated records are the pairs of a JOIN (not the input records): a lookup table keyed by the first column
        B = [[rng.choice(KEYS + ['zz']), rng.choice(INTS)] for _ in range(rng.randrange(0, 7))]
        b_names = ['jk', 'jv'] if a_names is not None else None
        kf = fld(0)
        if kf[3] == 'sq':
            kf[3] = 'dq'
        q['join'] = {'type': rng.choice(['JOIN', 'INNER JOIN', 'LEFT JOIN']), 'table': 'b', 'pairs': [[kf, ['field', 'b', 0, 'var'], '==', False]]}
        if rng.random() < 0.5:
            # nothing but the count of the pairs
            q['items'] = [{'kind': 'agg', 'func': 'COUNT', 'spelling': rng.choice(SPELL['COUNT']), 'arg': rng.choice(['*', ['int', 1]])}]
            if rng.random() < 0.3:
                q['items'][0]['alias'] = g.alias()
                q['items'][0]['as_kw'] = 'as'
            q['group'] = q['where'] = q['top'] = None
    case = common.case_json(q, {'A': A, 'B': B, 'a_names': a_names, 'b_names': b_names})
    ints = [[abs(int(c)) for c in r[nkeys:] if isinstance(c, int) or isinstance(c, str) and c.lstrip('-').isdigit()] for r in A]
    if any(v > 2 ** 53 for r in ints for v in r) or sum(max(r or [0]) for r in ints) > 2 ** 53:
        case['py_only'] = True          # a double cannot hold the cells, or not even their sum
    return case


def gen_builtin_case(rng):
    """lower-case min / max / sum with several arguments or an iterable keep their Python builtin meaning (in non-aggregate and in aggregate queries)."""
    # no integers beyond 2**53 here: the operands are converted with float() and summed in an order that a set does not fix
    A, nkeys, nvals = gen_numeric_table(rng, big=False)
    while not A:
        A, nkeys, nvals = gen_numeric_table(rng, big=False)
    vj = nkeys
    f = lambda j: ['float_of', ['field', 'a', j, 'var']]
    other = nkeys + (1 if nvals > 1 else 0)
    def one():
        if rng.random() < 0.5:
            return rng.choice([['pymax', f(vj), f(other)], ['pymin', f(vj), ['int', 3]], ['pysum', [f(vj), f(other), ['int', 1]]], ['pymaxl', [f(vj), ['NR']]]])
        # a single iterable argument that is not a list
        form = rng.choice(['gen', 'map', 'tuple', 'iter', 'set', 'reversed', 'dictkeys', 'filter', 'zip'])
        xs = [f(vj), f(other), ['NR']][:rng.choice([1, 2, 3])] if form != 'filter' else [f(vj), ['NR'], ['int', 5]]
        return ['pybuiltin', rng.choice(['max', 'min', 'sum']), form, xs]
    where = group = None
    if rng.random() < 0.5:
        # the builtin call inside an aggregate query: as the argument of an aggregate, in WHERE, beside a GROUP BY key (every record, not only the first)
        items = [{'kind': 'agg', 'func': fn, 'spelling': fn, 'arg': one()} for fn in rng.sample(['ARRAY_AGG', 'SUM', 'MAX', 'MIN', 'ANY_VALUE', 'COUNT', 'AVG', 'MEDIAN'], rng.choice([1, 2]))]
        if rng.random() < 0.5:
            group = [['field', 'a', 0, 'var']]
            items.append({'kind': 'expr', 'expr': ['field', 'a', 0, 'var']})
        if rng.random() < 0.4:
            where = ['cmp', '>', one(), ['int', 1]]
    else:
        items = [{'kind': 'expr', 'expr': one()} for _ in range(rng.choice([1, 2]))]
        items.append({'kind': 'expr', 'expr': ['field', 'a', 0, 'var']})
    q = {'kind': 'select', 'items': items, 'distinct': None, 'top': None, 'top_kw': 'top', 'where': where, 'join': None, 'order': None, 'group': group, 'except': None, 'assign': [], 'with': None}
    return common.case_json(q, {'A': A, 'B': None, 'a_names': None, 'b_names': None})


# ---------------------------------------------------------------------------------------------------------------
# typed front-ends: aggregates over the cells of a dataframe, a sqlite table and a CSV file (numeric strings there)

def leg_typed_aggregates(ns, res, spec):
    import io
    import sqlite3
    from fractions import Fraction
    import pandas as pd
    from ..model import refcsv
    rng = random.Random(spec['seed'] * 49979693 + spec['i'])

    class Sink(ns.engine.RBQLOutputWriter):
        def __init__(self):
            self.rows = []

        def write(self, fields):
            self.rows.append(list(fields))
            return True

    def close(g, e, scale=1.0):
        try:
            return abs(float(g) - float(e)) <= 1e-9 * max(1.0, abs(float(e)), scale)
        except (TypeError, ValueError, OverflowError):
            return False

    for n in range(spec['n']):
        front = ['pandas', 'sqlite', 'csv'][n % 3]
        nrows = rng.choice([1, 2, 3, 5, 8, 17, 18, 33, 40])
        keykind = rng.choice(['str', 'int', 'num-mixed'])
        # num-mixed: integers and floats in one key column (an untyped sqlite column, an object column): ascending order is numeric order
        keys = [rng.choice(['a', 'b', 'ab', 'B']) if keykind == 'str' else (rng.choice([1, 2, 10, 2 ** 53 + 1]) if keykind == 'int' else rng.choice([1, 2.5, 0.5, 3, -4, 10, 7.25])) for _ in range(nrows)]
        ipool = rng.choice([[1, 2, 3, 10, 7], [2 ** 53 + 1, 2 ** 53 + 3, 5, 2 ** 60], [0, -4, 9, 100]])
        ints = [rng.choice(ipool) for _ in range(nrows)]
        flts = [rng.choice([0.25, 0.5, 1.0, 2.75, -1.5, 10.0, 3.0]) for _ in range(nrows)]
        rows = [[keys[i], ints[i], flts[i]] for i in range(nrows)]
        where = rng.choice([None, None, 'a2 > 2', 'a3 < 2'])
        if front == 'csv':
            where = {'a2 > 2': 'int(a2) > 2', 'a3 < 2': 'float(a3) < 2'}.get(where)
        passing = [r for r in rows if where is None or (r[1] > 2 if 'a2' in where else r[2] < 2)]
        groups = {}
        for r in passing:
            groups.setdefault(r[0], []).append(r)
        exp = []
        for k in sorted(groups):
            g = groups[k]
            xs, fs = [r[1] for r in g], [Fraction(r[2]) for r in g]
            mean = sum(fs) / len(fs)
            sf = sorted(fs)
            med = sf[len(sf) // 2] if len(sf) % 2 else (sf[len(sf) // 2 - 1] + sf[len(sf) // 2]) / 2
            exp.append([k, len(g), min(xs), max(xs), sum(xs), float(mean), float(med), float(sum((x - mean) ** 2 for x in fs) / len(fs)), list(xs), xs])
        qtext = 'select a1, COUNT(*), MIN(a2), MAX(a2), SUM(a2), AVG(a3), MEDIAN(a3), VARIANCE(a3), ARRAY_AGG(a2), ANY_VALUE(a2)%s group by a1' % (' where ' + where if where else '')
        if front == 'pandas':
            df = pd.DataFrame({'k': pd.Series(keys, dtype='int64' if keykind == 'int' else 'object'), 'n': pd.Series(ints, dtype='int64'), 'x': pd.Series(flts, dtype='float64')})
            it = ns.pandas.DataframeIterator(df, normalize_column_names=True)
            conn = None
        elif front == 'sqlite':
            conn = sqlite3.connect(':memory:')
            conn.execute('CREATE TABLE t (k %s, n INTEGER, x REAL)' % {'str': 'TEXT', 'int': 'INTEGER', 'num-mixed': ''}[keykind])
            conn.executemany('INSERT INTO t VALUES (?, ?, ?)', rows)
            conn.commit()
            it = ns.sqlite.SqliteRecordIterator(conn, 't')
        else:
            conn = None
            text = refcsv.write_table([[str(v) for v in r] for r in rows], ',', 'quoted', '\n')
            it = ns.csv.CSVRecordIterator(io.StringIO(text, newline=''), None, ',', 'quoted')
        sink = Sink()
        err = None
        try:
            ns.rbql.query(qtext, it, sink, [])
        except Exception as e:
            err = '%s: %s' % (type(e).__name__, str(e)[:150])
        if conn is not None:
            conn.close()
        res.evaluations += 1
        res.count('typed_aggregate_runs:' + front)
        res.count('typed_aggregate_groups', len(exp))
        res.nontrivial('typed-agg', front, qtext, repr(rows))
        cs = {'leg': 'typed-aggregates', 'front_end': front, 'query_text': qtext, 'rows': [[repr(v) for v in r] for r in rows]}
        bad = None
        if err is not None:
            bad = err
        elif len(sink.rows) != len(exp):
            bad = '%d result records for %d groups: %r' % (len(sink.rows), len(exp), sink.rows[:4])
        else:
            if front == 'csv':
                # keys are strings there: ascending order of the key TEXT
                exp_sorted = sorted(exp, key=lambda e: str(e[0]))
            else:
                exp_sorted = exp
            for g, e in zip(sink.rows, exp_sorted):
                key_ok = (str(g[0]) == str(e[0])) if front == 'csv' else (g[0] == e[0] and type(g[0]) is type(e[0]))
                exact_ok = all(int(g[j]) == e[j] and not isinstance(g[j], float) for j in (1, 2, 3, 4))
                float_ok = close(g[5], e[5]) and close(g[6], e[6]) and close(g[7], e[7], scale=max(abs(x) for x in flts) ** 2)
                arr = [int(v) for v in g[8]] if isinstance(g[8], list) else None
                any_ok = int(g[9]) in e[9]
                if not (key_ok and exact_ok and float_ok and arr == e[8] and any_ok):
                    bad = 'group %r -> %r ; expected %r' % (e[0], g, e[:9] + ['one of %r' % e[9]])
                    break
        if bad is not None:
            res.violation('py:typed-aggregate-result-differs:' + front, '[py/%s] %s over %r: %s' % (front, qtext, rows, bad), cs)
        if n % 97 == 0:
            res.sample({'leg': 'typed-aggregates', 'front_end': front, 'query': qtext, 'rows': [[repr(v) for v in r] for r in rows][:4], 'expected_groups': len(exp)})


def leg_infinite(ns, res):
    """Numeric strings that name an infinity (the Python conversion accepts 'inf' / '-inf' / 'Infinity'), and finite values whose sum leaves the double range:
    SUM / AVG over a group holding +infinity is +infinity (not NaN), over both infinities NaN; MIN / MAX order them like any number."""
    import math
    A = [['p', '1.5'], ['p', 'inf'], ['p', '2'], ['n', '-inf'], ['n', '3'], ['b', 'inf'], ['b', '-Infinity'], ['o', '1e308'], ['o', '1e308'], ['o', '5'], ['q', '2.5'], ['m', '-1e308'], ['m', '-1.7e308']]
    exp = {'b': ('nan', 'inf', '-inf', 'nan'), 'm': ('-inf', -1e308, -1.7e308, '-inf'), 'n': ('-inf', 3, '-inf', '-inf'), 'o': ('inf', 1e308, 5, 'inf'), 'p': ('inf', 'inf', 1.5, 'inf'), 'q': (2.5, 2.5, 2.5, 2.5)}

    def same(g, x):
        if x == 'nan':
            return isinstance(g, float) and math.isnan(g)
        if x in ('inf', '-inf'):
            return isinstance(g, float) and math.isinf(g) and (g > 0) == (x == 'inf')
        return isinstance(g, (int, float)) and not isinstance(g, bool) and abs(g - x) <= 1e-9 * max(1.0, abs(x))
    for spelling in (('SUM', 'MAX', 'MIN', 'AVG'), ('sum', 'max', 'min', 'avg'), ('Sum', 'Max', 'Min', 'Avg')):
        for rows in (A, list(reversed(A))):
            q = 'select a1, %s(a2), %s(a2), %s(a2), %s(a2) group by a1' % spelling
            out, err = [], None
            try:
                ns.rbql.query_table(q, [list(r) for r in rows], out, [])
            except Exception as e:
                err = '%s: %s' % (util.error_class(e), str(e)[:120])
            res.evaluations += 1
            res.count('infinite_value_aggregate_runs')
            bad = err is not None or [r[0] for r in out] != sorted(exp)
            if not bad:
                bad = any(not same(g, x) for r in out for g, x in zip(r[1:], exp[r[0]]))
            if bad:
                res.violation('py:aggregates-over-infinite-values', '[py] %s over %r -> %r (error %r) ; expected per key (SUM, MAX, MIN, AVG) %r' % (q, rows, out, err, exp), {'leg': 'infinite', 'query_text': q, 'A': rows, 'engine': 'py'})


STAR_SHAPES = [
    # (query text, item list: '*' = the record's cells, ('agg', func) = aggregate of the second cell, ('count',) = COUNT(*), ('k',) = first cell), grouped by first cell or not
    ('select *, SUM(a2) group by a1', ['*', ('agg', 'SUM')], True),
    ('select a.*, MAX(a2) group by a1', ['*', ('agg', 'MAX')], True),
    ('select COUNT(*), * group by a1', [('count',), '*'], True),
    ('select sum(a2), * group by a1', [('agg', 'SUM'), '*'], True),
    ('select a1, *, MIN(a2) group by a1', [('k',), '*', ('agg', 'MIN')], True),
    ('select *, ARRAY_AGG(a2), count(*) group by a1', ['*', ('agg', 'ARRAY_AGG'), ('count',)], True),
    ('select *, COUNT(*)', ['*', ('count',)], False),
    ('select *, SUM(a2), * group by a1', ['*', ('agg', 'SUM'), '*'], True),
    ('select *, MAX(a2) where a2 != "7" group by a1', ['*', ('agg', 'MAX')], True),
]


def star_ragged_expect(A, items, grouped, where_not_7):
    """None when the select list does not have the same shape for every passing record (nothing is demanded then but a failure or a right answer per group);
    else ('rows', rows) or ('error',) when a plain column is not constant in a group."""
    recs = [r for r in A if not (where_not_7 and r[1] == '7')]
    shaped = []
    for r in recs:
        vals = []
        for it in items:
            if it == '*':
                vals.extend(('plain', c) for c in r)
            elif it[0] == 'k':
                vals.append(('plain', r[0]))
            elif it[0] == 'count':
                vals.append(('count', 1))
            else:
                vals.append((it[1], r[1]))
        shaped.append((r[0] if grouped else None, vals))
    uniform = len(set(tuple(k for k, _v in vals) for _g, vals in shaped)) <= 1
    groups = {}
    for g, vals in shaped:
        groups.setdefault(g, []).append(vals)
    rows, inconsistent = [], False
    for g in sorted(groups, key=lambda x: (x is not None, x)):
        gv = groups[g]
        if len(set(tuple(k for k, _v in vals) for vals in gv)) > 1:
            return uniform, None
        row = []
        for j, (kind, _v) in enumerate(gv[0]):
            col = [vals[j][1] for vals in gv]
            if kind == 'plain':
                if len(set(col)) > 1:
                    inconsistent = True
                row.append(col[0])
            elif kind == 'count':
                row.append(len(col))
            elif kind == 'ARRAY_AGG':
                row.append(col)
            else:
                nums = [int(c) for c in col]
                row.append({'SUM': sum, 'MAX': max, 'MIN': min}[kind](nums))
        rows.append(row)
    return uniform, (('error',) if inconsistent else ('rows', rows))


def leg_star_ragged(ns, res, rng, count):
    """A star next to aggregates over tables whose records differ in length: the select list then has a different number of columns per record.
    Demanded (statement: every aggregate column equals the aggregate of ITS argument over the group; a non-constant plain column fails the query):
    the query either fails, or every group's record holds the aggregates of that group's own arguments - never an aggregate fed from a shifted column."""
    from ..js import bridge
    node = bridge.Node.start()
    try:
        for n in range(count):
            keys = rng.choice([['x'], ['x', 'y'], ['x', 'y', 'z']])
            A = []
            for _ in range(rng.randrange(1, 7)):
                v = rng.choice(['3', '3', '4', '7', '10', '100'])
                r = [rng.choice(keys), v]
                shape = rng.random()
                if shape < 0.25:
                    r.append(v)
                elif shape < 0.4:
                    r.append(rng.choice(['3', '100', 'w']))
                elif shape < 0.45:
                    r += [v, v]
                A.append(r)
            if rng.random() < 0.3:
                A.sort(key=lambda r: -len(r))
            elif rng.random() < 0.3:
                A.sort(key=len)
            query, items, grouped = STAR_SHAPES[n % len(STAR_SHAPES)]
            uniform, exp = star_ragged_expect(A, items, grouped, 'where' in query)
            for engine in ('py', 'js'):
                out, err = [], None
                if engine == 'py':
                    try:
                        ns.rbql.query_table(query, [list(r) for r in A], out, [])
                    except Exception as e:
                        err = '%s: %s' % (util.error_class(e), str(e)[:160])
                else:
                    if node is None:
                        continue
                    rep = node.call({'op': 'query_table', 'query': query, 'input': A, 'join': None, 'input_cols': None, 'join_cols': None})
                    out = rep.get('out')
                    if rep.get('error') is not None:
                        err = '%s: %s' % (rep['error'].get('cls'), str(rep['error'].get('msg'))[:160])
                res.evaluations += 1
                res.count('star_ragged_runs:' + engine)
                res.count('star_ragged_uniform' if uniform else 'star_ragged_non_uniform')
                res.nontrivial('star-ragged', query, repr(A))
                case = {'leg': 'star-ragged', 'query_text': query, 'A': A, 'engine': engine}
                if exp is None:
                    ok = err is not None
                    want = 'a failure (one group has select lists of different shapes)'
                elif exp[0] == 'error':
                    ok = err is not None
                    want = 'a failure (a plain column is not constant within a group)'
                elif uniform:
                    ok = err is None and out == exp[1]
                    want = repr(exp[1])
                else:
                    ok = err is not None or out == exp[1]
                    want = 'a failure or %r' % (exp[1],)
                if err is not None:
                    res.count('star_ragged_failures_seen')
                if not ok:
                    res.violation('%s:star-aggregate-over-ragged-records' % engine, '[%s] %s over %r -> %r (error %r) ; demanded: %s' % (engine, query, A, out, err, want), case)
    finally:
        if node is not None:
            node.close()


def plan(tier, seed):
    k = NSHARDS[tier]
    return [{'k': k, 'i': i, 'n': CASES[tier] // k} for i in range(k)] + [{'kind': 'typed-aggregates', 'i': i, 'n': 240 if tier == 'quick' else 3000} for i in range(2 if tier == 'quick' else 6)]


def run_shard(spec, res):
    ns = env.import_rbql()
    if spec.get('kind') == 'typed-aggregates':
        return leg_typed_aggregates(ns, res, spec)
    rng = random.Random(spec['seed'] * 15485863 + spec['i'])
    js = common.JsLeg(res, PROPERTY, classify_js)
    if spec['i'] == 0:
        leg_infinite(ns, res)
    if spec['i'] == 1:
        leg_star_ragged(ns, res, rng, 400 if spec['n'] < 2000 else 4000)
    try:
        for n in range(spec['n']):
            builtin = n % 16 == 15
            case = gen_builtin_case(rng) if builtin else gen_case(rng, n, neutral_only=(n % 3 == 0))
            ref = refsem.run(case['q'], case['A'], case['B'], case['a_names'], case['b_names'])
            o = common.run_case_py(ns, case)
            res.evaluations += 1
            res.count('py_builtin_dispatch_cases' if builtin else 'py_aggregate_cases')
            if case['B'] is not None:
                res.count('aggregate_cases_over_join_pairs')
            common.compare(res, PROPERTY, 'py', case, common.obs_to_got(o), ref, False, None)
            common.check_py_monitors(res, case, o)
            if ref.error is not None:
                res.count('predicted_errors')
            if ref.rows:
                res.nontrivial(case['query_text'], repr(case['A']))
                res.count('groups_checked', len(ref.rows))
            for it in case['q']['items']:
                if it['kind'] == 'agg':
                    res.count('agg:' + it.get('spelling', it['func']))
            if n % 1999 == 0:
                res.sample({'query': case['query_text'], 'A': case['A'][:8], 'reference_rows': common.show_ref_rows(ref)[:4], 'reference_error': ref.error and ref.error.what})
            if not builtin:
                js.add(case, ref, False)
    finally:
        js.close()


def summarize(tier, seed, m):
    aggs = {k[4:]: v for k, v in m['counters'].items() if k.startswith('agg:')}
    return {
        'rule': 'aggregate queries with 1-5 aggregates out of COUNT(*|1|x), MIN, MAX, SUM, AVG, VARIANCE, MEDIAN, ARRAY_AGG, ANY_VALUE in upper / lower / capitalised spellings (expression arguments in the Python leg), group keys and constants as plain columns, no GROUP BY / one key / two keys / NR %% k / len(key), optional WHERE and TOP/LIMIT, over tables of 0-40 rows with int, float, mixed int->float, zero-heavy and negative numeric strings, native int / float cells, and integers beyond 2**53 (Python leg only); one case in 16 exercises builtin min/max/sum dispatch in a non-aggregate query; a non-constant plain column is injected in 6%% of the cases and must be rejected with the record number. a typed front-ends leg: one query with all nine aggregates grouped by a string, integer or mixed integer / float key (optionally filtered) over 1-40 records delivered by a dataframe (int64 / float64 / object), a sqlite table (INTEGER / REAL / TEXT) and a CSV reader (numeric strings), integers up to 2**60 (sums and extrema must stay exact integers), floats in quarters (exact rational reference), groups in ascending key order; distinct_nontrivial = distinct (query, table) with at least one result row.',
        'required': ['star_ragged_runs:py', 'star_ragged_runs:js', 'star_ragged_non_uniform', 'star_ragged_failures_seen', 'typed_aggregate_runs:pandas', 'typed_aggregate_runs:sqlite', 'typed_aggregate_runs:csv', 'typed_aggregate_groups', 'py_aggregate_cases', 'py_builtin_dispatch_cases', 'groups_checked', 'predicted_errors', 'js_cases'],
        'extra': {'aggregate_spellings_seen': aggs},
        'assumptions': ['numeric tolerance 1e-9 relative for the results every implementation computes in floating point (AVG, VARIANCE, the mean of the two middle values of MEDIAN, SUM / MIN / MAX over floats); the scale is max(1, |result|, largest |operand|) - for VARIANCE the largest squared operand - because that is what bounds a floating-point sum; integer MIN / MAX / SUM / MEDIAN (odd count) / COUNT are compared exactly, also beyond 2**53 (Python leg)', 'plain (non-aggregate) columns may hold None (a missing cell): None and a value within one group count as non-constant, a group of None only as constant'],
    }


def replay(case, res):
    ns = env.import_rbql()
    if case.get('leg') == 'star-ragged':
        return replay_star_ragged(ns, res, case)
    common.replay_case(ns, res, case, PROPERTY, False, classify_js)


def replay_star_ragged(ns, res, case):
    from ..js import bridge
    query, A = case['query_text'], case['A']
    shape = [sh for sh in STAR_SHAPES if sh[0] == query][0]
    uniform, exp = star_ragged_expect(A, shape[1], shape[2], 'where' in query)
    out, err = [], None
    if case['engine'] == 'py':
        try:
            ns.rbql.query_table(query, [list(r) for r in A], out, [])
        except Exception as e:
            err = '%s: %s' % (util.error_class(e), str(e)[:160])
    else:
        node = bridge.Node.start()
        try:
            rep = node.call({'op': 'query_table', 'query': query, 'input': A, 'join': None, 'input_cols': None, 'join_cols': None})
        finally:
            node.close()
        out = rep.get('out')
        if rep.get('error') is not None:
            err = str(rep['error'])
    res.evaluations += 1
    if exp is None or exp[0] == 'error':
        ok = err is not None
    elif uniform:
        ok = err is None and out == exp[1]
    else:
        ok = err is not None or out == exp[1]
    if not ok:
        res.violation('%s:star-aggregate-over-ragged-records' % case['engine'], '[%s] %s over %r -> %r (error %r)' % (case['engine'], query, A, out, err), case)
