"""C20 - The JavaScript stream reader is independent of chunk boundaries.

Differential monitor inside the node driver: CSVRecordIterator(stream = Readable emitting prescribed Buffers) vs
CSVRecordIterator(csv_path = file with the same bytes).  The Readable logs the chunks it actually emitted.
"""
import random

from .. import env, util
from ..gen import enum

PROPERTY = 'C20'
LEVEL = 'exploration'

ALPHABET = ['a', '"', ',', '\n', '\r', '#']
POLICIES = ['simple', 'quoted', 'quoted_rfc']
MAXLEN = {'quick': 5, 'thorough': 6}
NSHARDS = {'quick': 16, 'thorough': 48}


def utf8_samples():
    return [
        'é,"€\n😀",z\r\nq',
        '﻿a,é\r\nb,"x\ny"\r\n',
        '﻿\r\n€',
        '😀😀\r\n€é\r',
        'a,"é""€"\r\n#😀\r\n"\r\n",b',
        '﻿é',
        # valid text that contains the replacement character itself, and the first / last code point of every encoded length
        'a\ufffdb,"\ufffd"\r\n\ufffd',
        '\x7f\x80,\u07ff\u0800\n\uffff\U00010000,\U0010ffff',
        # canonically decomposed text (base character + combining mark, conjoining jamo): the reader hands the code points on as they are, wherever the cut falls
        'Jose\u0301,o\u0308\r\nA\u030a,"\u1112\u1161\u11ab"\n',
        'e\u0301\u0301\ne\u0301',
    ]


def classify(mm):
    """Known mechanisms (see known_findings.json); anything else stays unlisted."""
    return None


def report(res, out, tag):
    res.evaluations += out['runs'] + out['cases']
    res.count('stream_runs', out['runs'])
    res.count('bulk_runs', out['cases'])
    res.count('faithful_delivery_traces', out['faithful_traces'])
    res.count('mismatch_runs', out['mismatch_runs'])
    for mm in out['mismatches']:
        c = mm['case']
        st, bk = mm['stream'], mm['bulk']
        data = bytes.fromhex(c['bytes_hex'])
        kind = 'stream-differs-from-bulk'
        if st.get('stuck'):
            kind = 'stream-reader-stuck'
        elif (st['error'] is None) != (bk['error'] is None):
            kind = 'stream-error-differs-from-bulk'
        elif st['records'] == bk['records'] and st.get('header') == bk.get('header'):
            kind = 'stream-warnings-differ-from-bulk'
        what = '%s: bytes %r (%s %s comment %r header %s) chunks %r -> stream %s ; bulk %s' % (
            tag, data, c['policy'], c['encoding'], c.get('comment_prefix'), c.get('has_header'), mm['chunks'],
            {k: st.get(k) for k in ('records', 'header', 'warnings', 'error', 'stuck')}, {k: bk.get(k) for k in ('records', 'header', 'warnings', 'error')})
        res.violation(kind, what, {'case': c, 'chunks': mm['chunks']}, finding=classify(mm))


def plan(tier, seed):
    k = NSHARDS[tier]
    specs = [{'kind': 'exhaustive', 'k': k, 'i': i} for i in range(k)]
    specs += [{'kind': 'utf8', 'sample': i} for i in range(len(utf8_samples()))]
    specs.append({'kind': 'truncated'})
    specs.append({'kind': 'overlap'})
    specs.append({'kind': 'bigfile'})
    specs += [{'kind': 'random', 'i': i, 'n': 150 if tier == 'quick' else 1500} for i in range(4)]
    return specs


def start_node(res):
    from ..js import bridge
    node = bridge.Node.start()
    if node is None:
        res.inconclusive.append('node is not available: C20 cannot be decided')
    return node


def run_shard(spec, res):
    tier = spec['tier']
    rng = random.Random(613 * spec['seed'] + spec['shard'])
    node = start_node(res)
    if node is None:
        return
    try:
        kind = spec['kind']
        if kind == 'exhaustive':
            cases = []
            idx = 0
            for tup in enum.words(ALPHABET, MAXLEN[tier], 1):
                idx += 1
                if idx % spec['k'] != spec['i']:
                    continue
                text = ''.join(tup)
                hx = text.encode().hex()
                for policy in POLICIES:
                    for comment in (None, '#'):
                        enc = 'utf-8' if (idx + len(cases)) % 2 else 'binary'
                        cases.append({'bytes_hex': hx, 'encoding': enc, 'delim': ',', 'policy': policy, 'comment_prefix': comment, 'has_header': False})
                        if '\n' in text or '\r' in text or '"' in text:
                            res.distinct_disjoint += 1
                if len(tup) <= 4:
                    cases.append({'bytes_hex': hx, 'encoding': 'utf-8', 'delim': ',', 'policy': 'quoted_rfc', 'comment_prefix': '#', 'has_header': True})
                if len(cases) >= 600:
                    report(res, node.call({'op': 'stream_vs_bulk', 'cases': cases}), 'exhaustive')
                    cases = []
            if cases:
                report(res, node.call({'op': 'stream_vs_bulk', 'cases': cases}), 'exhaustive')
            res.count('exhaustive_inputs', idx // spec['k'])
            res.sample({'bytes': 'a,"\\r\\n#', 'partitions': 'all 2^(n-1)', 'policies': POLICIES, 'comment_prefix': [None, '#']})
        elif kind == 'utf8':
            text = utf8_samples()[spec['sample']]
            data = text.encode('utf-8')
            n = len(data)
            parts = None
            if n > (14 if tier == 'quick' else 18):
                # every single cut point and every pair of cut points (covers every boundary inside every multi-byte character), plus byte-by-byte
                parts = [[n]] + [[i, n - i] for i in range(1, n)] + [[i, j - i, n - j] for i in range(1, n) for j in range(i + 1, n)] + [[1] * n]
                if tier == 'thorough':
                    parts += [[i, j - i, k - j, n - k] for i in range(1, n) for j in range(i + 1, n) for k in range(j + 1, n)]
                    for _ in range(20000):
                        lens, left = [], n
                        while left:
                            c = min(left, rng.choice([1, 1, 2, 3, 4]))
                            lens.append(c)
                            left -= c
                        parts.append(lens)
            cases = []
            for policy in POLICIES:
                for comment in (None, '#'):
                    c = {'bytes_hex': data.hex(), 'encoding': 'utf-8', 'delim': ',', 'policy': policy, 'comment_prefix': comment, 'has_header': False}
                    if parts is not None:
                        c['partitions'] = parts
                    cases.append(c)
                    res.distinct_disjoint += 1
            out = node.call({'op': 'stream_vs_bulk', 'cases': cases})
            report(res, out, 'utf8-sample')
            res.count('utf8_sample_runs', out['runs'])
            if out['bulk_errors']:
                res.violation('valid-utf8-rejected-by-bulk', 'bulk reader rejected valid UTF-8 %r' % text, {'text': text})
            res.sample({'utf8_sample': text, 'bytes': n, 'partitions': len(parts) if parts else 2 ** (n - 1)})
        elif kind == 'overlap':
            # two iterators alive at the same time (a JOIN in stream mode): A's first chunk ends at every byte offset - also inside a multi-byte
            # character and inside a CRLF pair - when B is created and read
            samples = [s for s in utf8_samples()]
            cases, meta = [], []
            for ta in samples:
                da = ta.encode('utf-8')
                for tb in (samples[0], 'x,y\r\né,€\r\n'):
                    db = tb.encode('utf-8')
                    for cut in range(1, len(da)):
                        for policy in ('quoted_rfc', 'simple'):
                            base = {'encoding': 'utf-8', 'delim': ',', 'policy': policy, 'has_header': False, 'comment_prefix': None}
                            cases.append({'a': dict(base, bytes_hex=da.hex(), chunks=[cut, len(da) - cut]), 'b': dict(base, bytes_hex=db.hex(), chunks=[max(1, len(db) // 2), len(db) - max(1, len(db) // 2)])})
                            meta.append((ta, tb, cut, policy))
            bulk = {}
            for text in set([m[0] for m in meta] + [m[1] for m in meta]):
                for policy in ('quoted_rfc', 'simple'):
                    o = node.call({'op': 'read', 'bytes_hex': text.encode('utf-8').hex(), 'chunks': None, 'encoding': 'utf-8', 'delim': ',', 'policy': policy, 'has_header': False, 'comment_prefix': None})
                    bulk[(text, policy)] = (o['records'], o['error'] and o['error']['cls'])
            outs = node.call({'op': 'overlap_batch', 'cases': cases})['results']
            for (ta, tb, cut, policy), o in zip(meta, outs):
                res.evaluations += 1
                res.count('overlap_runs')
                res.distinct_disjoint += 1
                for side, text in (('a', ta), ('b', tb)):
                    got = (o[side]['records'], o[side]['error'] and o[side]['error']['cls'])
                    want = bulk[(text, policy)]
                    if o[side].get('stuck') or o.get('driver_exception') or (got != want and not (want[1] is not None and got[1] == want[1])):
                        res.violation('overlapping-iterators-differ-from-bulk', 'two stream iterators alive at once (%s): A = %r cut after byte %d, B = %r: iterator %s -> %r (stuck %s, driver %r), bulk -> %r' % (
                            policy, ta, cut, tb, side.upper(), got, o[side].get('stuck'), o.get('driver_exception'), want), {'leg': 'overlap', 'a': ta, 'b': tb, 'cut': cut, 'policy': policy})
            res.sample({'overlap': 'A cut at every byte offset, B read in between', 'cases': len(cases)})
        elif kind == 'truncated':
            # truncated multi-byte sequences at end of stream: both modes must reject (same error class)
            cases = []
            for text in ['a,é', 'x\n€', 'q😀']:
                data = text.encode('utf-8')
                for cutoff in range(1, 4):
                    d = data[:-cutoff]
                    if not d or d.decode('utf-8', 'ignore').encode('utf-8') == d:
                        continue
                    cases.append({'bytes_hex': d.hex(), 'encoding': 'utf-8', 'delim': ',', 'policy': 'quoted', 'comment_prefix': None, 'has_header': False})
            for bad in [b'a\xffb\n', b'\xc0\x80', b'a,\xed\xa0\x80\n', b'ab\x80', b'\xe2\x82']:
                cases.append({'bytes_hex': bad.hex(), 'encoding': 'utf-8', 'delim': ',', 'policy': 'quoted', 'comment_prefix': None, 'has_header': False})
            out = node.call({'op': 'stream_vs_bulk', 'cases': cases})
            report(res, out, 'invalid-utf8')
            res.count('invalid_utf8_cases', len(cases))
            if out['bulk_errors'] != len(cases):
                res.violation('invalid-utf8-accepted-by-bulk', 'bulk reader accepted %d of %d invalid inputs' % (len(cases) - out['bulk_errors'], len(cases)), {'cases': cases})
            res.distinct_disjoint += len(cases)
        elif kind == 'bigfile':
            # real fs.createReadStream (64 KiB chunks): a multi-byte character and a CRLF straddling the chunk boundary
            for pad in (65536 - 3, 65536 - 2, 65536 - 1, 65536, 65536 + 1):
                for filler, enc in (('€', 'utf-8'), ('\r\n', 'utf-8'), ('\r\n', 'binary'), ('"x\r\ny",😀\r\n', 'utf-8')):
                    head = 'a' * (pad - 4) + ',b\r\n'
                    body = head[:pad - 1] if False else head
                    text = body[:pad - 1] + filler * 40 + '\nlast,line'
                    text = text + ('\r\nz,"q\nq"' * 3000 if pad == 65536 else '')
                    data = text.encode('utf-8') if enc == 'utf-8' else text.encode('latin-1', 'ignore')
                    out = node.call({'op': 'read_file_stream', 'bytes_hex': data.hex(), 'encoding': enc, 'delim': ',', 'policy': 'quoted_rfc'})
                    res.evaluations += 1
                    res.count('bigfile_runs')
                    res.distinct_disjoint += 1
                    st, bk = out['stream'], out['bulk']
                    res.count('bigfile_chunks_emitted', len(st['emitted']))
                    key = lambda r: (r['records'], sorted(r['warnings']), r['error'] and r['error']['cls'], r['stuck'])
                    if key(st) != key(bk):
                        nrec = (len(st['records']), len(bk['records']))
                        res.violation('bigfile-stream-differs-from-bulk', 'file of %d bytes (%s, boundary filler %r at offset %d) read through fs.createReadStream (chunks %r): %d records, error %r; bulk: %d records, error %r' % (
                            len(data), enc, filler, pad, st['emitted'][:4], nrec[0], st['error'], nrec[1], bk['error']), {'pad': pad, 'filler': filler, 'encoding': enc}, finding=None)
            # many short records: one 64 KiB chunk carries thousands of them (the reader's internal record queue grows in bursts); real file stream,
            # one single chunk, 64 KiB chunks offered synchronously, small chunks offered one per event-loop turn
            for nrec in ((5000, 9000, 70000) if tier == 'quick' else (4097, 5000, 9000, 20000, 40000, 70000, 150000)):
                for shape in (('short', 'mixed') if nrec < 70000 else ('tiny',)):
                    # tiny: two or three bytes per line - more than 20000 records per 64 KiB chunk, several chunks: the consumer runs far ahead of the producer
                    lines = ['%d,%s' % (i, 'x' if shape == 'short' or i % 50 else '"multi\nline %d"' % i) for i in range(nrec)] if shape != 'tiny' else [str(i % 97) for i in range(nrec)]
                    text = rng.choice(['\n', '\r\n']).join(lines) + '\n'
                    data = text.encode('utf-8')
                    out = node.call({'op': 'read_file_stream', 'bytes_hex': data.hex(), 'encoding': 'utf-8', 'delim': ',', 'policy': 'quoted_rfc'})
                    res.evaluations += 1
                    res.count('bigfile_runs')
                    res.count('many_record_runs')
                    res.distinct_disjoint += 1
                    st, bk = out['stream'], out['bulk']
                    key = lambda r: (r['records'], sorted(r['warnings']), r['error'] and r['error']['cls'], r['stuck'])
                    if key(st) != key(bk) or len(bk['records']) != nrec:
                        res.violation('bigfile-stream-differs-from-bulk', 'file of %d short records (%d bytes, %s) read through fs.createReadStream: %d records, error %r, stuck %r; bulk: %d records, error %r' % (
                            nrec, len(data), shape, len(st['records']), st['error'], st['stuck'], len(bk['records']), bk['error']), {'records': nrec, 'shape': shape, 'leg': 'many-records'}, finding=None)
                    n = len(data)
                    parts = [[n], [65536] * (n // 65536) + ([n % 65536] if n % 65536 else []), [n // 2, n - n // 2], [10, n - 10], [n - 7, 7]]
                    for asyncd in (False, True, 'lagging', 'latin-1'):
                        c = {'bytes_hex': data.hex(), 'encoding': 'utf-8', 'delim': ',', 'policy': 'quoted_rfc', 'comment_prefix': None, 'has_header': False, 'partitions': parts, 'async_delivery': bool(asyncd)}
                        if asyncd == 'latin-1':
                            # the same bytes (ASCII) read as latin-1 / binary: the whole file in one chunk, 64 KiB chunks, halves (chunks of hundreds of kilobytes)
                            c['encoding'] = 'binary'
                            c['async_delivery'] = False
                            res.count('many_record_runs_latin1')
                        if asyncd == 'lagging':
                            # chunks of a few hundred bytes, one per event-loop turn, to a consumer that yields every few records: the backlog between
                            # producer and consumer grows to tens and hundreds of records and drains again, many times over
                            if nrec > 9000:
                                continue
                            csz = rng.choice([150, 333, 1000])
                            c['partitions'] = [[csz] * (n // csz) + ([n % csz] if n % csz else [])]
                            c['consumer_pause_every'] = rng.choice([1, 2, 5])
                            res.count('many_record_runs_lagging_consumer')
                        o2 = node.call({'op': 'stream_vs_bulk', 'cases': [c]})
                        res.count('many_record_runs', o2['runs'])
                        for mm in o2['mismatches']:
                            mm['case'] = dict(mm['case'], bytes_hex=mm['case']['bytes_hex'][:200])
                            for side in ('stream', 'bulk'):
                                mm[side] = dict(mm[side], records='%d records' % len(mm[side].get('records') or []))
                        report(res, o2, 'many-records(%d,%s,%s)' % (nrec, shape, {False: 'sync', True: 'async', 'lagging': 'async, lagging consumer', 'latin-1': 'sync, latin-1'}[asyncd]))
            res.sample({'bigfile': '64 KiB +/- 3 bytes with a multi-byte character / CRLF / multi-line record straddling the default chunk boundary; 200 KiB file'})
        elif kind == 'random':
            alpha = ['a', 'b', '"', '"', ',', ',', '\n', '\r', '\r\n', '#', ' ', 'é', '€', '😀', '""', '\ufffd', '\uffff', '\u0800']
            cases = []
            for _ in range(spec['n']):
                text = ''.join(rng.choice(alpha) for _ in range(rng.randrange(4, 40)))
                data = text.encode('utf-8')
                parts = []
                for _j in range(8):
                    lens, left = [], len(data)
                    while left:
                        k = min(left, rng.choice([1, 1, 2, 3, 5, 8, 13]))
                        lens.append(k)
                        left -= k
                    parts.append(lens)
                cases.append({'bytes_hex': data.hex(), 'encoding': 'utf-8', 'delim': rng.choice([',', ',', ' ', '""'[:0] or ';']), 'policy': rng.choice(POLICIES),
                              'comment_prefix': rng.choice([None, '#']), 'has_header': rng.random() < 0.3, 'partitions': parts, 'async_delivery': rng.random() < 0.5})
                # a third of the asynchronously delivered cases are read by a consumer that yields to the event loop every so many records
                if cases[-1]['async_delivery'] and rng.random() < 0.6:
                    cases[-1]['consumer_pause_every'] = rng.choice([1, 2, 3])
                    res.count('random_cases_with_lagging_consumer')
                res.nontrivial('rnd', text)
            out = node.call({'op': 'stream_vs_bulk', 'cases': cases})
            report(res, out, 'random')
            res.count('random_runs', out['runs'])
        noise = node.take_noise()
        if noise:
            res.violation('node-async-noise', 'unhandled rejection / uncaught exception / warning in node while reading: %r' % (noise[:3],), {'noise': noise[:3], 'spec': spec})
    finally:
        node.close()


def summarize(tier, seed, m):
    return {
        'rule': 'every input of 1..%d bytes over {a, quote, comma, LF, CR, #} x all 2^(n-1) chunkings x policies {simple, quoted, quoted_rfc} x comment prefix {none, #} (utf-8 and binary), header on for n <= 4; %d UTF-8 samples with 2-, 3-, 4-byte characters and a leading BOM cut at every byte (all chunkings for samples up to 14 bytes in the quick tier / 18 bytes in the thorough tier; for longer samples every 1- and 2-cut chunking (thorough: also 3-cut and 20000 random chunkings) and byte-by-byte delivery); truncated / invalid sequences (both modes must reject); two stream iterators alive at the same time (the first chunk of the first cut at every byte offset, the second read completely in between), each compared with the bulk reading of its own content; files around the 64 KiB default chunk size through fs.createReadStream; files of 5000-150000 short records (down to two bytes per line: more than 20000 records per chunk) (thousands per chunk: the record queue grows in bursts) through fs.createReadStream, as one chunk, as 64 KiB chunks and with odd first / last chunks, delivered synchronously and one chunk per event-loop turn; random longer inputs. distinct_nontrivial = (input, configuration) pairs containing a line break, a quote or a multi-byte character.' % (MAXLEN[tier], len(utf8_samples())),
        'exhaustive': True,
        'required': ['many_record_runs', 'many_record_runs_lagging_consumer', 'many_record_runs_latin1', 'random_cases_with_lagging_consumer', 'overlap_runs', 'stream_runs', 'bulk_runs', 'utf8_sample_runs', 'bigfile_runs', 'faithful_delivery_traces'],
        'assumptions': ['the bulk reader is the reference for what the file contains (C18 ties it to the Python reader)',
                        'a reader is reported stuck when its promise is still pending 200 event-loop turns after the stream ended (logical time)'],
    }


def replay(case, res):
    node = start_node(res)
    if node is None:
        return
    try:
        if 'case' in case:
            c = dict(case['case'])
            c['partitions'] = [case['chunks']]
            report(res, node.call({'op': 'stream_vs_bulk', 'cases': [c]}), 'replay')
        else:
            res.notes.append('replay: run ./check C20 quick for this leg')
    finally:
        node.close()
