"""C14 - Errors name the first offending record; warnings appear iff the anomaly occurred.

Oracles: rv.model.refsem error prediction (first failing record in evaluation order, per clause), a per-anomaly warning predictor
built on rv.model.refcsv.  Record numbers are extracted with a tolerant pattern - error texts are never compared.  The probe
writer's log shows whether any data record was written before a parsing error.
"""
import io
import random

from .. import env, util
from ..model import qast, refcsv, refsem
from ..monitors import boundary
from . import common

PROPERTY = 'C14'
LEVEL = 'fault_enumeration'

CLAUSES = ['select', 'where', 'order', 'group', 'aggarg', 'aggarg-expr', 'update-rhs', 'update-target', 'join-a', 'join-a-multi', 'join-b', 'join-b-multi', 'select-upper', 'where-upper', 'unnest']


def base_query():
    return {'kind': 'select', 'items': [], 'distinct': None, 'top': None, 'top_kw': 'top', 'where': None, 'join': None, 'order': None, 'group': None, 'except': None, 'assign': [], 'with': None}


def fld(j, sp='var', t='a'):
    return ['field', t, j, sp]


def poison_case(clause, n, ks, rng):
    """Table of n records, poisoned at the (1-based) positions ks; -> case.  Good cells are numeric strings."""
    A = [[str((i * 7) % 5 + 1), 'v%d' % i, 'k%d' % (i % 2)] for i in range(n)]
    B = None
    q = base_query()
    sp = rng.choice(['var', 'arr'])
    if clause in ('select', 'where', 'order', 'group', 'aggarg', 'aggarg-expr', 'update-rhs', 'unnest'):
        for k in ks:
            A[k - 1][0] = rng.choice(['x', '', '1.5x', 'None'] if clause not in ('aggarg',) else ['x', '1.5x', 'None', '1,5'])   # '' is 0 for JS Number(): a host-language difference, not a poison there
        bad = ['int_of', fld(0, sp)]
        if clause == 'select':
            q['items'] = [{'kind': 'expr', 'expr': fld(1)}, {'kind': 'expr', 'expr': bad}]
        elif clause == 'where':
            q['items'] = [{'kind': 'expr', 'expr': fld(1)}]
            q['where'] = ['cmp', '>', bad, ['int', 0]]
        elif clause == 'order':
            q['items'] = [{'kind': 'expr', 'expr': fld(1)}]
            q['order'] = {'keys': [bad], 'desc': rng.random() < 0.5, 'asc_kw': False}
        elif clause == 'group':
            q['items'] = [{'kind': 'agg', 'func': 'COUNT', 'spelling': 'COUNT', 'arg': '*'}]
            q['group'] = [bad]
        elif clause == 'aggarg':
            q['items'] = [{'kind': 'agg', 'func': rng.choice(['SUM', 'MIN', 'MAX', 'AVG', 'MEDIAN', 'VARIANCE']), 'spelling': 'SUM', 'arg': fld(0, sp)}]
            q['items'][0]['spelling'] = q['items'][0]['func']
            q['group'] = [fld(2)] if rng.random() < 0.5 else None
        elif clause == 'aggarg-expr':
            q['items'] = [{'kind': 'agg', 'func': 'MAX', 'spelling': 'MAX', 'arg': bad}, {'kind': 'agg', 'func': 'COUNT', 'spelling': 'count', 'arg': '*'}]
        elif clause == 'update-rhs':
            q['kind'] = 'update'
            q['assign'] = [[fld(1), bad]]
            if rng.random() < 0.3:
                q['where'] = ['cmp', '>', ['NR'], ['int', 0]]
        elif clause == 'unnest':
            q['items'] = [{'kind': 'unnest', 'expr': ['list', [bad, ['int', 0]]], 'spelling': 'UNNEST'}, {'kind': 'expr', 'expr': fld(1)}]
    elif clause in ('select-upper', 'where-upper'):
        # missing field under .upper(): the poisoned records are too short
        for k in ks:
            A[k - 1] = A[k - 1][:2]
        bad = ['upper', fld(2, sp)]
        if clause == 'select-upper':
            q['items'] = [{'kind': 'expr', 'expr': bad}]
        else:
            q['items'] = [{'kind': 'expr', 'expr': fld(0)}]
            q['where'] = ['cmp', '!=', bad, ['str', 'ZZ']]
    elif clause == 'update-target':
        for k in ks:
            A[k - 1] = A[k - 1][:2]
        q['kind'] = 'update'
        q['assign'] = [[fld(2, sp), ['str', 'new']]]
    elif clause == 'join-a':
        for k in ks:
            A[k - 1] = A[k - 1][:2]
        B = [['k0', 'B0'], ['k1', 'B1']]
        q['items'] = [{'kind': 'expr', 'expr': fld(0)}, {'kind': 'expr', 'expr': fld(1, 'var', 'b')}]
        q['join'] = {'type': rng.choice(['JOIN', 'LEFT JOIN']), 'table': 'b', 'pairs': [[fld(2, sp), fld(0, 'var', 'b'), '==', False]]}
    elif clause == 'join-a-multi':
        # a composite key over non-adjacent columns; the short record still has the first of them
        for k in ks:
            A[k - 1] = A[k - 1][:1]
        B = [[str(v), 'k%d' % j, 'B%d%d' % (v, j)] for v in range(1, 6) for j in range(2)]
        q['items'] = [{'kind': 'expr', 'expr': fld(0)}, {'kind': 'expr', 'expr': fld(2, 'var', 'b')}]
        q['join'] = {'type': rng.choice(['JOIN', 'LEFT JOIN']), 'table': 'b', 'pairs': [[fld(0, 'var'), fld(0, 'var', 'b'), '==', False], [fld(2, sp), fld(1, 'var', 'b'), '==', False]]}
    elif clause == 'join-b':
        B = [['k%d' % (i % 2), 'B%d' % i] for i in range(n)]
        for k in ks:
            B[k - 1] = B[k - 1][:1]
        q['items'] = [{'kind': 'expr', 'expr': fld(0)}]
        q['join'] = {'type': rng.choice(['JOIN', 'LEFT JOIN']), 'table': 'b', 'pairs': [[fld(2), fld(1, sp, 'b'), '==', False]]}
    elif clause == 'join-b-multi':
        # a composite key on the join table over its first and third column; the short join record is cut to two fields (exactly one short of the
        # rightmost key column), to one, or to none - by the position of the poisoned record
        B = [['k%d' % (i % 2), 'x', 'B%d' % i] for i in range(n)]
        for k in ks:
            B[k - 1] = B[k - 1][:(2, 1, 2, 0)[k % 4]]
        q['items'] = [{'kind': 'expr', 'expr': fld(0)}]
        pairs = [[fld(2), fld(2, sp, 'b'), '==', False], [fld(0), fld(0, 'var', 'b'), '==', False]]
        if n % 2:
            pairs.reverse()
        q['join'] = {'type': rng.choice(['JOIN', 'LEFT JOIN']), 'table': 'b', 'pairs': pairs}
    return common.case_json(q, {'A': A, 'B': B, 'a_names': None, 'b_names': None}, extra={'clause': clause, 'poison': ks})


PARSING_QUERIES = [
    ('two-where', 'select a1 where a1 == "x" where a2 == "y"'),
    ('select-not-first', 'where a1 == "x" select a1'),
    ('select-and-update', 'select a1 update a2 = 1'),
    ('order-by-in-update', 'update a1 = "x" order by a1'),
    ('assignment-in-where', 'select a1 where a1 = "x"'),
    ('assignment-in-where-parenthesised', 'select a1 where (a1 = "x")'),
    ('assignment-in-where-nested', 'select a1 where a2 == "y" and (a1 = "x" or a2 == "z")'),
    ('assignment-in-where-after-call', 'select a1 where len(a1) = 1'),
    ('assignment-in-where-no-spaces', 'select a1 where a1 == "x" and a2="y"'),
    ('assignment-in-where-under-not', 'select a1 where not(a1 =  "x")'),
    ('assignment-in-update-where', 'update a1 = "k" where (a2 = "y")'),
    ('bad-limit', 'select a1 limit x'),
    ('except-with-join', 'select * except a1 join b on a1 == b1'),
    ('unknown-update-field', 'update a.nosuch = 1'),
    ('unknown-except-field', 'select * except a.nosuch'),
    ('unknown-join-field', 'select a1 join b on a1 == b.nosuch'),
    ('bad-join-syntax', 'select a1 join b a1 == b1'),
    ('star-and-alias-without-header', 'select *, a1 as x'),
    ('aggregate-with-order-by', 'select a1, COUNT(*) order by a1'),
    ('aggregate-inside-expression', 'select str(COUNT(1)) + "x"'),
    ('aggregate-method-call', 'select MAX(a1).strip()'),
    ('aggregate-attribute', 'select a2, COUNT(a1).real group by a2'),
    ('aggregate-as-dictionary-key', 'select {"5": "five"}[MIN(a1)]'),
    ('aggregate-in-arithmetic', 'select SUM(a1) / 2'),
    ('aggregate-in-format', 'select "%s" % MAX(a1)'),
    ('double-unnest', 'select UNNEST([1, 2]), UNNEST([3, 4])'),
    ('no-select-no-update', 'where a1 == "x"'),
    ('missing-join-table', 'select a1 join nosuch on a1 == b1'),
    ('update-without-assignment', 'update "x"'),
    ('empty-select', 'select'),
    ('group-by-in-update', 'update a1 = "x" group by a1'),
    ('two-joins', 'select a1 join b on a1 == b1 join b on a2 == b2'),
    ('distinct-aggregate', 'select distinct COUNT(*)'),
    # text in front of the leading keyword that holds no other clause keyword
    ('typo-before-select', 'selec a1, a2 select a2'),
    ('prompt-before-select', 'rbql> select a1'),
    ('top-before-select', 'top 1 select a1'),
    ('number-before-select', '1 select a1, a2'),
    ('set-before-update', 'set a1 = "x" update a2 = "y"'),
    ('assignment-before-update', 'a3 = "zzz" update a1 = "x"'),
    ('paren-before-select', '( select a1 )'),
]
JS_PARSING_QUERIES = [
    ('two-where', 'select a1 where a1 == "x" where a2 == "y"'),
    ('select-not-first', 'where a1 == "x" select a1'),
    ('select-and-update', 'select a1 update a2 = 1'),
    ('order-by-in-update', 'update a1 = "x" order by a1'),
    ('assignment-in-where', 'select a1 where a1 = "x"'),
    ('assignment-in-where-parenthesised', 'select a1 where (a1 = "x")'),
    ('assignment-in-where-nested', 'select a1 where a2 == "y" && (a1 = "x" || a2 == "z")'),
    ('assignment-in-where-after-member', 'select a1 where a1.length = 1'),
    ('assignment-in-where-no-spaces', 'select a1 where a1 == "x" && a2="y"'),
    ('assignment-in-where-under-not', 'select a1 where !(a1 =  "x")'),
    ('assignment-in-where-beside-strict-comparisons', 'select a1 where a1 === "x" && a2 !== "y" && a3 = "z"'),
    ('assignment-in-update-where', 'update a1 = "k" where (a2 = "y")'),
    ('bad-limit', 'select a1 limit x'),
    ('except-with-join', 'select * except a1 join b on a1 == b1'),
    ('unknown-update-field', 'update a.nosuch = 1'),
    ('unknown-except-field', 'select * except a.nosuch'),
    ('unknown-join-field', 'select a1 join b on a1 == b.nosuch'),
    ('bad-join-syntax', 'select a1 join b a1 == b1'),
    ('star-and-alias-without-header', 'select *, a1 as x'),
    ('aggregate-with-order-by', 'select a1, COUNT(*) order by a1'),
    ('aggregate-inside-expression', 'select String(COUNT(1)) + "x"'),
    ('aggregate-attribute', 'select a2, COUNT(a1).real group by a2'),
    ('aggregate-in-arithmetic', 'select SUM(a1) / 2'),
    ('double-unnest', 'select UNNEST([1, 2]), UNNEST([3, 4])'),
    ('no-select-no-update', 'where a1 == "x"'),
    ('update-without-assignment', 'update "x"'),
    ('empty-select', 'select'),
    ('group-by-in-update', 'update a1 = "x" group by a1'),
    ('two-joins', 'select a1 join b on a1 == b1 join b on a2 == b2'),
    ('distinct-aggregate', 'select distinct COUNT(*)'),
    ('typo-before-select', 'selec a1, a2 select a2'),
    ('prompt-before-select', 'rbql> select a1'),
    ('top-before-select', 'top 1 select a1'),
    ('number-before-select', '1 select a1, a2'),
    ('set-before-update', 'set a1 = "x" update a2 = "y"'),
    ('assignment-before-update', 'a3 = "zzz" update a1 = "x"'),
    ('paren-before-select', '( select a1 )'),
]
NEEDS_HEADER = {'unknown-update-field', 'unknown-except-field', 'unknown-join-field'}
NO_HEADER = {'star-and-alias-without-header'}


def leg_poison(ns, res, spec):
    rng = random.Random(spec['seed'] * 7 + spec['shard'])
    js = common.JsLeg(res, PROPERTY, common.classify_known_js)
    try:
        for clause in CLAUSES:
            for n in range(1, 7 if spec['tier'] == 'quick' else 9):
                for k in range(1, n + 1):
                    for second in [None] + [j for j in range(k + 1, n + 1)][:2]:
                        ks = [k] + ([second] if second else [])
                        case = poison_case(clause, n, ks, rng)
                        ref = refsem.run(case['q'], case['A'], case['B'])
                        o = common.run_case_py(ns, case)
                        res.evaluations += 1
                        res.count('poison_runs')
                        res.count('poison:' + clause)
                        res.distinct_disjoint += 1
                        if ref.error is None or ref.error.record != k:
                            res.inconclusive.append('poison scenario %s/%r did not produce the expected reference error (%r)' % (clause, ks, ref.error))
                            continue
                        ok = common.compare(res, PROPERTY, 'py', case, common.obs_to_got(o), ref, False, None)
                        if ok and ref.error.field is not None and ref.error.table == 'a' and o.error_msg is not None:
                            res.count('field_name_checks')
                            if ('a%d' % ref.error.field) not in o.error_msg and ('a[%d]' % ref.error.field) not in o.error_msg:
                                res.violation('py:bad-field-not-named:' + clause, '[py] error must name field a%d: %r (%s)' % (ref.error.field, o.error_msg, case['query_text']), dict(case, engine='py'))
                        if ok and second is not None:
                            nums = util.record_numbers(o.error_msg or '')
                            if second in nums and k not in nums:
                                res.violation('py:error-names-later-record:' + clause, '[py] error names record %d, the first offending one is %d' % (second, k), dict(case, engine='py'))
                        js.add(case, ref, False)
                        if clause == 'select' and n == 3 and k == 2 and second is None:
                            res.sample({'leg': 'poison', 'clause': clause, 'query': case['query_text'], 'A': case['A'], 'error': o.error, 'message': o.error_msg})
        # clean controls: the same scenarios without poison must not fail
        for clause in CLAUSES:
            case = poison_case(clause, 4, [], rng)
            ref = refsem.run(case['q'], case['A'], case['B'])
            o = common.run_case_py(ns, case)
            res.evaluations += 1
            res.count('poison_controls')
            common.compare(res, PROPERTY, 'py', case, common.obs_to_got(o), ref, False, None)
    finally:
        js.close()



def leg_frontend_poison(ns, res, spec):
    """The poisoned record reaches the engine through a front-end whose own numbering differs from the record number: a CSV file with a header line,
    comment lines and multi-line cells (record k is not line k), a dataframe with a non-default index, a sqlite table with gaps in rowid; library and
    command line.  The error must be a query-execution error naming record k."""
    import os
    import shutil
    import sqlite3
    import subprocess
    import sys
    import tempfile
    import pandas as pd
    rng = random.Random(spec['seed'] * 23 + spec['shard'])
    d = tempfile.mkdtemp(prefix='rv-c14-')
    queries = [('select a1, int(a2)', 'runtime'), ('select a1 where int(a2) > 0', 'runtime'), ('update a2 = int(a2) + 1', 'runtime'), ('select a1, MAX(a2) group by a1', 'runtime'),
               ('select a1 order by int(a2)', 'runtime'), ('select a1, a2.nosuchmethod()', 'runtime')]
    try:
        for n in range(2, 7):
            for k in range(1, n + 1):
                for qtext, _cls in queries:
                    if 'nosuchmethod' in qtext and k != 1:
                        continue          # fails on the first record whatever the data
                    rows = [['k%d' % i, str(i * 3)] for i in range(1, n + 1)]
                    if 'nosuchmethod' not in qtext:
                        rows[k - 1][1] = 'x%d' % k
                    names = ['id', 'val']
                    # CSV: header, comments, a multi-line cell in an earlier record
                    lines = ['id,val']
                    for i, r in enumerate(rows):
                        if rng.random() < 0.4:
                            lines.append('#note %d' % i)
                        lines.append(('"%s\nmore"' % r[0] if (i + 1 < k and rng.random() < 0.5) else r[0]) + ',' + r[1])
                    text = '\n'.join(lines) + '\n'
                    inp = os.path.join(d, 'in.csv')
                    with open(inp, 'w', newline='') as f:
                        f.write(text)
                    observed = {}
                    try:
                        ns.rbql.query_csv(qtext, inp, ',', 'quoted_rfc', os.path.join(d, 'o.csv'), ',', 'quoted_rfc', 'utf-8', [], True, '#')
                        observed['query_csv'] = (None, '')
                    except Exception as e:
                        observed['query_csv'] = (util.error_class(e), str(e))
                    if (n + k) % 3 == 0:
                        e_ = dict(os.environ, PYTHONPATH=env.PY_PKG_DIR, PYTHONDONTWRITEBYTECODE='1', HOME=d, PYTHONWARNINGS='ignore')
                        p = subprocess.run([sys.executable, '-W', 'ignore', '-m', 'rbql', '--input', inp, '--delim', ',', '--policy', 'quoted_rfc', '--with-headers', '--comment-prefix', '#', '--query', qtext, '--output', os.path.join(d, 'o2.csv')],
                                           env=e_, cwd=d, stdout=subprocess.PIPE, stderr=subprocess.PIPE, timeout=120)
                        msg = p.stderr.decode('utf-8', 'replace')
                        observed['cli'] = ('runtime' if 'Error [query execution]' in msg else (None if p.returncode == 0 else 'other'), msg)
                    df = pd.DataFrame(rows, columns=names, index=[100 + 7 * i for i in range(n)])
                    try:
                        ns.rbql.query_pandas_dataframe(qtext, df, [])
                        observed['pandas'] = (None, '')
                    except Exception as e:
                        observed['pandas'] = (util.error_class(e), str(e))
                    conn = sqlite3.connect(':memory:')
                    conn.execute('CREATE TABLE t (id TEXT, val TEXT)')
                    conn.executemany('INSERT INTO t VALUES (?, ?)', [['gap', '0']] + rows[:1] + [['gap', '0']] + rows[1:])
                    conn.execute("DELETE FROM t WHERE id = 'gap'")
                    conn.commit()
                    try:
                        ns.sqlite.query_sqlite_to_csv(qtext, conn, 't', os.path.join(d, 'o3.csv'), ',', 'quoted', 'utf-8', [])
                        observed['sqlite'] = (None, '')
                    except Exception as e:
                        observed['sqlite'] = (util.error_class(e), str(e))
                    conn.close()
                    for fe, (cls, msg) in sorted(observed.items()):
                        res.evaluations += 1
                        res.count('frontend_poison_runs')
                        res.count('frontend_poison_runs:' + fe)
                        res.distinct_disjoint += 1
                        case = {'leg': 'frontend-poison', 'front_end': fe, 'query_text': qtext, 'n': n, 'k': k, 'csv_text': text}
                        if cls != 'runtime':
                            res.violation('py:frontend-poison-error-class:' + fe, '[py/%s] %s with record %d of %d poisoned: error class %r (%s), expected a query-execution error' % (fe, qtext, k, n, cls, msg[:150]), case)
                        elif k not in util.record_numbers(msg):
                            res.violation('py:frontend-poison-wrong-record:' + fe, '[py/%s] %s with record %d of %d poisoned: the message %r does not name record %d (CSV text %r)' % (fe, qtext, k, n, msg[:150], k, text), case)
        res.sample({'leg': 'frontend-poison', 'queries': [q for q, _c in queries], 'front_ends': ['query_csv', 'cli', 'pandas', 'sqlite']})
    finally:
        shutil.rmtree(d, ignore_errors=True)


def leg_parsing(ns, res, spec):
    rng = random.Random(spec['seed'] * 13 + spec['shard'])
    for name, qtext in PARSING_QUERIES:
        for variant in range(6):
            A = [['a', 'b', 'c'], ['x', 'y', 'z'], ['a', 'y', 'c']][:rng.randrange(1, 4)]
            B = [['a', 'J'], ['x', 'K']]
            hdr = name in NEEDS_HEADER or (name not in NO_HEADER and variant % 2 == 0)
            a_names = ['n1', 'n2', 'n3'] if hdr else None
            b_names = ['m1', 'm2'] if hdr else None
            text = qtext
            if variant == 3:
                import re
                text = re.sub(r'\b(select|where|update|order by|group by|limit|except|join|on|distinct|top)\b', lambda mo: mo.group(1).upper(), qtext)
            elif variant == 4:
                text = '  ' + qtext.replace(' ', '  ') + ' ;'
            o = boundary.run_py(ns, text, A, B, a_names, b_names)
            res.evaluations += 1
            res.count('parsing_runs')
            res.distinct_disjoint += 1
            case = {'leg': 'parsing', 'name': name, 'query_text': text, 'A': A, 'B': B, 'a_names': a_names, 'b_names': b_names}
            if o.error not in ('parsing',):
                res.violation('py:static-mistake-not-a-parsing-error:' + name, '[py] %r must be reported as a parsing error, got %s: %s (rows %r)' % (text, o.error, (o.error_msg or '')[:160], o.rows), case)
            if o.writes:
                res.violation('py:record-written-before-parsing-error:' + name, '[py] %d records written before the parsing error of %r' % (o.writes, text), case)
            res.count('no_write_before_parsing_error_checks')
    res.sample({'leg': 'parsing', 'queries': [q for _n, q in PARSING_QUERIES[:6]]})
    # the JS port: the same mistakes written in its host syntax
    from ..js import bridge
    node = bridge.Node.start()
    if node is None:
        res.notes.append('js parsing leg: unavailable (no node)')
        return
    try:
        import re
        reqs, meta = [], []
        for name, qtext in JS_PARSING_QUERIES:
            for variant in range(6):
                A = [['a', 'b', 'c'], ['x', 'y', 'z'], ['a', 'y', 'c']][:rng.randrange(1, 4)]
                B = [['a', 'J'], ['x', 'K']]
                hdr = name in NEEDS_HEADER or (name not in NO_HEADER and variant % 2 == 0)
                text = qtext
                if variant == 3:
                    text = re.sub(r'\b(select|where|update|order by|group by|limit|except|join|on|distinct|top)\b', lambda mo: mo.group(1).upper(), qtext)
                elif variant == 4:
                    text = '  ' + qtext.replace(' ', '  ') + ' ;'
                reqs.append({'query': text, 'input': A, 'join': B, 'input_cols': ['n1', 'n2', 'n3'] if hdr else None, 'join_cols': ['m1', 'm2'] if hdr else None, 'mutating_sink': variant == 5})
                meta.append((name, text, A, hdr))
        outs = node.call({'op': 'query_batch', 'cases': reqs})['results']
        for (name, text, A, hdr), o in zip(meta, outs):
            res.evaluations += 1
            res.count('js_parsing_runs')
            res.distinct_disjoint += 1
            case = {'leg': 'js-parsing', 'name': name, 'query_text': text, 'A': A, 'header': hdr, 'engine': 'js'}
            cls = o['error'] and o['error']['cls']
            if cls != 'RbqlParsingError':
                res.violation('js:static-mistake-not-a-parsing-error:' + name, '[js] %r must be reported as a parsing error, got %r: %s (rows %r)' % (text, cls, (o['error'] or {}).get('msg', '')[:160], o['out']), case)
            if o['out']:
                res.violation('js:record-written-before-parsing-error:' + name, '[js] %d records written before the parsing error of %r' % (len(o['out']), text), case)
    finally:
        node.close()


def leg_io(ns, res, spec):
    """Undecodable or inconsistent input -> IO-handling error."""
    rng = random.Random(spec['seed'] * 17 + spec['shard'])
    # invalid UTF-8 at every position of a small valid file
    good = 'a,é\nb,"x\ny"\n€,z\n'.encode('utf-8')
    bads = [b'\xff', b'\x80', b'\xc3', b'\xe2\x82', b'\xf0\x9f\x98', b'\xc0\x80', b'\xed\xa0\x80']
    for p in range(0, len(good) + 1):
        for bad in bads:
            data = good[:p] + bad + good[p:]
            try:
                data.decode('utf-8')
                continue
            except UnicodeDecodeError:
                pass
            for chunk in (1, 3, 1024):
                err = None
                try:
                    it = ns.csv.CSVRecordIterator(io.BytesIO(data), 'utf-8', ',', 'quoted_rfc', chunk_size=chunk)
                    w = ns.csv.CSVWriter(io.BytesIO(), False, 'utf-8', ',', 'quoted')
                    ns.rbql.query('select *', it, w, [])
                except Exception as e:
                    err = util.error_class(e)
                res.evaluations += 1
                res.count('bad_byte_runs')
                res.distinct_disjoint += 1
                if err != 'io':
                    res.violation('py:undecodable-input-not-io-error', '[py] invalid byte %r at offset %d (chunk %d): error %r' % (bad, p, chunk, err), {'leg': 'io', 'data_hex': data.hex(), 'chunk': chunk})
    # inconsistent input
    scen = [
        ('header-mismatch-a-only', 'select a1, b1 join b on a1 == b1', [['x', 'y']], [['x', 'z']], ['n1', 'n2'], None),
        ('header-mismatch-b-only', 'select a1, b1 join b on a1 == b1', [['x', 'y']], [['x', 'z']], None, ['m1', 'm2']),
        ('column-names-wrong-length', 'select a1', [['x', 'y']], None, ['n1'], None),
        ('column-names-wrong-length-b', 'select a1, b1 join b on a1 == b1', [['x', 'y']], [['x', 'z']], ['n1', 'n2'], ['m1']),
    ]
    # one table with a header, the other without, under every way of writing the join key (by position, by name on either or both sides)
    for side in ('a-only', 'b-only'):
        for ka in ('a1', 'a.k', 'a["k"]'):
            for kb in ('b1', 'b.k2', "b['k2']"):
                for sel in ('a1, b1', 'a.k, b2', '*'):
                    scen.append(('header-mismatch-%s:%s==%s:%s' % (side, ka, kb, sel), 'select %s join b on %s == %s' % (sel, ka, kb), [['x', 'y']], [['x', 'z']],
                                 ['k', 'v'] if side == 'a-only' else None, ['k2', 'v2'] if side == 'b-only' else None))
    for name, qtext, A, B, an, bn in scen:
        o = boundary.run_py(ns, qtext, A, B, an, bn)
        res.evaluations += 1
        res.count('inconsistent_input_runs')
        res.distinct_disjoint += 1
        if o.error != 'io':
            res.violation('py:inconsistent-input-not-io-error:' + name, '[py] %s: expected an IO-handling error, got %r (%s)' % (name, o.error, o.error_msg), {'leg': 'io', 'name': name})
    # defective quoting under quoted_rfc
    for text in ['a,"b\n', 'a,b"c\nd,e\n', 'x\n"a"b,c\n', 'x\n"a"b\n', 'a"b\n', '"ab\nc\n', 'x,y\nz"\n', 'x\n"a" b\ny\n', 'x\n"a"\n', 'x\n "a" \ny\n']:
        err = None
        try:
            it = ns.csv.CSVRecordIterator(io.StringIO(text, newline=''), None, ',', 'quoted_rfc')
            ns.rbql.query('select *', it, ns.csv.CSVWriter(io.StringIO(), False, None, ',', 'quoted'), [])
        except Exception as e:
            err = util.error_class(e)
        res.evaluations += 1
        res.count('defective_rfc_runs')
        ref = refcsv.read_text(text, ',', 'quoted_rfc')
        if ref.io_error != (err == 'io') or (err not in (None, 'io')):
            res.violation('py:defective-rfc-quoting-class', '[py] quoted_rfc text %r: error %r, reference io_error=%s' % (text, err, ref.io_error), {'leg': 'io', 'text': text})
    res.sample({'leg': 'io', 'bad_byte_positions': len(good) + 1, 'bad_sequences': [b.hex() for b in bads]})
    leg_io_js(res, good, bads)


def leg_io_js(res, good, bads):
    """The JS port: undecodable input (bulk and streamed) and defective quoted_rfc quoting fail as IO-handling errors - by the class of the exception
    and by the type its public classifier (exception_to_error_info, what the command line prints) gives it; a failing record and a static mistake likewise."""
    from ..js import bridge
    node = bridge.Node.start()
    if node is None:
        res.notes.append('js io leg: unavailable (no node)')
        return
    try:
        reqs, meta = [], []
        base = {'encoding': 'utf-8', 'delim': ',', 'policy': 'quoted_rfc', 'has_header': False, 'comment_prefix': None, 'query': 'select *', 'out_delim': ',', 'out_policy': 'quoted'}
        for p in range(0, len(good) + 1):
            for bad in bads:
                data = good[:p] + bad + good[p:]
                try:
                    data.decode('utf-8')
                    continue
                except UnicodeDecodeError:
                    pass
                for chunks in (None, [len(data)], [c for c in (p, len(data) - p) if c > 0], [1] * len(data)):
                    reqs.append(dict(base, bytes_hex=data.hex(), chunks=chunks))
                    meta.append(('undecodable', 'IO handling', 'RbqlIOHandlingError', 'invalid byte %r at offset %d, chunks %r' % (bad, p, chunks)))
        for text in ['a,"b\n', 'a,b"c\nd,e\n', 'x\n"a"b,c\n', 'a"b\n', '"ab\nc\n']:
            if refcsv.read_text(text, ',', 'quoted_rfc').io_error:
                for chunks in (None, [len(text)]):
                    reqs.append(dict(base, bytes_hex=text.encode().hex(), chunks=chunks))
                    meta.append(('defective-rfc', 'IO handling', 'RbqlIOHandlingError', 'quoted_rfc text %r, chunks %r' % (text, chunks)))
        for q, kind, cls in (('select a1.length, a2.length', 'query execution', 'RbqlRuntimeError'), ('select a1 where a1 = "x"', 'query parsing', 'RbqlParsingError'), ('select a1 limit x', 'query parsing', 'RbqlParsingError')):
            for chunks in (None, [4, 2]):
                reqs.append(dict(base, policy='quoted', query=q, bytes_hex=b'a,b\nc\n'.hex(), chunks=chunks))
                meta.append(('classifier', kind, cls, 'query %r over a CSV file whose second record is short' % q))
        outs = node.call({'op': 'query_csv_text_batch', 'cases': reqs})['results']
        for (name, kind, cls, what), rq, o in zip(meta, reqs, outs):
            res.evaluations += 1
            res.count('js_io_runs')
            res.distinct_disjoint += 1
            e = o['error'] or {}
            if e.get('cls') != cls or e.get('kind') != kind:
                res.violation('js:error-class-or-classifier-type:' + name, '[js] %s: expected %s / type %r, got class %r, classifier type %r (%s)' % (what, cls, kind, e.get('cls'), e.get('kind'), (e.get('msg') or '')[:100]),
                              {'leg': 'js-io', 'request': rq, 'engine': 'js'})
    finally:
        node.close()


def predict_warnings(text, in_policy, encoding, query_kind, out_policy, out_delim):
    """-> sorted list of (kind, numbers) expected for `select *` / `select a1, a2` over header-less CSV text scanned completely."""
    ref = refcsv.read_text(text, ',', in_policy, encoding)
    if ref.io_error:
        return None
    exp = []
    if ref.bom:
        exp.append(('bom', ()))
    if ref.defective_line is not None:
        exp.append(('quote', None))
    if len(ref.fields_info) > 1:
        first_two = sorted(ref.fields_info.items(), key=lambda kv: kv[1])[:2]
        exp.append(('fields', (first_two[0][1], first_two[0][0], first_two[1][1], first_two[1][0])))
    out_rows = []
    for r in ref.records:
        a1, a2 = (r[0] if len(r) > 0 else None), (r[1] if len(r) > 1 else None)
        if query_kind == 'star':
            out_rows.append(list(r))
        elif query_kind == 'list':
            out_rows.append([a1, None if a2 is None else 'x', a2])      # select a1, [a1, a2]: the None sits INSIDE a list-valued field
        elif query_kind == 'agg':
            out_rows.append([a1, a2])                                      # select a1, ARRAY_AGG(a2) group by a1: ditto
        else:
            out_rows.append([a1, a2])
    if any(v is None for r in out_rows for v in r):
        exp.append(('none', ()))
    if out_policy == 'simple' and len(out_delim) > 1 and query_kind in ('star', 'two'):
        # a separator of several characters can also come about at the border of two fields ('key:' + '::' + ':value'): what is reported is that
        # the written line no longer reads back as the same number of fields (both ports decide it that way; equal to "some field contains it" for one character)
        if any(len(out_delim.join('' if v is None else v for v in r).split(out_delim)) != len(r) for r in out_rows if r):
            exp.append(('sep', ()))
    elif out_policy == 'simple' and any(out_delim in (v or '') for r in out_rows for v in r):
        exp.append(('sep', ()))
    return sorted(exp, key=lambda x: x[0])


def leg_warnings_js(res, js_cases):
    """The same anomaly subsets through the JS reader (bulk, and streamed in two chunks), engine and writer: the same warnings iff."""
    import re
    from ..js import bridge
    node = bridge.Node.start()
    if node is None:
        res.notes.append('js warnings leg: unavailable (no node)')
        return
    try:
        Q = {'star': 'select *', 'two': 'select a1, a2', 'list': 'select a1, [a1, a2]', 'agg': 'select a1, ARRAY_AGG(a2) group by a1'}
        reqs = []
        for n, (text, query_kind, out_policy, out_delim, exp) in enumerate(js_cases):
            data = text.encode('utf-8')
            chunks = None if n % 2 == 0 else [c for c in (len(data) // 2, len(data) - len(data) // 2) if c > 0]
            reqs.append({'bytes_hex': data.hex(), 'chunks': chunks, 'encoding': 'utf-8', 'delim': ',', 'policy': 'quoted', 'has_header': False, 'comment_prefix': None,
                         'query': Q[query_kind], 'out_delim': out_delim, 'out_policy': out_policy})
        outs = []
        for i in range(0, len(reqs), 400):
            outs += node.call({'op': 'query_csv_text_batch', 'cases': reqs[i:i + 400]})['results']
        for (text, query_kind, out_policy, out_delim, exp), rq, o in zip(js_cases, reqs, outs):
            res.evaluations += 1
            res.count('js_warning_runs')
            case = {'leg': 'js-warnings', 'text': text, 'query_kind': query_kind, 'out_policy': out_policy, 'out_delim': out_delim, 'chunks': rq['chunks'], 'engine': 'js'}
            if o['error'] is not None:
                res.violation('js:warning-scenario-raised', '[js] %r raised %r' % (text, o['error']), case)
                continue
            got = sorted(((util.warning_kind(w), tuple(int(x) for x in re.findall(r'\d+', w))) for w in o['warnings']), key=lambda x: x[0])
            exp_kinds = [k for k, _n in exp]
            got_kinds = [k for k, _n in got]
            if exp_kinds != got_kinds:
                res.violation('js:warnings-not-iff', '[js] CSV %r (%s, out %s %r, chunks %r): warnings %r, expected kinds %r' % (text, query_kind, out_policy, out_delim, rq['chunks'], o['warnings'], exp_kinds), case)
                continue
            for (k, en), (_k2, gn) in zip(exp, got):
                if k == 'fields' and en != gn:
                    res.violation('js:field-count-warning-cites-wrong-records', '[js] CSV %r: field-count warning cites %r, expected (record, fields, record, fields) = %r : %r' % (text, gn, en, o['warnings']), case)
    finally:
        node.close()


def leg_warnings(ns, res, spec):
    rng = random.Random(spec['seed'] * 19 + spec['shard'])
    import re
    pieces_ok = ['a,b', 'c,d', 'e,f', 'x;y,z']
    anomalies = {
        'ragged': ['a', 'a,b,c', ''],
        'quote': ['a"b,c', 'x,y"', 'a"b', '"x"y', 'y"', '"p" q'],      # with and without a delimiter in the record
        'sepfield': ['p;q,r', ';,;', 'k:,:v', 'p|,|q', 'a::b,c', ':,:', 'x||y,|'],
    }
    count = 0
    js_cases = []
    for mask in range(0, 16):
        for rep in range(spec['n']):
            lines = [rng.choice(pieces_ok[:3]) for _ in range(rng.randrange(1, 5))]
            if rep % 4 == 3:
                lines = [l[0] for l in lines]      # a single-column file: no record holds a delimiter
            if mask & 1:
                lines.insert(rng.randrange(0, len(lines) + 1), rng.choice(anomalies['ragged']))
            if mask & 2:
                lines.insert(rng.randrange(0, len(lines) + 1), rng.choice(anomalies['quote']))
            if mask & 4:
                lines.insert(rng.randrange(0, len(lines) + 1), rng.choice(anomalies['sepfield']))
            text = '\n'.join(lines) + rng.choice(['\n', '', '\r\n'])
            encoding = 'utf-8'
            if mask & 8:
                text = '﻿' + text
            elif rng.random() < 0.3:
                text = rng.choice(['é', '€', 'ï»¿', ' ']) + text      # a non-ASCII first character that is not a BOM
            query_kind = rng.choice(['star', 'two', 'two', 'list', 'agg'])
            out_policy, out_delim = rng.choice([('simple', ';'), ('quoted', ','), ('simple', '\t')])
            if query_kind in ('star', 'two') and rng.random() < 0.35:
                out_policy, out_delim = 'simple', rng.choice(['::', '||'])
                res.count('multi_character_output_separator_cases')
            exp = predict_warnings(text, 'quoted', encoding, query_kind, out_policy, out_delim)
            if exp is None:
                continue
            warnings = []
            err = None
            try:
                it = ns.csv.CSVRecordIterator(io.BytesIO(text.encode('utf-8')), encoding, ',', 'quoted')
                w = ns.csv.CSVWriter(io.BytesIO(), False, encoding, out_delim, out_policy)
                ns.rbql.query({'star': 'select *', 'two': 'select a1, a2', 'list': 'select a1, [a1, a2]', 'agg': 'select a1, ARRAY_AGG(a2) group by a1'}[query_kind], it, w, warnings)
            except Exception as e:
                err = util.error_class(e)
            res.evaluations += 1
            res.count('warning_runs')
            res.nontrivial('warn', text, query_kind, out_policy, out_delim)
            case = {'leg': 'warnings', 'text': text, 'query_kind': query_kind, 'out_policy': out_policy, 'out_delim': out_delim}
            if err is not None:
                res.violation('py:warning-scenario-raised', '[py] %r raised %s' % (text, err), case)
                continue
            got = []
            for wtext in warnings:
                kind = util.warning_kind(wtext)
                nums = tuple(int(x) for x in re.findall(r'\d+', wtext))
                got.append((kind, nums))
            got.sort(key=lambda x: x[0])
            exp_kinds = [k for k, _n in exp]
            got_kinds = [k for k, _n in got]
            for k in set(exp_kinds) | set(got_kinds):
                res.count('warning_iff:' + k + (':present' if k in exp_kinds else ':absent-but-reported'))
            if exp_kinds != got_kinds:
                res.violation('py:warnings-not-iff', '[py] CSV %r (%s, out %s %r): warnings %r, expected kinds %r' % (text, query_kind, out_policy, out_delim, warnings, exp_kinds), case)
                continue
            for (k, en), (_k2, gn) in zip(exp, got):
                if k == 'fields' and en != gn:
                    res.violation('py:field-count-warning-cites-wrong-records', '[py] CSV %r: field-count warning cites %r, expected (record, fields, record, fields) = %r : %r' % (text, gn, en, warnings), case)
            count += 1
            if count % 211 == 1:
                res.sample({'leg': 'warnings', 'text': text, 'query': query_kind, 'warnings': warnings, 'expected': [list(x) for x in exp]})
            js_cases.append((text, query_kind, out_policy, out_delim, exp))
    leg_warnings_js(res, js_cases)
    # the header line is output too: a column name holding the output delimiter under the simple policy must be reported
    for rep in range(spec['n'] * 2):
        names = [rng.choice(['k', 'unit;price', 'a b', 'v;w', 'n']) for _ in range(2)]
        if names[0] == names[1]:
            names[1] += '2'
        rows = [[rng.choice(['x', 'y', 'p;q', 'z']), rng.choice(['1', '2'])] for _ in range(rng.randrange(1, 4))]
        text = refcsv.write_table([names] + rows, ',', 'quoted', '\n')
        out_delim = rng.choice([';', ' ', '\t'])
        qtext = rng.choice(['select *', 'select a2, a1', 'update a2 = "u"', 'select a1 where NR < 0', 'select a1 order by a2 WITH (header)'])
        warnings = []
        err = None
        try:
            it = ns.csv.CSVRecordIterator(io.BytesIO(text.encode('utf-8')), 'utf-8', ',', 'quoted', has_header=True)
            w = ns.csv.CSVWriter(io.BytesIO(), False, 'utf-8', out_delim, 'simple')
            ns.rbql.query(qtext, it, w, warnings)
        except Exception as e:
            err = util.error_class(e)
        res.evaluations += 1
        res.count('header_separator_runs')
        res.nontrivial('hdrsep', text, qtext, out_delim)
        # which cells reach the output: header names of the selected columns + the selected data cells
        if qtext.startswith('select a2, a1'):
            out_cells = [names[1], names[0]] + [c for r in rows for c in (r[1], r[0])]
        elif qtext.startswith('select a1'):
            out_cells = [names[0]] + ([] if 'NR < 0' in qtext else [r[0] for r in rows])
        elif qtext.startswith('update'):
            out_cells = names + [c for r in rows for c in (r[0], 'u')]
        else:
            out_cells = names + [c for r in rows for c in r]
        expect_sep = any(out_delim in c for c in out_cells)
        got_sep = 'sep' in util.warning_kinds(warnings)
        if err is not None or got_sep != expect_sep:
            res.violation('py:separator-warning-not-iff-with-header', '[py] CSV %r with header, %r, simple output with delimiter %r: warnings %r (error %r), separator warning expected: %s' % (text, qtext, out_delim, warnings, err, expect_sep),
                          {'leg': 'warnings-header', 'text': text, 'query_text': qtext, 'out_delim': out_delim})
    # colorized output (what --color asks for): the colour escape sequences wrapped around the fields are not field content - a delimiter that occurs
    # in them (';', 'm', '[', a digit) must not be reported, one inside a field must
    for rep in range(spec['n'] * 6):
        w = rng.choice([2, 5, 9, 10, 12, 17])
        cells = rng.choice([['x', 'yy', 'z1'], ['x', 'p;q', 'a b', 'm', '[3', '7']])
        rows = [[rng.choice(cells) for _ in range(w)] for _ in range(rng.randrange(1, 4))]
        out_delim = rng.choice([';', ';', 'm', '[', '3', '\t', ' ', '0;'])
        out_policy = 'whitespace' if out_delim == ' ' else 'simple'
        colorize = rep % 4 != 3
        warnings = []
        err = None
        try:
            wr = ns.csv.CSVWriter(io.StringIO(), False, None, out_delim, out_policy, colorize_output=colorize)
            ns.rbql.query('select *', ns.engine.TableIterator([list(r) for r in rows]), wr, warnings)
        except Exception as e:
            err = util.error_class(e)
        res.evaluations += 1
        res.count('colorized_output_runs' if colorize else 'plain_wide_output_runs')
        res.nontrivial('color', repr(rows), out_delim, colorize)
        expect_sep = any(out_delim in c for r in rows for c in r)
        got_sep = 'sep' in util.warning_kinds(warnings)
        if err is not None or got_sep != expect_sep or len(warnings) > (1 if expect_sep else 0):
            res.violation('py:separator-warning-not-iff-colorized' if colorize else 'py:separator-warning-not-iff-wide', '[py] %d-column table %r, %s output with delimiter %r, colorize_output=%s: warnings %r (error %r), separator warning expected: %s' % (
                w, rows, out_policy, out_delim, colorize, warnings, err, expect_sep), {'leg': 'warnings-color', 'rows': rows, 'out_delim': out_delim, 'colorize': colorize})
    # list front-end: TableIterator's field-count warning
    for _ in range(spec['n'] * 4):
        A = [['x'] * rng.choice([1, 2, 2, 3]) for _ in range(rng.randrange(1, 7))]
        out, warnings = [], []
        ns.rbql.query_table('select NR', A, out, warnings)
        res.evaluations += 1
        res.count('list_warning_runs')
        info = {}
        for i, r in enumerate(A):
            info.setdefault(len(r), i + 1)
        kinds = util.warning_kinds(warnings)
        if (len(info) > 1) != ('fields' in kinds) or (len(info) <= 1 and kinds):
            res.violation('py:list-field-count-warning-not-iff', '[py] table %r: warnings %r' % (A, warnings), {'leg': 'warnings-list', 'A': A})
        elif len(info) > 1:
            first_two = sorted(info.items(), key=lambda kv: kv[1])[:2]
            en = (first_two[0][1], first_two[0][0], first_two[1][1], first_two[1][0])
            gn = tuple(int(x) for x in re.findall(r'\d+', warnings[0]))
            if en != gn:
                res.violation('py:field-count-warning-cites-wrong-records', '[py] table %r: warning %r, expected %r' % (A, warnings, en), {'leg': 'warnings-list', 'A': A})
    # long tables with three or more record lengths whose first occurrences sit at chosen positions (one- and two- and three-digit record numbers):
    # the warning cites the first record of each of the first two lengths - through a list table, a CSV file, a join table, and the JS port
    from ..js import bridge
    node = bridge.Node.start()
    try:
        js_reqs, js_meta = [], []
        for _ in range(spec['n'] * 2):
            k = rng.choice([2, 3, 5, 9, 9, 11, 15, 20])
            m = rng.choice([10, 10, 12, 19, 100, 101, 115]) if k < 10 else rng.choice([100, 100, 110, 123])
            if m <= k:
                m = k + 90
            total = m + rng.randrange(0, 4)
            l1, l2, l3 = rng.sample([1, 2, 3, 4], 3)
            A = []
            for i in range(1, total + 1):
                L = l1 if i < k else (l2 if i < m else rng.choice([l1, l2, l3]))
                if i == k:
                    L = l2
                if i == m:
                    L = l3
                A.append(['v%d' % (i % 7)] * L)
            en = (1, l1, k, l2)
            case = {'leg': 'warnings-many-lengths', 'k': k, 'm': m, 'lengths': [l1, l2, l3], 'records': total}

            def check(front, warnings, err=None, en=en, total=total, l1=l1, l2=l2, l3=l3, k=k, m=m, case=case):
                res.evaluations += 1
                res.count('many_lengths_warning_runs')
                res.count('many_lengths_front:' + front)
                fw = [w for w in warnings if util.warning_kind(w) == 'fields']
                gn = tuple(int(x) for x in re.findall(r'\d+', fw[0])) if fw else None
                if err is not None or gn != en:
                    res.violation('%s:field-count-warning-cites-wrong-records:many-lengths' % ('js' if front.startswith('js') else 'py'), '[%s] %d records, lengths %d / %d / %d first seen at records 1 / %d / %d: warning %r (error %r), expected to cite (record, fields, record, fields) = %r' % (
                        front, total, l1, l2, l3, k, m, fw or warnings, err, en), dict(case, front=front))
            out, warnings = [], []
            ns.rbql.query_table('select NR', [list(r) for r in A], out, warnings)
            check('py-list', warnings)
            out, warnings = [], []
            ns.rbql.query_table('select a1, b1 left join b on NR == bNR', [['x']] * 3, out, warnings, [list(r) for r in A])
            check('py-join-list', warnings)
            text = ''.join(','.join(r) + '\n' for r in A)
            warnings, err = [], None
            try:
                it = ns.csv.CSVRecordIterator(io.StringIO(text, newline=''), None, ',', 'quoted')
                ns.rbql.query('select NR', it, ns.csv.CSVWriter(io.StringIO(), False, None, ',', 'quoted'), warnings)
            except Exception as e:
                err = util.error_class(e)
            check('py-csv', warnings, err)
            if node is not None:
                js_reqs.append({'query': 'select NR', 'input': A, 'join': None, 'input_cols': None, 'join_cols': None})
                js_meta.append(('js-list', check))
        if node is not None and js_reqs:
            outs = node.call({'op': 'query_batch', 'cases': js_reqs})['results']
            for (front, chk), o in zip(js_meta, outs):
                chk(front, o['warnings'], o['error'] and o['error']['cls'])
    finally:
        if node is not None:
            node.close()


def plan(tier, seed):
    specs = [{'kind': 'poison'}, {'kind': 'parsing'}, {'kind': 'io'}, {'kind': 'frontend-poison'}]
    specs += [{'kind': 'warnings', 'n': 12 if tier == 'quick' else 150} for _ in range(4 if tier == 'quick' else 12)]
    if tier == 'thorough':
        specs += [{'kind': 'poison'} for _ in range(6)]
    return specs


def run_shard(spec, res):
    ns = env.import_rbql()
    {'poison': leg_poison, 'frontend-poison': leg_frontend_poison, 'parsing': leg_parsing, 'io': leg_io, 'warnings': leg_warnings}[spec['kind']](ns, res, spec)


def summarize(tier, seed, m):
    return {
        'rule': 'fault enumeration: one (and two: the first must be named) poisoned record at every position k of tables of 1..6 records x 15 clause placements (SELECT, WHERE, ORDER BY key, GROUP BY key, aggregate argument, aggregate over a failing expression, UPDATE right-hand side, UPDATE target beyond the record, JOIN key on A, composite JOIN key on A (non-adjacent columns), JOIN key on B, composite JOIN key on B (the short record cut to two / one / no fields), missing field under .upper() in SELECT / WHERE, UNNEST list) with poison kinds non-numeric cell under int() / numeric aggregate, missing field, missing join key; %d statically detectable mistakes x 6 spelling / header variants (parsing error, zero records written), %d of them in JS syntax through the JS port; an invalid byte sequence at every offset of a UTF-8 file x 7 sequences x 3 chunk sizes, header / column-list inconsistencies, defective quoted_rfc quoting (IO-handling error); the same bad bytes (bulk, one chunk, cut at the offset, byte by byte) and defective quoting through the JS port, by exception class and by the type its public classifier exception_to_error_info gives (also for a failing record and static mistakes over a CSV file); every subset of the anomalies {ragged, malformed quote, separator in simple output, BOM} (+ None from short records) on header-less full-scan queries with the exact iff and the cited record numbers; tables of 10-130 records with three record lengths first seen at records 1 / k / m (k and m of one, two and three digits) through a list table, a join table, a CSV file and the JS port: the warning cites record 1 and record k. The same anomaly subsets also through the JS reader (bulk and streamed in two chunks), engine and writer. the poisoned record at every position of 2-6 record tables delivered by front-ends whose own numbering differs from the record number (CSV with header line, comment lines and multi-line cells through query_csv and the command line; a dataframe with a non-default index; a sqlite table with rowid gaps) under six query shapes: query-execution error naming record k; colorized simple / whitespace output (2-17 columns, delimiters that occur inside the colour escape sequences) with the separator warning iff a FIELD holds the delimiter; distinct_nontrivial counts enumerated scenarios.' % (len(PARSING_QUERIES), len(JS_PARSING_QUERIES)),
        'exhaustive': True,
        'required': ['colorized_output_runs', 'frontend_poison_runs:query_csv', 'frontend_poison_runs:cli', 'frontend_poison_runs:pandas', 'frontend_poison_runs:sqlite', 'header_separator_runs', 'poison_runs', 'parsing_runs', 'js_parsing_runs', 'js_warning_runs', 'js_io_runs', 'bad_byte_runs', 'inconsistent_input_runs', 'warning_runs', 'list_warning_runs', 'many_lengths_warning_runs', 'many_lengths_front:js-list', 'many_lengths_front:py-csv', 'field_name_checks', 'no_write_before_parsing_error_checks', 'js_cases',
                     'warning_iff:bom:present', 'warning_iff:fields:present', 'warning_iff:none:present', 'warning_iff:quote:present', 'warning_iff:sep:present'] + ['poison:' + c for c in CLAUSES],
        'assumptions': ['poison scenarios carry no TOP/LIMIT bound (see C02: the record behind the bound may or may not be evaluated)', 'error texts are never compared: class + record number (tolerant pattern) + field name'],
    }


def replay(case, res):
    ns = env.import_rbql()
    if 'q' in case:
        common.replay_case(ns, res, case, PROPERTY, False, common.classify_known_js)
    elif case.get('leg') == 'parsing':
        o = boundary.run_py(ns, case['query_text'], case['A'], case['B'], case['a_names'], case['b_names'])
        res.evaluations += 1
        if o.error != 'parsing' or o.writes:
            res.violation('py:static-mistake', 'error %r writes %d' % (o.error, o.writes), case)
    else:
        res.notes.append('replay: run ./check C14 quick for this leg')
