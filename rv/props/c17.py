"""C17 - like(text, pattern) implements SQL LIKE exactly.

Oracle: rv.model.refcsv.like (dynamic programming over characters).  Observed through the public path:
`select like(a1, a2)` / `... where like(a1, a2)` over tables of (text, pattern) pairs, Python engine in-process,
JS engine through the node driver.
"""
import random
import re

from .. import env, util
from ..gen import enum
from ..model import refcsv

PROPERTY = 'C17'
LEVEL = 'exploration'

ALPHABET = ['a', 'b', '%', '_', '.', '*', '\\', '[', '(', '^', '$', '+', '?', '|']
SPECIAL = set(ALPHABET) - {'a', 'b'}
QUANT_ALPHABET = ['a', '{', '}', '1', '2', ',', '%', '_']
NEWLINE_ALPHABET = ['a', '%', '_', '\n', '\r', '\u2028', '\x85', '\x00', '\x01']      # line breaks, and the two lowest control characters (ordinary characters like any other)
# patterns and texts that are also names the host language gives a meaning to (members of Object.prototype / Map / dict, keywords, constants):
# in a pattern each `_` is a wildcard, every other character stands for itself
HOST_WORDS = ['constructor', 'toString', 'valueOf', 'hasOwnProperty', 'isPrototypeOf', 'toLocaleString', 'propertyIsEnumerable', '__proto__', '__defineGetter__',
              '__lookupGetter__', 'prototype', 'length', 'size', 'get', 'set', 'has', 'keys', 'null', 'undefined', 'NaN', 'None', 'True', 'false', '__class__', '__dict__',
              '__init__', '__len__', 'self', 'this', 'pattern', 'text', 'like', 'LIKE', 'cache', 'match', 'test', 'exec', 'source', 'flags', 'lastIndex', 'then', 'toJSON']
# patterns written as string literals in the query text: characters that mean something to a replacement routine, a literal lexer or the query parser
LITERAL_PATTERNS = ['foo\tb_r%', '\t', 'a\t%\tb', '_\t_', '%\t', 'x \t y', '$$', '%$$', 'a$$b', 'a$&b', 'a$`b', "$'", "a$'", '$1', '$0', '${x}', '$<n>', '\\$', '$', '%$', "it's", 'say "hi"', 'back\\slash', '\\%', '\\_', '\\\\', 'tab\there',
                    'select %', '% from %', 'a as b', '# not comment', '-- x', 'x; y', 'a == b', 'like(a1, a2)', '%,%', '(%)', '[%]', '{_}', '___RBQL_STRING_LITERAL0___', '%s', '{}', '{0}', '%(x)s', ' ', '']
EXTRA_META = [')', ']', '{', '}', '-', '#', ' ', '&', '~', '/', "'", '"']

PAT_LEN = {'quick': 3, 'thorough': 4}
TXT_LEN = {'quick': 3, 'thorough': 3}
JS_PAT_LEN = {'quick': 3, 'thorough': 3}
JS_TXT_LEN = {'quick': 2, 'thorough': 3}
RANDOM_PAIRS = {'quick': 24000, 'thorough': 200000}
NSHARDS = {'quick': 16, 'thorough': 48}


def plan(tier, seed):
    k = NSHARDS[tier]
    specs = [{'kind': 'py-exh', 'k': k, 'i': i} for i in range(k)]
    specs += [{'kind': 'js-exh', 'k': 8, 'i': i} for i in range(8)]
    specs += [{'kind': 'random', 'i': i, 'n': RANDOM_PAIRS[tier] // 8} for i in range(8)]
    specs += [{'kind': 'newlines', 'engine': e} for e in ('py', 'js')]
    specs += [{'kind': 'quantifiers', 'engine': e} for e in ('py', 'js')]
    specs += [{'kind': 'words', 'engine': e} for e in ('py', 'js')]
    specs += [{'kind': 'long', 'engine': e, 'n': 400 if tier == 'quick' else 4000} for e in ('py', 'js')]
    specs += [{'kind': 'literal', 'i': i, 'n': 150 if tier == 'quick' else 1500} for i in range(2 if tier == 'quick' else 6)]
    if tier == 'thorough':
        specs += [{'kind': 'derived', 'k': 32, 'i': i} for i in range(32)]
    return specs


def run_pairs_py(ns, res, pairs, where, tag):
    """pairs: list of [text, pattern]; one query over the whole table."""
    out, warnings = [], []
    res.count('py_queries')
    try:
        if where:
            ns.rbql.query_table('select NR where like(a1, a2)', pairs, out, warnings)
        else:
            ns.rbql.query_table('select like(a1, a2)', pairs, out, warnings)
    except Exception as e:
        res.violation('py-like-raises', 'query over %d pairs raised %s: %s (first pair %r)' % (len(pairs), util.error_class(e), str(e)[:200], pairs[0]), {'engine': 'py', 'pairs': pairs[:50], 'where': where})
        return
    if where:
        hit = set(r[0] for r in out)
        got = [(i + 1) in hit for i in range(len(pairs))]
    else:
        got = [r[0] for r in out]
    if len(got) != len(pairs):
        res.violation('py-like-rowcount', '%d pairs -> %d rows' % (len(pairs), len(got)), {'engine': 'py', 'pairs': pairs[:50], 'where': where})
        return
    for (t, p), g in zip(pairs, got):
        exp = refcsv.like(t, p)
        res.evaluations += 1
        if g is not exp:
            res.violation('py-like-mismatch' + ('-where' if where else ''), 'like(%r, %r) -> %r, reference %r (%s)' % (t, p, g, exp, tag), {'engine': 'py', 'pairs': [[t, p]], 'where': where})
    # the pattern as a COMPUTED value: a string that exists only while the record is evaluated (whatever is remembered per pattern must be keyed by its text)
    step = max(1, len(pairs) // 3000)
    sample = pairs[::step][:3000]
    out = []
    try:
        ns.rbql.query_table('select like(a1, (a2 + "%")[:-1]), like(a1, "%" + a2), like(a1 + "", "".join(list(a2)))', [list(x) for x in sample], out, [])
    except Exception as e:
        res.violation('py-like-raises', 'computed-pattern query over %d pairs raised %s: %s (first pair %r)' % (len(sample), util.error_class(e), str(e)[:200], sample[0]), {'engine': 'py', 'pairs': sample[:50], 'computed': True})
        return
    res.count('py_computed_pattern_queries')
    for k_, ((t, p), r) in enumerate(zip(sample, out)):
        exp = [refcsv.like(t, p), refcsv.like(t, '%' + p), refcsv.like(t, p)]
        res.evaluations += 1
        res.count('py_computed_pattern_evaluations')
        if list(r) != exp:
            res.violation('py-like-computed-pattern-mismatch', 'like(%r, <computed %r>), like(.., "%%" + pattern), like(.., <rebuilt pattern>) -> %r, reference %r (%s)' % (t, p, list(r), exp, tag), {'engine': 'py', 'pairs': sample[max(0, k_ - 20):k_ + 1], 'computed': True})
            break


def run_cross_js(node, res, texts, patterns, where, tag):
    r = node.call({'op': 'like_cross', 'texts': texts, 'patterns': patterns, 'where': where})
    res.count('js_queries')
    if r['error'] is not None:
        res.violation('js-like-raises', 'JS query over %d pairs raised %r' % (r['n'], r['error']), {'engine': 'js', 'pairs': [[texts[0], patterns[0]]], 'where': where})
        return
    packed = r['packed']
    idx = 0
    for p in patterns:
        for t in texts:
            exp = refcsv.like(t, p)
            g = packed[idx]
            idx += 1
            res.evaluations += 1
            if g != ('1' if exp else '0'):
                res.violation('js-like-mismatch' + ('-where' if where else ''), 'JS like(%r, %r) -> %r, reference %r (%s)' % (t, p, g, exp, tag), {'engine': 'js', 'pairs': [[t, p]], 'where': where})


def utf16_units(s):
    """The string as JavaScript sees it: one (possibly lone-surrogate) character per UTF-16 code unit."""
    b = s.encode('utf-16-le', 'surrogatepass')
    return ''.join(chr(b[i] | (b[i + 1] << 8)) for i in range(0, len(b), 2))


def rand_char(rng, bmp_only):
    while True:
        r = rng.random()
        if r < 0.04:
            c = rng.choice(['\n', '\r', '\u2028', '\u2029', '\x85', '\x0b', '\x0c', '\x1c', '\t'])
        elif r < 0.35:
            c = rng.choice(ALPHABET + EXTRA_META)
        elif r < 0.6:
            c = chr(rng.randrange(0x20, 0x7f))
        elif r < 0.8:
            c = chr(rng.randrange(0xa0, 0x3000))
        elif r < 0.93 or bmp_only:
            c = chr(rng.randrange(0x3000, 0xd800))
        else:
            c = chr(rng.randrange(0x10000, 0x20000))
        return c


# (few % per pattern: the engine translates a pattern into a backtracking regular expression, whose running time on a non-matching text grows with
#  the number of % as a power of the text length - a cost, not a wrong answer, and not this property's subject)
LONG_PATTERNS = ['____-__-__ __:__:__', '__:__:__:__:__:__:__', '_' * 20, '%a_b_c_d_e_f_g_h_i%', 'a_b_c_d_e_f_g_h_i_j', '%._._._._._._._._.%', '_.' * 12 + '%', '(_)[_]{_}<_>(_)[%]{_}<_>(_)', 'x_' * 40 + '%y']


def long_pairs(rng, n):
    """Patterns of 17-100 tokens (a token is one wildcard or one run of literal characters): fixed shapes with texts near their language, and
    random ones derived from 20-80 character texts."""
    pairs = []
    for pat in LONG_PATTERNS:
        base = ''.join({'%': rng.choice(['', 'q', 'zz.']), '_': rng.choice('01a.')}.get(c, c) for c in pat)
        pairs.append([base, pat])
        for _ in range(6):
            j = rng.randrange(len(base) + 1)
            pairs.append([rng.choice([base[:j] + 'b' + base[j:], base[:j] + base[j + 1:], base[:j] + '_' + base[j + 1:], base[:j] + '%' + base[j + 1:]]), pat])
    while len(pairs) < n:
        # derived from the text so that matches are frequent (at most three %, see above), then perturbed in one place
        t = ''.join(rand_char(rng, True) for _ in range(rng.randrange(20, 80)))
        pat, i, npct = [], 0, 0
        while i < len(t):
            r = rng.random()
            if r < 0.05 and npct < 3:
                pat.append('%')
                npct += 1
                i += rng.randrange(0, 4)
            elif r < 0.4:
                pat.append('_')
                i += 1
            else:
                pat.append(t[i])
                i += 1
        if rng.random() < 0.4:
            j = rng.randrange(len(pat))
            pat[j:j + 1] = rng.choice([[rand_char(rng, True)], [], ['_', '_'], [pat[j], 'b']])
        pairs.append([t, ''.join(pat)])
    return pairs


def random_pair(rng, bmp_only, length=None):
    text = ''.join(rand_char(rng, bmp_only) for _ in range(rng.randrange(0, 14) if length is None else length))
    # derive a pattern from the text so that matches are frequent, then perturb
    pat = []
    i = 0
    while i < len(text):
        r = rng.random()
        if r < 0.18:
            pat.append('%')
            i += rng.randrange(0, 4)
        elif r < 0.33:
            pat.append('_')
            i += 1
        else:
            pat.append(text[i])
            i += 1
    if rng.random() < 0.2:
        pat.append('%')
    if rng.random() < 0.35 and pat:
        j = rng.randrange(len(pat))
        op = rng.random()
        if op < 0.4:
            pat[j] = rand_char(rng, bmp_only)
        elif op < 0.7:
            del pat[j]
        else:
            pat.insert(j, rand_char(rng, bmp_only))
    return [text, ''.join(pat)]


def derived_texts(pattern):
    """Texts near the language of the pattern: instantiate wildcards, then single-symbol edits."""
    insts = ['']
    for c in pattern:
        if c == '%':
            choices = ['', 'a', '.b']
        elif c == '_':
            choices = ['a', '%']
        else:
            choices = [c]
        insts = [s + ch for s in insts for ch in choices][:24]
    out = set(insts)
    for s in insts[:6]:
        for j in range(len(s) + 1):
            out.add(s[:j] + 'b' + s[j:])
            if j < len(s):
                out.add(s[:j] + s[j + 1:])
                out.add(s[:j] + ('.' if s[j] != '.' else 'a') + s[j + 1:])
    return sorted(out)


def run_shard(spec, res):
    ns = env.import_rbql()
    tier = spec['tier']
    rng = random.Random(7919 * spec['seed'] + spec['shard'])
    kind = spec['kind']
    if kind == 'py-exh':
        texts = [''.join(t) for t in enum.words(ALPHABET, TXT_LEN[tier])]
        batch = []
        nb = 0
        for idx, ptup in enumerate(enum.words(ALPHABET, PAT_LEN[tier])):
            if idx % spec['k'] != spec['i']:
                continue
            p = ''.join(ptup)
            if SPECIAL & set(ptup):
                res.distinct_disjoint += len(texts)
            batch.extend([t, p] for t in texts)
            if len(batch) >= 50000:
                nb += 1
                run_pairs_py(ns, res, batch, where=(nb % 5 == 0), tag='exhaustive')
                if nb == 1:
                    res.sample({'engine': 'py', 'pair': batch[len(batch) // 2], 'reference': refcsv.like(*batch[len(batch) // 2])})
                batch = []
        if batch:
            run_pairs_py(ns, res, batch, where=False, tag='exhaustive')
        res.count('py_exhaustive_pairs', res.evaluations)
    elif kind == 'js-exh':
        from ..js import bridge
        node = bridge.Node.start()
        if node is None:
            res.notes.append('js_leg: unavailable (no node)')
            return
        try:
            texts = [''.join(t) for t in enum.words(ALPHABET, JS_TXT_LEN[tier])]
            pats = [''.join(p) for i, p in enumerate(enum.words(ALPHABET, JS_PAT_LEN[tier])) if i % spec['k'] == spec['i']]
            step = max(1, 60000 // len(texts))
            for off in range(0, len(pats), step):
                chunk = pats[off:off + step]
                run_cross_js(node, res, texts, chunk, where=((off // step) % 5 == 4), tag='exhaustive')
                for p in chunk:
                    if SPECIAL & set(p):
                        res.distinct_disjoint += len(texts)
            res.count('js_exhaustive_pairs', res.evaluations)
            noise = node.take_noise()
            if noise:
                res.violation('js-async-noise', 'unhandled rejection / warning in node: %r' % noise[:3], {'engine': 'js', 'noise': noise[:3]})
        finally:
            node.close()
    elif kind in ('newlines', 'quantifiers', 'words'):
        # newlines: line breaks are characters like any other (multi-line cells come from quoted_rfc files, lists, dataframes)
        # quantifiers: literal text that a regular expression would read as a repetition count ({2}, {1,}) or a class / group fragment
        if kind == 'words':
            pats = HOST_WORDS + [w[:3] + '%' for w in HOST_WORDS] + ['%' + w[-3:] for w in HOST_WORDS] + [w.replace('o', '_') for w in HOST_WORDS] + ['%' + w + '%' for w in HOST_WORDS[:12]]
            pats = sorted(set(pats))
            texts = sorted(set(HOST_WORDS + [w.replace('_', 'x') for w in HOST_WORDS] + [w + 's' for w in HOST_WORDS[:12]] + ['a_proto_b', 'xyprotozw', '', 'constructo', 'Constructor']))
        elif kind == 'newlines':
            texts = [''.join(t) for t in enum.words(NEWLINE_ALPHABET, 3)]
            pats = [''.join(t) for t in enum.words(NEWLINE_ALPHABET, 3 if tier == 'quick' else 4)]
        else:
            pats = [''.join(t) for t in enum.words(QUANT_ALPHABET, 5)] if tier == 'thorough' else [''.join(t) for t in enum.words(QUANT_ALPHABET, 4)] + ['a{1,2}', 'a{2}%', '%{2}', '_{2}', 'a{1,}', '{1}a', 'a{2}{2}', 'ab{2}', 'a{,2}']
            texts = [''.join(t) for t in enum.words(['a', '{', '}', '1', '2', ','], 3)] + ['aa', 'aaa', 'a{2}', 'a{1,2}', 'abb', 'ab{2}', 'a{1,}', '{1}a', 'a{2}x', 'aaaa', 'a{,2}']
        res.distinct_disjoint += len(texts) * len(pats)
        if spec['engine'] == 'py':
            batch = [[t, p] for p in pats for t in texts]
            for off in range(0, len(batch), 50000):
                run_pairs_py(ns, res, batch[off:off + 50000], where=(off // 50000) % 3 == 2, tag=kind)
            res.count('py_%s_pairs' % kind[:-1], len(batch))
        else:
            from ..js import bridge
            node = bridge.Node.start()
            if node is None:
                res.notes.append('js_leg: unavailable (no node)')
                return
            try:
                step = max(1, 60000 // len(texts))
                for off in range(0, len(pats), step):
                    run_cross_js(node, res, texts, pats[off:off + step], where=(off // step) % 3 == 2, tag=kind)
                res.count('js_%s_pairs' % kind[:-1], len(texts) * len(pats))
            finally:
                node.close()
    elif kind == 'literal':
        from ..model import qast
        pats = list(LITERAL_PATTERNS) if spec['i'] == 0 else []
        while len(pats) < spec['n']:
            t, p = random_pair(rng, True)
            if rng.random() < 0.4:
                j = rng.randrange(len(p) + 1)
                p = p[:j] + rng.choice(['$$', '$&', "$'", '$`', '\\', "'", '"', '#', ' as ', ',', ';', '{', '%s']) + p[j:]
            pats.append(p)
        cases = []
        for i, p in enumerate(pats):
            texts = derived_texts(p)[:10] + [p, p.replace('$$', '$'), p + 'x', '']
            quote = '"' if i % 2 else "'"
            if '\t' in p:
                # the tab written as the character itself inside the literal (it stands for itself, like any other character): texts with the tab and with a blank in its place
                texts += [x.replace('\t', ' ') for x in texts if '\t' in x] + [x.replace('%', 'q').replace('_', 'z') for x in (p, p.replace('\t', ' '))]
                cases.append({'query': 'select like(a1, %s)' % (quote + ''.join('\t' if c == '\t' else qast.lit(c, quote)[1:-1] for c in p) + quote), 'texts': texts, 'pattern': p})
                res.count('literal_patterns_with_raw_tab')
                continue
            cases.append({'query': 'select like(a1, %s)' % qast.lit(p, quote), 'texts': texts, 'pattern': p})
        for c in cases:
            out = []
            try:
                ns.rbql.query_table(c['query'], [[t] for t in c['texts']], out, [])
                got = [r[0] for r in out]
                err = None
            except Exception as e:
                got, err = None, '%s: %s' % (util.error_class(e), str(e)[:120])
            res.count('py_literal_pattern_queries')
            for k, t in enumerate(c['texts']):
                exp = refcsv.like(t, c['pattern'])
                res.evaluations += 1
                res.nontrivial('lit', c['pattern'], t)
                if err is not None or got[k] is not exp:
                    res.violation('py-like-literal-pattern', '%s over text %r -> %s, reference like(%r, %r) = %r' % (c['query'], t, err if err else got[k], t, c['pattern'], exp), {'engine': 'py', 'pairs': [[t, c['pattern']]], 'query_text': c['query'], 'literal': True})
                    break
        from ..js import bridge
        node = bridge.Node.start()
        if node is not None:
            try:
                r = node.call({'op': 'like_literal_batch', 'cases': [{'query': c['query'], 'texts': c['texts']} for c in cases]})
                for c, o in zip(cases, r['results']):
                    res.count('js_literal_pattern_queries')
                    for k, t in enumerate(c['texts']):
                        exp = refcsv.like(utf16_units(t), utf16_units(c['pattern']))
                        res.evaluations += 1
                        if o['error'] is not None or o['out'][k] is not exp:
                            res.violation('js-like-literal-pattern', 'JS %s over text %r -> %s, reference like(%r, %r) = %r' % (c['query'], t, o['error'] if o['error'] else o['out'][k], t, c['pattern'], exp), {'engine': 'js', 'pairs': [[t, c['pattern']]], 'query_text': c['query'], 'literal': True})
                            break
            finally:
                node.close()
        res.sample({'engine': 'py+js', 'literal_pattern_queries': len(cases), 'example': cases[0]['query']})
    elif kind == 'random':
        pairs = [random_pair(rng, False) for _ in range(spec['n'])]
        for pr in pairs:
            res.nontrivial('rnd', pr[0], pr[1])
        run_pairs_py(ns, res, pairs, where=False, tag='random')
        run_pairs_py(ns, res, pairs, where=True, tag='random')
        res.count('py_random_pairs', len(pairs))
        res.sample({'engine': 'py', 'pair': pairs[0], 'reference': refcsv.like(*pairs[0])})
        from ..js import bridge
        node = bridge.Node.start()
        if node is not None:
            try:
                # half BMP-only, half with characters outside the BMP: a JavaScript "character" is a UTF-16 code unit, so the reference is
                # evaluated on the code-unit sequences there (an astral character in the pattern stands for its two units, `_` for one unit)
                bpairs = [random_pair(rng, i % 2 == 0) for i in range(spec['n'] // 2)]
                r = node.call({'op': 'like_batch', 'pairs': bpairs})
                res.count('js_queries')
                if r['error'] is not None:
                    res.violation('js-like-raises', 'JS random batch raised %r' % (r['error'],), {'engine': 'js', 'pairs': bpairs[:20], 'where': False})
                else:
                    for (t, p), row in zip(bpairs, r['out']):
                        res.evaluations += 1
                        exp = refcsv.like(utf16_units(t), utf16_units(p))
                        if max(map(ord, t + p), default=0) > 0xffff:
                            res.count('js_pairs_with_astral_characters')
                        if row[0] is not exp:
                            res.violation('js-like-mismatch', 'JS like(%r, %r) -> %r, reference %r (random)' % (t, p, row[0], exp), {'engine': 'js', 'pairs': [[t, p]], 'where': False})
                    res.count('js_random_pairs', len(bpairs))
            finally:
                node.close()
    elif kind == 'long':
        pairs = long_pairs(rng, spec['n'])
        for pr in pairs:
            res.nontrivial('long', pr[0], pr[1])
        res.count('long_pattern_pairs', len(pairs))
        res.count('long_pattern_pairs_over_16_tokens', sum(1 for _t, p_ in pairs if len(re.findall('[%_]|[^%_]+', p_)) > 16))
        if spec['engine'] == 'py':
            run_pairs_py(ns, res, pairs, where=False, tag='long')
            run_pairs_py(ns, res, pairs, where=True, tag='long')
        else:
            from ..js import bridge
            node = bridge.Node.start()
            if node is not None:
                try:
                    r = node.call({'op': 'like_batch', 'pairs': pairs})
                    res.count('js_queries')
                    if r['error'] is not None:
                        res.violation('js-like-raises', 'JS long-pattern batch raised %r' % (r['error'],), {'engine': 'js', 'pairs': pairs[:20], 'where': False})
                    else:
                        for (t, p_), row in zip(pairs, r['out']):
                            res.evaluations += 1
                            res.count('js_long_pattern_pairs')
                            exp = refcsv.like(utf16_units(t), utf16_units(p_))
                            if row[0] is not exp:
                                res.violation('js-like-mismatch', 'JS like(%r, %r) -> %r, reference %r (long)' % (t, p_, row[0], exp), {'engine': 'js', 'pairs': [[t, p_]], 'where': False})
                finally:
                    node.close()
    elif kind == 'derived':
        batch = []
        for idx, ptup in enumerate(enum.words(ALPHABET, 5, 5)):
            if idx % spec['k'] != spec['i']:
                continue
            if idx % 7 != spec['seed'] % 7 and not ({'%', '_'} & set(ptup)):
                continue
            p = ''.join(ptup)
            ts = derived_texts(p)
            res.distinct_disjoint += len(ts)
            batch.extend([t, p] for t in ts)
            if len(batch) >= 50000:
                run_pairs_py(ns, res, batch, where=False, tag='derived')
                batch = []
        if batch:
            run_pairs_py(ns, res, batch, where=False, tag='derived')
        res.count('py_derived_pairs', res.evaluations)


def summarize(tier, seed, m):
    return {
        'rule': 'exhaustive: all patterns of length <= %d x all single-line texts of length <= %d over the 14-symbol alphabet %s through `select like(a1, a2)` (every 5th batch through `where like(a1, a2)`) on the Python engine; patterns <= %d x texts <= %d on the JS engine via node; %d random longer Unicode pairs (pattern derived from the text, then perturbed; for JS half of them with characters outside the BMP, judged on UTF-16 code units)%s; a long-pattern leg (py + js): patterns of 17-100 tokens (timestamp shapes, twenty underscores, alternating wildcards and metacharacters, random ones derived from 20-80 character texts; at most three percent signs each, the translation being a backtracking regular expression); a words leg (py + js): patterns and texts that are names the host language gives a meaning to (Object.prototype / Map / dict members, keywords, constants), plain and with wildcards; a literal leg (py + js): the pattern written as a string literal in the query text (select like(a1, <literal>), both quote styles) - replacement-routine metacharacters (dollar followed by dollar, ampersand, quote or backtick), quotes, backslashes, keywords, comment markers, format placeholders - against texts derived from the pattern. distinct_nontrivial counts pairs whose pattern contains a wildcard or a regular-expression metacharacter (exhaustive legs, disjoint by construction) plus distinct random pairs.' % (
            PAT_LEN[tier], TXT_LEN[tier], ''.join(ALPHABET), JS_PAT_LEN[tier], JS_TXT_LEN[tier], RANDOM_PAIRS[tier],
            '; every length-5 pattern containing a wildcard (and 1/7 of the others) against texts derived from it (wildcard instantiations and their single-symbol edits)' if tier == 'thorough' else ''),
        'exhaustive': True,
        'required': ['py_computed_pattern_evaluations', 'py_exhaustive_pairs', 'literal_patterns_with_raw_tab', 'long_pattern_pairs_over_16_tokens', 'js_long_pattern_pairs', 'py_random_pairs', 'py_newline_pairs', 'py_quantifier_pairs', 'py_word_pairs', 'py_literal_pattern_queries'],
        'assumptions': ['rv.model.refcsv.like is SQL LIKE', 'single-line texts only (no LF, CR, NEL, LS, PS), as quantified'],
    }


def replay(case, res):
    ns = env.import_rbql()
    if case.get('engine') == 'js':
        from ..js import bridge
        node = bridge.Node.start()
        try:
            r = node.call({'op': 'like_batch', 'pairs': case['pairs']})
            for (t, p), row in zip(case['pairs'], r['out']):
                res.evaluations += 1
                if row[0] is not refcsv.like(t, p):
                    res.violation('js-like-mismatch', 'JS like(%r, %r) -> %r' % (t, p, row[0]), case)
        finally:
            node.close()
    else:
        run_pairs_py(ns, res, case['pairs'], bool(case.get('where')), 'replay')
