"""C19 - The JavaScript engine has the same relational semantics as the reference.

Oracle: rv.model.refsem on the structured query; the JS rendering is executed by the node driver with array snapshots (deep JSON
snapshot + row identity + scribble test); numbers are compared by value.  Workload: the C01-C05 / C07 generators restricted to the
language-neutral vocabulary.
"""
import copy
import random

from .. import env
from ..model import qast, refsem
from . import common, c01, c02, c03, c04, c05, c07

PROPERTY = 'C19'
LEVEL = 'exploration'
CASES = {'quick': 48000, 'thorough': 480000}
NSHARDS = {'quick': 16, 'thorough': 32}


def classify(mech, case, got, ref):
    return common.classify_known_js(mech, case, got, ref)


def stream(rng, i):
    k = i % 6
    if k == 0:
        return c01.gen_case(rng, i // 6), True
    if k == 1:
        q, T = c02.gen_base(rng, i // 6)
        if rng.random() < 0.5:
            q['top'] = rng.randrange(0, 5)
            q['top_kw'] = rng.choice(['top', 'limit'])
        return common.case_json(q, T), False
    if k == 2:
        return c03.gen_case(rng, i // 6, neutral_only=True), False
    if k == 3:
        return c04.gen_case(rng, i // 6), False
    if k == 4:
        return c05.gen_case(rng, i // 6), True
    return c07.gen_case(rng, i // 6), True


def plan(tier, seed):
    k = NSHARDS[tier]
    return [{'k': k, 'i': i, 'n': CASES[tier] // k} for i in range(k)]


def run_shard(spec, res):
    env.import_rbql()
    rng = random.Random(spec['seed'] * 122949829 + spec['i'])
    js = common.JsLeg(res, PROPERTY, classify, check_sources=True)
    if False:
        return
    try:
        for n in range(spec['n']):
            case, check_header = stream(rng, n)
            if not common.js_supported(case):
                res.count('skipped_not_language_neutral')
                continue
            if n % 11 == 6 and not case['q'].get('with'):
                # array tables take their column names from the caller: a header modifier changes nothing, in the result or in the arrays
                case['q']['with'] = rng.choice(['header', 'noheader', 'headers', 'noheaders'])
                res.count('cases_with_header_modifier')
            ref = refsem.run(case['q'], case['A'], case['B'], case['a_names'], case['b_names'])
            ctx = qast.Ctx(case['a_names'], case['b_names'])
            case['query_text'] = qast.render(case['q'], ctx, 'js')
            js.add(case, ref, check_header and common.rectangular(case))
            res.count('family:%d' % (n % 6))
            res.count('shape:' + common.feature_sig(case['q']))
            if ref.rows or ref.error is not None:
                res.nontrivial(case['query_text'], repr(case['A']), repr(case['B']))
            if ref.error is not None:
                res.count('predicted_errors')
            if n % 997 == 0:
                res.sample({'query_js': case['query_text'], 'A': case['A'][:5], 'B': case['B'] and case['B'][:5], 'a_names': case['a_names'], 'reference_rows': common.show_ref_rows(ref)[:4], 'reference_error': ref.error and ref.error.cls})
    finally:
        js.close()
    if js.unavailable:
        res.inconclusive.append('node is not available: C19 cannot be decided')


def summarize(tier, seed, m):
    shapes = sorted(k[6:] for k in m['counters'] if k.startswith('shape:'))
    return {
        'rule': 'the generators of C01 (select / where / stars / EXCEPT / UNNEST / joins), C02 (ORDER BY / DISTINCT / DISTINCT COUNT / TOP / LIMIT), C03 (aggregates, neutral arguments), C04 (joins x downstream shapes), C05 (UPDATE) and C07 (header naming with user functions) restricted to the language-neutral expression vocabulary and rendered into JS syntax; every case executed by the node driver on the working tree with deep JSON snapshots, row identity and a scribble test of the input and join arrays; compared with the reference (rows by value and order, header, error class and record number). distinct_nontrivial = distinct (JS query, tables) with a non-empty reference result or a predicted error.',
        'required': ['js_cases', 'predicted_errors', 'cases_with_header_modifier'] + ['family:%d' % k for k in range(6)],
        'extra': {'shapes_seen': shapes},
        'assumptions': ['rv/model/refsem.py; anything where the host languages legitimately differ (null stringification, string <-> number coercion, integer division, negative modulo, non-BMP ordering) is outside the vocabulary'],
    }


def replay(case, res):
    ns = env.import_rbql()
    case = dict(case, engine='js')
    common.replay_case(ns, res, case, PROPERTY, False, classify)
