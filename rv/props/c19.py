"""C19 - The JavaScript engine has the same relational semantics as the reference.

Oracle: rv.model.refsem on the structured query; the JS rendering is executed by the node driver with array snapshots (deep JSON
snapshot + row identity + scribble test); numbers are compared by value.  Workload: the C01-C05 / C07 generators restricted to the
language-neutral vocabulary.
"""
import copy
import random

from .. import env
from ..model import qast, refsem
from . import common, c01, c02, c03, c04, c05, c07

PROPERTY = 'C19'
LEVEL = 'exploration'
CASES = {'quick': 48000, 'thorough': 480000}
NSHARDS = {'quick': 16, 'thorough': 32}


def classify(mech, case, got, ref):
    return common.classify_known_js(mech, case, got, ref)


def stream(rng, i):
    k = i % 6
    if k == 0:
        return c01.gen_case(rng, i // 6), True
    if k == 1:
        q, T = c02.gen_base(rng, i // 6)
        if rng.random() < 0.5:
            q['top'] = rng.randrange(0, 5)
            q['top_kw'] = rng.choice(['top', 'limit'])
        return common.case_json(q, T), False
    if k == 2:
        return c03.gen_case(rng, i // 6, neutral_only=True), False
    if k == 3:
        return c04.gen_case(rng, i // 6), False
    if k == 4:
        return c05.gen_case(rng, i // 6), True
    return c07.gen_case(rng, i // 6), True


ILLEGAL_QUERIES = [
    'select distinct count a1, COUNT(*) group by a1', 'select distinct count MAX(a2)', 'select top 2 distinct count a1, MIN(a2) group by a1', 'select distinct a1, COUNT(*) group by a1',
    'select distinct MAX(a2)', 'select a1, COUNT(*) group by a1 order by a1', 'select MAX(a1) order by a1', 'select top 1 SUM(a3) order by a2 desc', 'update a1 = a2 order by a1',
    'update a1 = a2 group by a1', 'select a1, UNNEST(a2), UNNEST(a3)', 'select * where a1 = 1', 'select top x a1', 'select a1 limit -', 'select a1 join b on a1 < b1',
    'select a1 join b on a1 == b1 or a2 == b2', 'select a1 join b on a9x == b1', 'select', 'select a1 order by', 'select a1 join b', 'select a1 join b on',
    'select a1, a2 group by', 'select * except', 'select * except a1,', 'update', 'update set', 'select a1 where', 'select a1 with (nonsense)', 'select a1 with (header) extra',
    'select distinct count', 'select top 3', 'select a1 strict left join b on a1 == b1 where', 'select a1 left join b on NR == bNR order by', 'select COUNT(*) where a1 = "x"',
    'select a1 group by a1 group by a2', 'select a1 order by a1 order by a2', 'select a1 where a1 where a2', 'select a1 limit 1 limit 2', 'select a1 join b on a1 == b1 join b on a2 == b2',
]


def leg_illegal(res, spec):
    """Clause combinations and malformed texts that the reference semantics reject: both engines must fail, with the same error class."""
    from ..js import bridge
    from ..monitors import boundary
    ns = env.import_rbql()
    node = bridge.Node.start()
    if node is None:
        res.inconclusive.append('node is not available: C19 cannot be decided')
        return
    A = [['a', '1', '5'], ['b', '2', '6'], ['a', '3', '7']]
    B = [['a', 'p'], ['b', 'q']]
    try:
        variants = []
        for q in ILLEGAL_QUERIES:
            variants.append(q)
            variants.append(q.upper().replace('A1', 'a1').replace('A2', 'a2').replace('A3', 'a3').replace('B1', 'b1').replace('B2', 'b2').replace('BNR', 'bNR').replace('A9X', 'a9x').replace(' B ', ' b ').replace('NOSUCH', 'nosuch').replace('"X"', '"x"'))
        reqs = [{'query': q, 'input': [list(r) for r in A], 'join': [list(r) for r in B], 'input_cols': None, 'join_cols': None} for q in variants]
        outs = node.call({'op': 'query_batch', 'cases': reqs})['results']
        for q, o in zip(variants, outs):
            py = boundary.run_query_table(ns, q, [list(r) for r in A], [list(r) for r in B])
            jcls = common.js_error_class(o['error']) if o['error'] else None
            res.evaluations += 1
            res.count('illegal_query_runs')
            res.distinct_disjoint += 1
            case = {'leg': 'illegal', 'query_text': q, 'engine': 'js'}
            if py['error'] is None:
                res.count('illegal_query_accepted_by_python')      # not a JS matter: C14 pins the Python side
                continue
            if jcls is None:
                res.violation('js:illegal-query-accepted', '[js] %s returns %r ; the Python engine raises %s: %s' % (q, o['out'][:4], py['error'], (py['error_msg'] or '')[:100]), case)
            elif jcls != py['error'] and not (py['error'] == 'syntax' or jcls == 'syntax'):
                res.violation('js:illegal-query-error-class-differs', '[js] %s raises %s (%s) ; the Python engine raises %s (%s)' % (q, jcls, o['error']['msg'][:80], py['error'], (py['error_msg'] or '')[:80]), case)
        res.sample({'leg': 'illegal', 'queries': len(variants), 'example': variants[0]})
    finally:
        node.close()


def leg_ragged_left_join(res, spec):
    """LEFT JOIN against a RAGGED join table with repeated keys (the widest record anywhere: first of its key, a later record of a key, the only record),
    with input records that have no partner: the all-None join record is as wide as the widest join record, in b.*, * and bNF - the Python engine on the same
    query text is the reference."""
    from ..js import bridge
    from ..monitors import boundary
    ns = env.import_rbql()
    node = bridge.Node.start()
    if node is None:
        return
    rng = random.Random(spec['seed'] * 7 + 5)
    try:
        reqs, metas = [], []
        for n in range(150):
            keys = ['k1', 'k2', 'k3'][:rng.randrange(1, 4)]
            B = []
            for _ in range(rng.randrange(1, 7)):
                w = rng.randrange(1, 5)
                B.append([rng.choice(keys)] + ['v%d' % j for j in range(w - 1)])
            if n % 3 == 0:
                B.append([B[0][0]] + ['wide%d' % j for j in range(4)])          # the widest record repeats a key seen before
            A = [[rng.choice(keys + ['zz', 'zz']), 'a%d' % r] for r in range(rng.randrange(1, 5))]
            q = ['select a1, b.* left join b on a1 == b1', 'select * left join b on a1 == b1', 'select a1, bNF, bNR left join b on a1 == b1', 'select a2, b.* left join b on b1 == a1 where b1 === null || b1 == "k1"',
                 'select b.*, a1 left outer join b on a1 == b1'][n % 5]
            reqs.append({'query': q, 'input': [list(r) for r in A], 'join': [list(r) for r in B], 'input_cols': None, 'join_cols': None})
            metas.append((q, A, B))
        outs = node.call({'op': 'query_batch', 'cases': reqs})['results']
        for (q, A, B), o in zip(metas, outs):
            py = boundary.run_query_table(ns, q.replace('b1 === null || b1 == "k1"', 'b1 is None or b1 == "k1"'), [list(r) for r in A], [list(r) for r in B])
            res.evaluations += 1
            res.count('ragged_left_join_runs')
            res.nontrivial('ragged-left-join', q, repr(A), repr(B))
            jerr = common.js_error_class(o['error']) if o['error'] else None
            if jerr != py['error'] or (jerr is None and o['out'] != py['rows']):
                res.violation('js:ragged-left-join-differs-from-python', '[js] %s over A=%r B=%r -> %r (error %r) ; the Python engine -> %r (error %r)' % (q, A, B, o['out'], o['error'], py['rows'], py['error_msg']),
                              {'leg': 'ragged-left-join', 'query_text': q, 'A': A, 'B': B, 'engine': 'js'})
    finally:
        node.close()


def plan(tier, seed):
    k = NSHARDS[tier]
    return [{'k': k, 'i': i, 'n': CASES[tier] // k} for i in range(k)] + [{'kind': 'illegal'}]


def run_shard(spec, res):
    if spec.get('kind') == 'illegal':
        leg_ragged_left_join(res, spec)
        return leg_illegal(res, spec)
    env.import_rbql()
    rng = random.Random(spec['seed'] * 122949829 + spec['i'])
    js = common.JsLeg(res, PROPERTY, classify, check_sources=True)
    if False:
        return
    try:
        for n in range(spec['n']):
            case, check_header = stream(rng, n)
            if not common.js_supported(case):
                res.count('skipped_not_language_neutral')
                continue
            if n % 11 == 6 and not case['q'].get('with'):
                # array tables take their column names from the caller: a header modifier changes nothing, in the result or in the arrays
                case['q']['with'] = rng.choice(['header', 'noheader', 'headers', 'noheaders'])
                res.count('cases_with_header_modifier')
            ref = refsem.run(case['q'], case['A'], case['B'], case['a_names'], case['b_names'])
            ctx = qast.Ctx(case['a_names'], case['b_names'])
            case['query_text'] = qast.render(case['q'], ctx, 'js')
            js.add(case, ref, check_header and common.rectangular(case))
            res.count('family:%d' % (n % 6))
            res.count('shape:' + common.feature_sig(case['q']))
            if ref.rows or ref.error is not None:
                res.nontrivial(case['query_text'], repr(case['A']), repr(case['B']))
            if ref.error is not None:
                res.count('predicted_errors')
            if n % 997 == 0:
                res.sample({'query_js': case['query_text'], 'A': case['A'][:5], 'B': case['B'] and case['B'][:5], 'a_names': case['a_names'], 'reference_rows': common.show_ref_rows(ref)[:4], 'reference_error': ref.error and ref.error.cls})
    finally:
        js.close()
    if js.unavailable:
        res.inconclusive.append('node is not available: C19 cannot be decided')


def summarize(tier, seed, m):
    shapes = sorted(k[6:] for k in m['counters'] if k.startswith('shape:'))
    return {
        'rule': 'the generators of C01 (select / where / stars / EXCEPT / UNNEST / joins), C02 (ORDER BY / DISTINCT / DISTINCT COUNT / TOP / LIMIT), C03 (aggregates, neutral arguments), C04 (joins x downstream shapes), C05 (UPDATE) and C07 (header naming with user functions) restricted to the language-neutral expression vocabulary and rendered into JS syntax; every case executed by the node driver on the working tree with deep JSON snapshots, row identity and a scribble test of the input and join arrays; compared with the reference (rows by value and order, header, error class and record number). an illegal-combinations leg: 39 clause combinations and malformed texts the reference semantics reject (DISTINCT / DISTINCT COUNT / ORDER BY with aggregates, UPDATE with ORDER BY / GROUP BY, two UNNESTs, assignment in WHERE, non-equality and OR join conditions, dangling keywords, repeated clauses, unknown modifiers), lower- and upper-case, must fail on the JS engine with the class the Python engine reports; distinct_nontrivial = distinct (JS query, tables) with a non-empty reference result or a predicted error.',
        'required': ['ragged_left_join_runs', 'js_cases', 'predicted_errors', 'cases_with_header_modifier', 'illegal_query_runs'] + ['family:%d' % k for k in range(6)],
        'extra': {'shapes_seen': shapes},
        'assumptions': ['rv/model/refsem.py; anything where the host languages legitimately differ (null stringification, string <-> number coercion, integer division, negative modulo, non-BMP ordering) is outside the vocabulary'],
    }


def replay(case, res):
    ns = env.import_rbql()
    case = dict(case, engine='js')
    common.replay_case(ns, res, case, PROPERTY, False, classify)
