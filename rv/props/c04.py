"""C04 - JOIN pairs each A record with exactly its key-equal B records.

Oracle: rv.model.refsem (expansion by nested loops with == on raw cell values, then the C01/C02/C03/C05 semantics on the pairs).
Probe registry: the join table is read completely, once, before the first output.
"""
import random

from .. import env
from ..gen import queries as gq
from ..model import refsem
from . import common, c02

PROPERTY = 'C04'
LEVEL = 'exploration'
CASES = {'quick': 24000, 'thorough': 400000}
NSHARDS = {'quick': 16, 'thorough': 32}


def classify_js(mech, case, got, ref):
    return common.classify_known_js(mech, case, got, ref)


def gen_case(rng, i):
    downstream = ['select', 'select', 'where', 'order', 'distinct', 'count', 'unnest', 'agg', 'update', 'update-where', 'top', 'star'][i % 12]
    T = common.make_tables(rng, join=True, header_p=0.4, cells=gq.SMALL_CELLS if rng.random() < 0.7 else None, max_rows=6, max_cols=3, ragged_p=0.2, none_p=0.05)
    g = gq.G(rng, T['A'], T['a_names'], T['B'], T['b_names'])
    if downstream in ('update', 'update-where'):
        q = g.gen_update({'join'} | ({'where'} if downstream == 'update-where' else set()))
    elif downstream == 'agg':
        q = {'kind': 'select', 'items': [], 'distinct': None, 'top': None, 'top_kw': 'top', 'where': None, 'join': None, 'order': None, 'group': None, 'except': None, 'assign': [], 'with': None}
        q['join'] = g.gen_join()
        kf = g.field('str')
        while kf is not None and kf[1] != 'a':
            kf = g.field('str')
            if rng.random() < 0.1:
                kf = None
        fb = ['field', 'b', rng.randrange(0, max(1, g.wb)), 'var']
        items = [{'kind': 'agg', 'func': 'COUNT', 'spelling': 'COUNT', 'arg': '*'}, {'kind': 'agg', 'func': 'ARRAY_AGG', 'spelling': rng.choice(['ARRAY_AGG', 'array_agg']), 'arg': fb},
                 {'kind': 'agg', 'func': 'ARRAY_AGG', 'spelling': 'ARRAY_AGG', 'arg': ['bNR']}]
        if kf is not None:
            q['group'] = [kf]
            items.insert(0, {'kind': 'expr', 'expr': kf})
        q['items'] = items
        if rng.random() < 0.3:
            q['where'] = ['not', ['isnone', fb]] if g.left_join else g.gen_where()
    else:
        feats = {'join'}
        if rng.random() < 0.12:
            feats.add('strict')
        if downstream in ('where', 'order', 'distinct', 'count', 'unnest', 'top', 'star'):
            feats.add(downstream)
        if rng.random() < 0.3:
            feats.add('where')
        q = g.gen_select(feats)
        if downstream == 'star' or rng.random() < 0.3:
            if not any(it['kind'] == 'bstar' for it in q['items']) and (T['a_names'] is not None or not any(it.get('alias') for it in q['items'])):
                q['items'].append({'kind': 'bstar'})
    return common.case_json(q, T)


def plan(tier, seed):
    k = NSHARDS[tier]
    return [{'k': k, 'i': i, 'n': CASES[tier] // k} for i in range(k)]


def run_shard(spec, res):
    ns = env.import_rbql()
    rng = random.Random(spec['seed'] * 32452843 + spec['i'])
    js = common.JsLeg(res, PROPERTY, classify_js)
    try:
        for n in range(spec['n']):
            case = gen_case(rng, n)
            ref = refsem.run(case['q'], case['A'], case['B'], case['a_names'], case['b_names'])
            o = common.run_case_py(ns, case)
            res.evaluations += 1
            res.count('py_cases')
            common.compare(res, PROPERTY, 'py', case, common.obs_to_got(o), ref, False, None)
            common.check_py_monitors(res, case, o)
            if o.error is None and case['B'] is not None:
                res.count('join_table_read_pattern_checks')
            res.count('join:' + case['q']['join']['type'])
            res.count('keypairs:%d' % len(case['q']['join']['pairs']))
            if ref.error is not None:
                res.count('predicted_errors')
                res.count('predicted_error_b_side' if ref.error.table == 'b' else 'predicted_error_a_side')
            if ref.rows or ref.error is not None:
                res.nontrivial(case['query_text'], repr(case['A']), repr(case['B']))
            # multiplicity statistics: how many (A, B) blocks larger than 1x1 were seen
            if ref.error is None and len(ref.rows) > len(case['A']):
                res.count('fan_out_cases')
            res.count('shape:' + common.feature_sig(case['q']))
            if n % 2999 == 0:
                res.sample({'query': case['query_text'], 'A': case['A'], 'B': case['B'], 'reference_rows': common.show_ref_rows(ref)[:6], 'reference_error': ref.error and ref.error.what})
            js.add(case, ref, False)
    finally:
        js.close()


def summarize(tier, seed, m):
    shapes = sorted(k[6:] for k in m['counters'] if k.startswith('shape:'))
    return {
        'rule': 'pairs of small tables with duplicate keys on both sides (m x n blocks), ragged / empty A and B, None cells; JOIN / INNER JOIN / LEFT JOIN / LEFT OUTER JOIN / STRICT LEFT JOIN; 1-3 key pairs with == or =, either side order, NR / aNR / a.NR against bNR / b.NR / fields in every spelling; downstream rotating over plain select, WHERE (incl. b-field is None), ORDER BY, DISTINCT, DISTINCT COUNT, UNNEST, aggregates (COUNT, ARRAY_AGG of b-fields and bNR, grouped by an a-field), UPDATE with and without WHERE, TOP, b.* expansion. distinct_nontrivial = distinct (query, A, B) with a non-empty reference result or a predicted error.',
        'required': ['py_cases', 'join_table_read_pattern_checks', 'fan_out_cases', 'predicted_error_a_side', 'predicted_error_b_side', 'js_cases', 'join:STRICT LEFT JOIN', 'join:LEFT OUTER JOIN', 'keypairs:3'],
        'extra': {'shapes_seen': shapes},
        'assumptions': ['rv/model/refsem.py expand() is the join semantics of the statement'],
    }


def replay(case, res):
    ns = env.import_rbql()
    common.replay_case(ns, res, case, PROPERTY, False, classify_js)
