"""C04 - JOIN pairs each A record with exactly its key-equal B records.

Oracle: rv.model.refsem (expansion by nested loops with == on raw cell values, then the C01/C02/C03/C05 semantics on the pairs).
Probe registry: the join table is read completely, once, before the first output.
"""
import random

from .. import env, util
from ..gen import queries as gq
from ..model import refsem
from . import common, c02

PROPERTY = 'C04'
LEVEL = 'exploration'
CASES = {'quick': 24000, 'thorough': 400000}
NSHARDS = {'quick': 16, 'thorough': 32}


def classify_js(mech, case, got, ref):
    return common.classify_known_js(mech, case, got, ref)


def gen_case(rng, i):
    downstream = ['select', 'select', 'where', 'order', 'distinct', 'count', 'unnest', 'agg', 'update', 'update-where', 'top', 'star'][i % 12]
    T = common.make_tables(rng, join=True, header_p=0.4, cells=gq.SMALL_CELLS if rng.random() < 0.7 else None, max_rows=6, max_cols=3, ragged_p=0.2, none_p=0.05)
    g = gq.G(rng, T['A'], T['a_names'], T['B'], T['b_names'])
    if downstream in ('update', 'update-where'):
        q = g.gen_update({'join'} | ({'where'} if downstream == 'update-where' else set()))
    elif downstream == 'agg':
        q = {'kind': 'select', 'items': [], 'distinct': None, 'top': None, 'top_kw': 'top', 'where': None, 'join': None, 'order': None, 'group': None, 'except': None, 'assign': [], 'with': None}
        q['join'] = g.gen_join()
        kf = g.field('str')
        while kf is not None and kf[1] != 'a':
            kf = g.field('str')
            if rng.random() < 0.1:
                kf = None
        fb = ['field', 'b', rng.randrange(0, max(1, g.wb)), 'var']
        items = [{'kind': 'agg', 'func': 'COUNT', 'spelling': 'COUNT', 'arg': '*'}, {'kind': 'agg', 'func': 'ARRAY_AGG', 'spelling': rng.choice(['ARRAY_AGG', 'array_agg']), 'arg': fb},
                 {'kind': 'agg', 'func': 'ARRAY_AGG', 'spelling': 'ARRAY_AGG', 'arg': ['bNR']}]
        if kf is not None:
            q['group'] = [kf]
            items.insert(0, {'kind': 'expr', 'expr': kf})
        q['items'] = items
        if rng.random() < 0.3:
            q['where'] = ['not', ['isnone', fb]] if g.left_join else g.gen_where()
    else:
        feats = {'join'}
        if rng.random() < 0.12:
            feats.add('strict')
        if downstream in ('where', 'order', 'distinct', 'count', 'unnest', 'top', 'star'):
            feats.add(downstream)
        if rng.random() < 0.3:
            feats.add('where')
        q = g.gen_select(feats)
        if downstream == 'star' or rng.random() < 0.3:
            if not any(it['kind'] == 'bstar' for it in q['items']) and (T['a_names'] is not None or not any(it.get('alias') for it in q['items'])):
                q['items'].append({'kind': 'bstar'})
    return common.case_json(q, T)


# ---------------------------------------------------------------------------------------------------------------
# typed front-ends: the key fields that must "all equal" are the cells of a dataframe / a sqlite table, with their own types

def leg_typed_join(ns, res, spec):
    import sqlite3
    import pandas as pd
    from .c01 import show
    rng = random.Random(spec['seed'] * 86028157 + spec['i'])

    class Sink(ns.engine.RBQLOutputWriter):
        def __init__(self):
            self.rows = []

        def write(self, fields):
            self.rows.append(list(fields))
            return True

    big = [2 ** 53, 2 ** 53 + 1, 2 ** 53 + 2, 2 ** 62 + 1, 2 ** 62 + 3]
    for n in range(spec['n']):
        front = ['pandas', 'sqlite', 'pandas', 'sqlite', 'list'][n % 5]
        pool = rng.choice([[1, 2, 3, 4], big + [1, 2], [0, 1, 2 ** 53, 2 ** 53 + 1], [10, 20, 30]])
        na, nb = rng.randrange(1, 6), rng.randrange(1, 6)
        A = [[rng.choice(pool), rng.choice(['x', 'y', 'z'])] for _ in range(na)]
        bkind = rng.choice(['int+float', 'int+float', 'int+str', 'int+int+float', 'floatkey+str'])
        if front == 'list':
            # equal numbers of different types in one key column (1, 1.0, True): pairing is by equality, every emitted cell keeps its own type
            mixed = [1, 1.0, True, 2, 2.0, 0, False, 0.0, 3.5, 3]
            A = [[rng.choice(mixed), rng.choice(['x', 'y', 'z'])] for _ in range(na)]
            B = [[rng.choice(mixed), rng.choice(['p', 'q'])] for _ in range(nb)]
            bkind = 'mixed-number-types'
        elif bkind == 'floatkey+str':
            # an integer key column joined with a REAL / float64 key column: 2 pairs with 2.0, nothing pairs with 2.5; beyond 2**53 the float is its own value
            B = [[float(rng.choice(pool)) + rng.choice([0.0, 0.0, 0.0, 0.5]), rng.choice(['p', 'q'])] for _ in range(nb)]
        elif bkind == 'int+float':
            B = [[rng.choice(pool), rng.choice([0.5, 1.5, 2.0, -1.25])] for _ in range(nb)]
        elif bkind == 'int+str':
            B = [[rng.choice(pool), rng.choice(['p', 'q'])] for _ in range(nb)]
        else:
            B = [[rng.choice(pool), rng.choice([7, 8, 2 ** 53 + 1]), rng.choice([0.5, 2.0])] for _ in range(nb)]
        an, bn = ['id', 'tag'], ['id', 'val', 'w'][:len(B[0])]
        if front == 'pandas':
            dfa = pd.DataFrame({'id': pd.Series([r[0] for r in A], dtype='int64'), 'tag': pd.Series([r[1] for r in A], dtype='object')})
            dfb = pd.DataFrame({bn[j]: pd.Series([r[j] for r in B], dtype=('object' if isinstance(B[0][j], str) else ('float64' if isinstance(B[0][j], float) else 'int64'))) for j in range(len(bn))})
            conn = None
            make = lambda: (ns.pandas.DataframeIterator(dfa, normalize_column_names=True), ns.pandas.SingleDataframeRegistry(dfb, 'b', True))
        elif front == 'list':
            conn = None
            make = lambda: (ns.engine.TableIterator([list(r) for r in A], list(an)), ns.engine.ListTableRegistry([ns.engine.ListTableInfo('b', [list(r) for r in B], list(bn))]))
        else:
            conn = sqlite3.connect(':memory:')
            conn.execute('CREATE TABLE t (id INTEGER, tag TEXT)')
            conn.executemany('INSERT INTO t VALUES (?, ?)', A)
            conn.execute('CREATE TABLE b (%s)' % ', '.join('%s %s' % (x, 'TEXT' if isinstance(B[0][j], str) else ('REAL' if isinstance(B[0][j], float) else 'INTEGER')) for j, x in enumerate(bn)))
            conn.executemany('INSERT INTO b VALUES (%s)' % ','.join('?' * len(bn)), B)
            conn.commit()
            make = lambda: (ns.sqlite.SqliteRecordIterator(conn, 't'), ns.sqlite.SqliteDbRegistry(conn))
        wb = len(bn)
        for jt in ('JOIN', 'LEFT JOIN', 'STRICT LEFT JOIN'):
            for qtext, proj in (('select a1, a2, b.* %s b on a1 == b1' % jt, lambda a, b, bnr: [a[0], a[1]] + list(b)),
                                ('select a.id, b2, bNR %s b on a.id == b.id' % jt, lambda a, b, bnr: [a[0], b[1], bnr]),
                                ('select NR, b1 %s b on b1 == a1 where b1 is None or b1 > 0' % jt, lambda a, b, bnr: None)):
                exp, fail = [], False
                for i, a in enumerate(A):
                    ms = [(k + 1, b) for k, b in enumerate(B) if b[0] == a[0]]
                    if jt == 'STRICT LEFT JOIN' and len(ms) != 1:
                        fail = True
                        break
                    if not ms and jt != 'JOIN':
                        ms = [(None, [None] * wb)]
                    for bnr, b in ms:
                        if proj(a, b, bnr) is None:
                            if b[0] is None or b[0] > 0:
                                exp.append([i + 1, b[0]])
                        else:
                            exp.append(proj(a, b, bnr))
                sink = Sink()
                err = None
                try:
                    it, reg = make()
                    ns.rbql.query(qtext, it, sink, [], reg)
                except Exception as e:
                    err = '%s: %s' % (type(e).__name__, str(e)[:150])
                res.evaluations += 1
                res.count('typed_join_runs:' + front)
                res.nontrivial('typed-join', front, qtext, repr(A), repr(B))
                got_s = None if err else [[show(v) for v in r] for r in sink.rows]
                exp_s = [[show(v) for v in r] for r in exp]
                cs = {'leg': 'typed-join', 'front_end': front, 'query_text': qtext, 'A': [[show(v) for v in r] for r in A], 'B': [[show(v) for v in r] for r in B]}
                if fail:
                    if err is None:
                        res.violation('py:typed-strict-left-join-does-not-fail:' + front, '[py/%s] %s over A=%r B=%r returned %r although some A record has no single match' % (front, qtext, A, B, got_s), cs)
                elif got_s != exp_s:
                    res.violation('py:typed-join-pairs-differ:' + front, '[py/%s] %s over A=%r B=%r (%s) -> %s ; expected %r' % (front, qtext, A, B, bkind, err or got_s, exp_s), cs)
        if conn is not None:
            conn.close()
        if n % 97 == 0:
            res.sample({'leg': 'typed-join', 'front_end': front, 'A': [[show(v) for v in r] for r in A], 'B': [[show(v) for v in r] for r in B]})


# ---------------------------------------------------------------------------------------------------------------
# the same generated joins with both tables in CSV FILES (header lines, comment lines that are not records, ragged rows)

def leg_csv_join(ns, res, spec):
    import copy
    import os
    import shutil
    import tempfile
    from ..model import qast, refcsv
    from . import c13
    rng = random.Random(spec['seed'] * 94418953 + spec['i'])
    d = tempfile.mkdtemp(prefix='rv-c04-')
    try:
        # record numbers of the JOIN FILE as key components and as values, with and without a header line (and comment lines) in that file:
        # bNR is 1 on the first DATA record of the join table, whatever lines precede it
        for hdr_mode in (False, True):
            for prefix in (None, '#'):
                for jt in ('JOIN', 'LEFT JOIN', 'STRICT LEFT JOIN'):
                    nA, nB = rng.randrange(2, 6), rng.randrange(2, 6)
                    A = [['k%d' % (r % 3), 'a%d' % r] for r in range(nA)]
                    B = [['k%d' % ((r + 1) % 3), 'b%d' % r] for r in range(nB)]
                    ta = ('key,aval\n' if hdr_mode else '') + ''.join((('#c\n' if prefix and r == 1 else '') + ','.join(x) + '\n') for r, x in enumerate(A))
                    tb = (('#lead\n' if prefix else '') + 'key,bval\n' if hdr_mode else ('#lead\n' if prefix else '')) + ''.join((('#m\n' if prefix and r == 1 else '') + ','.join(x) + '\n') for r, x in enumerate(B))
                    with open(os.path.join(d, 'nr_in.csv'), 'w') as f:
                        f.write(ta)
                    with open(os.path.join(d, 'nr_jn.csv'), 'w') as f:
                        f.write(tb)
                    for qt, pair, proj in (('select a2, b2, bNR %s nr_jn.csv on NR == bNR' % jt, lambda i, k: i == k, lambda a, b, i, k: [a[1], b[1], k]),
                                           ('select NR, bNR, bNR, b1 %s nr_jn.csv on a1 == b1' % jt, lambda i, k: A[i - 1][0] == B[k - 1][0], lambda a, b, i, k: [i, k, k, b[0]]),
                                           ('select a2, b2 %s nr_jn.csv on NR == bNR and b1 == a1' % jt, lambda i, k: i == k and A[i - 1][0] == B[k - 1][0], lambda a, b, i, k: [a[1], b[1]])):
                        exp, fail = [], False
                        for i, a in enumerate(A, 1):
                            ms = [k for k in range(1, nB + 1) if pair(i, k)]
                            if jt == 'STRICT LEFT JOIN' and len(ms) != 1:
                                fail = True
                                break
                            if not ms and jt != 'JOIN':
                                exp.append(['' if v is None else str(v) for v in proj(a, [None, None], i, None)])
                            for k in ms:
                                exp.append([str(v) for v in proj(a, B[k - 1], i, k)])
                        err = rows = None
                        try:
                            ns.rbql.query_csv(qt, os.path.join(d, 'nr_in.csv'), ',', 'quoted', os.path.join(d, 'nr_out.csv'), ',', 'quoted', 'utf-8', [], hdr_mode, prefix)
                            with open(os.path.join(d, 'nr_out.csv'), 'rb') as f:
                                rows = refcsv.read_text(f.read().decode('utf-8'), ',', 'quoted', None, hdr_mode).records
                        except Exception as e:
                            err = '%s: %s' % (util.error_class(e), str(e)[:120])
                        res.evaluations += 1
                        res.count('csv_join_record_number_runs')
                        cs = {'leg': 'csv-join-nr', 'query_text': qt, 'input_text': ta, 'join_text': tb, 'header': hdr_mode, 'comment_prefix': prefix}
                        if fail:
                            if err is None:
                                res.violation('py:csv-join-record-numbers:strict-does-not-fail', '[py/query_csv] %s over %r / %r (header %s) returned %r although some record has no single match' % (qt, ta, tb, hdr_mode, rows), cs)
                        elif err is not None or rows != exp:
                            res.violation('py:csv-join-record-numbers', '[py/query_csv] %s over input file %r and join file %r (header %s, comment prefix %r) -> %s ; expected %r' % (qt, ta, tb, hdr_mode, prefix, err or rows, exp), cs)
        done = 0
        for n in range(spec['n'] * 6):
            if done >= spec['n']:
                break
            case = gen_case(rng, n)
            A, B, an, bn = case['A'], case['B'], case['a_names'], case['b_names']
            cells = [c for t in (A, B) for r in t for c in r] + list(an or []) + list(bn or [])
            if any(not isinstance(c, str) or '\n' in c or '\r' in c for c in cells) or any(len(r) == 0 for t in (A, B) for r in t):
                continue
            if an is not None and (any(len(r) != len(an) for r in A[:1]) or any(len(r) != len(bn) for r in B[:1])):
                continue
            ref = refsem.run(case['q'], A, B, an, bn)
            refd = {'error': None if ref.error is None else ref.error.cls, 'header': ref.header, 'rows': ref.rows or []}
            if ref.error is None and not c13.acceptable(refd):
                continue
            done += 1
            prefix = None
            # a table without records (and without a header line) is an empty file
            ta = c13.csv_text(A, an, ',', 'quoted') if (A or an is not None) else ''
            tb = c13.csv_text(B, bn, ',', 'quoted') if (B or bn is not None) else ''
            if ta.startswith('\ufeff') or tb.startswith('\ufeff'):
                continue          # at the very start of a FILE those three bytes are a byte order mark, not cell content
            if n % 2 == 0:
                ok = [p for p in ('#', '//', '%%', '>>') if not any(l.startswith(p) for l in (ta + tb).split('\n'))]
                if ok:
                    prefix = ok[n // 2 % len(ok)]
                    ta = c13.with_comments(ta, prefix, rng) if ta else ta
                    tb = c13.with_comments(tb, prefix, rng) if tb else tb
            cd = os.path.join(d, 'c%d' % n)
            os.mkdir(cd)
            with open(os.path.join(cd, 'in.csv'), 'w', encoding='utf-8', newline='') as f:
                f.write(ta)
            with open(os.path.join(cd, 'jn.csv'), 'w', encoding='utf-8', newline='') as f:
                f.write(tb)
            q = copy.deepcopy(case['q'])
            q['join']['table'] = 'jn.csv'
            qtext = qast.render(q, qast.Ctx(an, bn), 'py')
            err = rows = hdr = None
            try:
                ns.rbql.query_csv(qtext, os.path.join(cd, 'in.csv'), ',', 'quoted', os.path.join(cd, 'out.csv'), ',', 'quoted', 'utf-8', [], an is not None, prefix)
                with open(os.path.join(cd, 'out.csv'), 'rb') as f:
                    r = refcsv.read_text(f.read().decode('utf-8'), ',', 'quoted', None, bool(ref.header))      # as text: a leading U+FEFF of the OUTPUT is the content of its first cell
                rows, hdr = r.records, r.header
            except Exception as e:
                err = '%s: %s' % (util.error_class(e), str(e)[:120])
            shutil.rmtree(cd, ignore_errors=True)
            res.evaluations += 1
            res.count('csv_join_runs')
            res.count('csv_join_runs:' + ('comments' if prefix else 'plain'))
            res.nontrivial('csv-join', qtext, ta, tb)
            cs = dict(case, query_text=qtext, leg='csv-join', comment_prefix=prefix, input_text=ta, join_text=tb, engine='py')
            if ref.error is not None:
                if err is None:
                    res.violation('py:csv-join-succeeds-where-reference-fails', '[py/query_csv] %s over files %r / %r returns %r ; the reference fails: %s' % (qtext, ta, tb, rows, ref.error), cs)
                continue
            exp = c13.norm_rows(ref.rows)
            if err is not None or c13.norm_rows(rows) != exp:
                res.violation('py:csv-join-pairs-differ:' + common.feature_sig(case['q']), '[py/query_csv] %s over input file %r and join file %r (comment prefix %r) -> %s ; reference %r' % (qtext, ta, tb, prefix, err or c13.norm_rows(rows), exp), cs)
            if n % 53 == 0:
                res.sample({'leg': 'csv-join', 'query': qtext, 'input_file': ta, 'join_file': tb, 'comment_prefix': prefix, 'reference_rows': exp[:4]})
    finally:
        shutil.rmtree(d, ignore_errors=True)


def plan(tier, seed):
    k = NSHARDS[tier]
    return [{'k': k, 'i': i, 'n': CASES[tier] // k} for i in range(k)] + [{'kind': 'typed-join', 'i': i, 'n': 120 if tier == 'quick' else 1500} for i in range(2 if tier == 'quick' else 6)] + [{'kind': 'csv-join', 'i': i, 'n': 150 if tier == 'quick' else 2000} for i in range(2 if tier == 'quick' else 6)]


def run_shard(spec, res):
    ns = env.import_rbql()
    if spec.get('kind') == 'typed-join':
        return leg_typed_join(ns, res, spec)
    if spec.get('kind') == 'csv-join':
        return leg_csv_join(ns, res, spec)
    rng = random.Random(spec['seed'] * 32452843 + spec['i'])
    js = common.JsLeg(res, PROPERTY, classify_js)
    try:
        for n in range(spec['n']):
            case = gen_case(rng, n)
            ref = refsem.run(case['q'], case['A'], case['B'], case['a_names'], case['b_names'])
            o = common.run_case_py(ns, case)
            res.evaluations += 1
            res.count('py_cases')
            common.compare(res, PROPERTY, 'py', case, common.obs_to_got(o), ref, False, None)
            common.check_py_monitors(res, case, o)
            if o.error is None and case['B'] is not None:
                res.count('join_table_read_pattern_checks')
            res.count('join:' + case['q']['join']['type'])
            res.count('keypairs:%d' % len(case['q']['join']['pairs']))
            if ref.error is not None:
                res.count('predicted_errors')
                res.count('predicted_error_b_side' if ref.error.table == 'b' else 'predicted_error_a_side')
            if ref.rows or ref.error is not None:
                res.nontrivial(case['query_text'], repr(case['A']), repr(case['B']))
            # multiplicity statistics: how many (A, B) blocks larger than 1x1 were seen
            if ref.error is None and len(ref.rows) > len(case['A']):
                res.count('fan_out_cases')
            res.count('shape:' + common.feature_sig(case['q']))
            if n % 2999 == 0:
                res.sample({'query': case['query_text'], 'A': case['A'], 'B': case['B'], 'reference_rows': common.show_ref_rows(ref)[:6], 'reference_error': ref.error and ref.error.what})
            js.add(case, ref, False)
    finally:
        js.close()


def summarize(tier, seed, m):
    shapes = sorted(k[6:] for k in m['counters'] if k.startswith('shape:'))
    return {
        'rule': 'pairs of small tables with duplicate keys on both sides (m x n blocks), ragged / empty A and B, None cells; JOIN / INNER JOIN / LEFT JOIN / LEFT OUTER JOIN / STRICT LEFT JOIN; 1-3 key pairs with == or =, either side order, NR / aNR / a.NR against bNR / b.NR / fields in every spelling; downstream rotating over plain select, WHERE (incl. b-field is None), ORDER BY, DISTINCT, DISTINCT COUNT, UNNEST, aggregates (COUNT, ARRAY_AGG of b-fields and bNR, grouped by an a-field), UPDATE with and without WHERE, TOP, b.* expansion. a typed front-ends leg: dataframes (int64 key next to float64 / object / int64 columns - all-numeric join frames included) through DataframeIterator + SingleDataframeRegistry and sqlite tables (INTEGER / REAL / TEXT) through SqliteRecordIterator + SqliteDbRegistry, integer keys up to 2**62 (beyond float precision), JOIN / LEFT JOIN / STRICT LEFT JOIN, three select shapes, every emitted field compared by value and type with a nested-loop pairing; a CSV leg: the generated joins (string cells) with both tables in files - header lines, ragged rows, and in every other case comment lines in both files that are not records - through query_csv, rows compared with the reference after the stringification a CSV sink applies; distinct_nontrivial = distinct (query, A, B) with a non-empty reference result or a predicted error.',
        'required': ['csv_join_record_number_runs', 'csv_join_runs:comments', 'csv_join_runs:plain', 'typed_join_runs:pandas', 'typed_join_runs:sqlite', 'typed_join_runs:list', 'py_cases', 'join_table_read_pattern_checks', 'fan_out_cases', 'predicted_error_a_side', 'predicted_error_b_side', 'js_cases', 'join:STRICT LEFT JOIN', 'join:LEFT OUTER JOIN', 'keypairs:3'],
        'extra': {'shapes_seen': shapes},
        'assumptions': ['rv/model/refsem.py expand() is the join semantics of the statement'],
    }


def replay(case, res):
    ns = env.import_rbql()
    common.replay_case(ns, res, case, PROPERTY, False, classify_js)
