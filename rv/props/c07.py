"""C07 - Output header always matches output records and follows the naming rules.

Monitors: icontract post-condition on the real query_table (len(header) == len(record) for every record, fresh rows, warnings only
extended, sources unchanged); rv.model.refsem.header_names as oracle for the names; the same queries pushed through the two writers
that ENFORCE the width (CSV writer to a buffer, query_pandas_dataframe): they must not raise and must carry the expected header.
"""
import io
import random

from .. import env, util
from ..gen import queries as gq
from ..model import qast, refcsv, refsem
from ..monitors import boundary, contracts
from . import common

PROPERTY = 'C07'
LEVEL = 'exploration'
CASES = {'quick': 20000, 'thorough': 320000}
NSHARDS = {'quick': 16, 'thorough': 32}


def classify_js(mech, case, got, ref):
    return common.classify_known_js(mech, case, got, ref)


def rect_table(rng, w=None, max_rows=5):
    w = w or rng.randrange(1, 5)
    cells = ['a', 'b', 'ab', '1', '2', 'x y', '10']
    return [[rng.choice(cells) for _ in range(w)] for _ in range(rng.randrange(0, max_rows + 1))], w


def gen_case(rng, i):
    family = ['plain', 'distinct', 'count', 'top', 'group', 'except', 'update', 'join', 'join-count', 'unnest', 'plain', 'division'][i % 12]
    join = family in ('join', 'join-count') or (family in ('plain', 'distinct', 'top') and rng.random() < 0.25) or (family == 'update' and rng.random() < 0.4)
    A, wa = rect_table(rng)
    if family == 'division':
        for r in A:
            r[0] = rng.choice([1, 2, 4, 10])      # a column of native numbers, so that a quotient means the same in both languages
    B, wb = rect_table(rng) if join else (None, 0)
    has_header = (i // 12) % 2 == 0
    a_names = gq.gen_names(rng, wa) if has_header else None
    b_names = gq.gen_names(rng, wb, exclude=a_names) if (has_header and join) else None
    if join and A:
        vals = [r[0] for r in A]
        for r in B:
            if rng.random() < 0.7:
                r[0] = rng.choice(vals)
    T = {'A': A, 'B': B, 'a_names': a_names, 'b_names': b_names}
    g = gq.G(rng, A, a_names, B, b_names)
    q = {'kind': 'select', 'items': [], 'distinct': None, 'top': None, 'top_kw': 'top', 'where': None, 'join': None, 'order': None, 'group': None, 'except': None, 'assign': [], 'with': None}
    if join:
        q['join'] = g.gen_join()
    if family == 'update':
        # one UPDATE in five also assigns to the column just past the table's width: that must fail, not widen the record under an unchanged header
        # (with a JOIN when the case has a join table: the output header is still the input header alone)
        q = g.gen_update(({'where'} if rng.random() < 0.5 else set()) | ({'beyond'} if rng.random() < 0.2 else set()) | ({'join'} if join else set()))
        return common.case_json(q, T, extra={'init': True})
    if family == 'except':
        q['except'] = [['field', 'a', j, g.spelling('a', j)] for j in sorted(rng.sample(range(wa), min(wa, rng.choice([1, 1, 2]))))]
        if rng.random() < 0.3 and q['except']:
            # the same column excluded twice (possibly in two spellings), in front of the others
            j = q['except'][0][2]
            q['except'].insert(rng.randrange(0, len(q['except'])), ['field', 'a', j, g.spelling('a', j)])
        for f in q['except']:
            if f[3] == 'sq':
                f[3] = 'dq'
        if rng.random() < 0.4:
            q['distinct'] = rng.choice(['distinct', 'count'])
        return common.case_json(q, T, extra={'init': True})
    if family == 'division':
        # a slash right after a closing bracket, another one in a later item: nothing but two quotients (not a regular-expression literal, not a comment)
        sp = rng.choice(['arr', 'dq', 'sq', 'arr'] if has_header else ['arr'])
        d1 = ['cmp', rng.choice(['>', '<']), ['div', ['field', 'a', 0, sp], ['int', rng.choice([2, 4])]], ['int', 1]]
        d2 = ['cmp', '<', ['div', ['field', 'a', 0, rng.choice(['arr', 'var'])], ['int', rng.choice([2, 5, 100])]], ['int', 2]]
        q['items'] = [{'kind': 'expr', 'expr': d1}, {'kind': 'expr', 'expr': rng.choice([['NR'], ['field', 'a', 0, 'var'], ['NF']])}, {'kind': 'expr', 'expr': d2}]
        if rng.random() < 0.5:
            q['items'][rng.choice([0, 2])].update(alias=g.alias(), as_kw=rng.choice(['as', 'AS']))
        if rng.random() < 0.3:
            q['items'].insert(1, {'kind': 'astar'})
        q['bare'] = rng.random() < 0.6
        return common.case_json(q, T, extra={'init': True})
    if family == 'group':
        kf = ['field', 'a', 0, g.spelling('a', 0)]
        q['group'] = [kf]
        q['items'] = [{'kind': 'expr', 'expr': kf}, {'kind': 'agg', 'func': 'COUNT', 'spelling': rng.choice(['COUNT', 'count']), 'arg': '*'},
                      {'kind': 'agg', 'func': 'ARRAY_AGG', 'spelling': 'ARRAY_AGG', 'arg': ['field', 'a', rng.randrange(wa), 'var']}]
        rng.shuffle(q['items'])
        for it in q['items']:
            if rng.random() < 0.3:
                it['alias'] = g.alias()
                it['as_kw'] = rng.choice(['as', 'AS'])
        return common.case_json(q, T, extra={'init': True})
    # select lists with nested brackets, commas inside calls and inside string literals, aliases in both cases
    items = []
    n = rng.choice([1, 2, 2, 3, 4])
    have_unnest = False
    for _ in range(n):
        r = rng.random()
        if r < 0.3:
            f = g.field('str') or g.strlit()
            items.append({'kind': 'expr', 'expr': f})
        elif r < 0.36:
            items.append({'kind': rng.choice(['star', 'astar'] + (['bstar'] if join else []))})
        elif r < 0.42:
            items.append({'kind': 'expr', 'expr': rng.choice([['NR'], ['NF']] + ([['bNR'], ['aNR']] if join else [['aNR']]))})
        elif r < 0.48:
            # a bare user variable: named after itself, however much its name resembles a column variable
            items.append({'kind': 'expr', 'expr': ['uvar', rng.choice(sorted(qast.UVARS))] if rng.random() < 0.6 else ['uattr', rng.choice(sorted(qast.UATTRS))]})
        elif r < 0.62:
            args = [g.e_str(1) if rng.random() < 0.6 else ['list', [g.e_str(0), ['int', 2], ['list', [['int', 1]]]]] for _ in range(rng.choice([1, 2, 3]))]
            if rng.random() < 0.5:
                args.append(['str', rng.choice(['x, y', 'a)b', '(', '[1,2', 'q"t', "it's", ' as z']), rng.choice(["'", '"'])])
            e = ['call', 'f', args]
            if rng.random() < 0.25:
                e = ['index', ['call', 'g', args], rng.choice([0, 1])]
            items.append({'kind': 'expr', 'expr': e})
        elif r < 0.72:
            items.append({'kind': 'expr', 'expr': ['str', rng.choice(['x, y', 'a,b', '', 'NR', 'a1', '*', 'col1']), rng.choice(["'", '"'])]})
        elif r < 0.78 and family == 'unnest' and not have_unnest:
            have_unnest = True
            items.append({'kind': 'unnest', 'expr': ['list', [g.e_str(0), ['str', 'u']]], 'spelling': 'UNNEST'})
        else:
            items.append({'kind': 'expr', 'expr': g.e_any(2, allow_list=family not in ('distinct', 'count', 'join-count'))})
        if items[-1]['kind'] in ('expr', 'unnest') and rng.random() < 0.3:
            items[-1]['alias'] = g.alias()
            items[-1]['as_kw'] = rng.choice(['as', 'AS'])
    if family == 'unnest' and not have_unnest:
        items.append({'kind': 'unnest', 'expr': ['list', [['str', 'u'], ['str', 'v']]], 'spelling': 'unnest'})
    if a_names is None and any(it['kind'] in ('star', 'astar', 'bstar') for it in items):
        for it in items:
            it.pop('alias', None)
    q['items'] = items
    if family == 'distinct':
        q['distinct'] = 'distinct'
    if family in ('count', 'join-count'):
        q['distinct'] = 'count'
    if family in ('distinct', 'count', 'join-count'):
        for it in q['items']:
            if it['kind'] == 'expr' and it['expr'][0] in ('list', 'split') or it['kind'] == 'expr' and it['expr'][0] == 'call' and it['expr'][1] == 'g':
                it['expr'] = ['str', 'L']
    if family == 'top' or rng.random() < 0.15:
        q['top'] = rng.randrange(0, 4)
        q['top_kw'] = rng.choice(['top', 'limit'])
    if rng.random() < 0.2:
        q['where'] = g.gen_where()
    if rng.random() < 0.15 and not q['distinct']:
        q['order'] = g.gen_order()
    q['bare'] = rng.random() < 0.6      # items like `a2 or 'x' as who`, `x if c else y AS v` without enclosing parentheses
    return common.case_json(q, T, extra={'init': True})


def through_csv_writer(ns, res, case, ref, expected_header):
    """The CSV writer enforces header width: it must not raise, and the first line must be the expected header."""
    qtext = case['query_text']
    buf = io.StringIO(newline='')
    w = ns.csv.CSVWriter(buf, False, None, ',', 'quoted_rfc')
    it = ns.engine.TableIterator([list(r) for r in case['A']], None if case['a_names'] is None else list(case['a_names']))
    reg = None
    if case['B'] is not None:
        reg = ns.engine.ListTableRegistry([ns.engine.ListTableInfo('b', [list(r) for r in case['B']], None if case['b_names'] is None else list(case['b_names'])), ns.engine.ListTableInfo('B', [list(r) for r in case['B']], None if case['b_names'] is None else list(case['b_names']))])
    warnings = []
    res.count('csv_writer_runs')
    try:
        ns.rbql.query(qtext, it, w, warnings, reg, user_init_code=qast.INIT_PY)
    except Exception as e:
        res.violation('py:csv-writer-rejects-header:' + common.feature_sig(case['q']), '[py] CSV writer raised %s: %s for %s (A=%r names=%r)' % (util.error_class(e), str(e)[:160], qtext, case['A'], case['a_names']), dict(case, engine='py', leg='csv'))
        return
    text = buf.getvalue()
    if expected_header:
        r = refcsv.read_text(text, ',', 'quoted_rfc')
        first = r.records[0] if r.records else None
        if first != [str(x) for x in expected_header]:
            res.violation('py:csv-first-line-is-not-header:' + common.feature_sig(case['q']), '[py] first CSV line %r, expected header %r for %s' % (first, expected_header, qtext), dict(case, engine='py', leg='csv'))


def through_csv_reader(ns, res, case, ref, expected_header):
    """The same table read from CSV text with a header line (column names as the file spells them: empty, with quotes, spaces, a tab) and written by the
    width-enforcing CSV writer: it must not raise, and the first line is the header the naming rules give."""
    if case['a_names'] is None or case['q'].get('with') or any(not isinstance(c, str) for r in case['A'] for c in r):
        return
    if any(len(r) != len(case['a_names']) for r in case['A']):
        return
    text_in = refcsv.write_table([list(case['a_names'])] + [list(r) for r in case['A']], ',', 'quoted_rfc', '\n')
    if refcsv.read_text(text_in, ',', 'quoted_rfc', None, True).header != list(case['a_names']):
        return      # names the dialect cannot carry (a leading BOM character, ...)
    buf = io.StringIO(newline='')
    w = ns.csv.CSVWriter(buf, False, None, ',', 'quoted_rfc')
    it = ns.csv.CSVRecordIterator(io.StringIO(text_in, newline=''), None, ',', 'quoted_rfc', has_header=True)
    reg = None
    if case['B'] is not None:
        reg = ns.engine.ListTableRegistry([ns.engine.ListTableInfo('b', [list(r) for r in case['B']], None if case['b_names'] is None else list(case['b_names'])), ns.engine.ListTableInfo('B', [list(r) for r in case['B']], None if case['b_names'] is None else list(case['b_names']))])
    res.count('csv_reader_runs')
    if case['a_names'] and case['a_names'][-1] == '':
        res.count('csv_reader_runs_last_name_empty')
    try:
        ns.rbql.query(case['query_text'], it, w, [], reg, user_init_code=qast.INIT_PY)
    except Exception as e:
        res.violation('py:csv-reader-to-writer-rejects-header:' + common.feature_sig(case['q']), '[py] CSV text %r -> CSV writer raised %s: %s for %s' % (text_in, util.error_class(e), str(e)[:160], case['query_text']), dict(case, engine='py', leg='csv-reader'))
        return
    if expected_header:
        r = refcsv.read_text(buf.getvalue(), ',', 'quoted_rfc')
        first = r.records[0] if r.records else None
        if first != [str(x) for x in expected_header]:
            res.violation('py:csv-reader-first-line-is-not-header:' + common.feature_sig(case['q']), '[py] CSV text %r: first output line %r, expected header %r for %s' % (text_in, first, expected_header, case['query_text']), dict(case, engine='py', leg='csv-reader'))


def through_pandas(ns, res, case, ref, expected_header):
    import pandas as pd
    A, B = case['A'], case['B']
    if (not A and case['a_names'] is None) or (B is not None and not B and case['b_names'] is None):
        return      # a dataframe without rows and without named columns has no shape at all
    if case['q'].get('with'):
        return
    dfa = pd.DataFrame(A, columns=case['a_names']) if case['a_names'] is not None else pd.DataFrame(A)
    dfb = None
    if B is not None:
        dfb = pd.DataFrame(B, columns=case['b_names']) if case['b_names'] is not None else pd.DataFrame(B)
    res.count('pandas_runs')
    try:
        out = ns.rbql.query_pandas_dataframe(case['query_text'], dfa, [], dfb, user_init_code=qast.INIT_PY)
    except Exception as e:
        res.violation('py:pandas-writer-rejects-header:' + common.feature_sig(case['q']), '[py] query_pandas_dataframe raised %s: %s for %s (A=%r names=%r)' % (type(e).__name__, str(e)[:160], case['query_text'], A, case['a_names']), dict(case, engine='py', leg='pandas'))
        return
    if expected_header is not None:
        if [str(c) for c in out.columns] != [str(x) for x in expected_header]:
            res.violation('py:pandas-columns-differ:' + common.feature_sig(case['q']), '[py] dataframe columns %r, expected %r for %s' % (list(out.columns), expected_header, case['query_text']), dict(case, engine='py', leg='pandas'))


def through_sqlite(ns, res, case, n):
    """The sqlite front-end over a table holding the same data - plain, with a GENERATED column (in SELECT * but not in PRAGMA table_info), read through a
    VIEW - feeding the width-enforcing CSV writer: it must not raise, and the first line is the header the naming rules give."""
    import sqlite3
    an, bn, B = case['a_names'], case['b_names'], case['B']
    if an is None or case['q'].get('with'):
        return
    for names in (an, bn):
        if names is not None and (len(set(x.lower() for x in names)) != len(names) or any('\x00' in x or x == '' for x in names)):
            return
    A = [list(r) for r in case['A']]
    shape = ['plain', 'generated', 'view', 'generated'][(n // 4) % 4]
    gen_col = other = None
    if shape == 'generated' and len(an) > 1:
        gen_col = (n // 16) % len(an)
        other = (gen_col + 1 + (n // 5) % (len(an) - 1)) % len(an)
        for r in A:
            r[gen_col] = 'g' + r[other][:1]
    elif shape == 'generated':
        shape = 'plain'
    ref = refsem.run(case['q'], A, B, an, bn)
    if ref.error is not None:
        return
    qn = lambda x: '"%s"' % x.replace('"', '""')
    conn = sqlite3.connect(':memory:')
    try:
        try:
            defs = [(qn(x) + " TEXT GENERATED ALWAYS AS ('g' || substr(%s, 1, 1)) %s" % (qn(an[other]), ['VIRTUAL', 'STORED'][n % 2])) if j == gen_col else qn(x) + ' TEXT' for j, x in enumerate(an)]
            conn.execute('CREATE TABLE %s (%s)' % ('t0' if shape == 'view' else 't', ', '.join(defs)))
            stored = [j for j in range(len(an)) if j != gen_col]
            conn.executemany('INSERT INTO %s (%s) VALUES (%s)' % ('t0' if shape == 'view' else 't', ', '.join(qn(an[j]) for j in stored), ','.join('?' * len(stored))), [[r[j] for j in stored] for r in A])
            if shape == 'view':
                conn.execute('CREATE VIEW t AS SELECT * FROM t0')
            if B is not None:
                conn.execute('CREATE TABLE b (%s)' % ', '.join(qn(x) + ' TEXT' for x in bn))
                conn.executemany('INSERT INTO b VALUES (%s)' % ','.join('?' * len(bn)), B)
            conn.commit()
        except sqlite3.Error:
            res.count('sqlite_tables_not_creatable')
            return
        res.count('sqlite_runs')
        res.count('sqlite_runs:' + shape)
        buf = io.StringIO(newline='')
        w = ns.csv.CSVWriter(buf, False, None, ',', 'quoted_rfc')
        cs = dict(case, engine='py', leg='sqlite', A=A, sqlite_shape=shape, generated_column=gen_col)
        try:
            ns.rbql.query(case['query_text'], ns.sqlite.SqliteRecordIterator(conn, 't'), w, [], ns.sqlite.SqliteDbRegistry(conn), user_init_code=qast.INIT_PY)
        except Exception as e:
            res.violation('py:sqlite-front-end-rejects-header:' + common.feature_sig(case['q']), '[py] sqlite (%s table, columns %r) -> CSV writer raised %s: %s for %s' % (shape, an, util.error_class(e), str(e)[:160], case['query_text']), cs)
            return
        r = refcsv.read_text(buf.getvalue(), ',', 'quoted_rfc')
        first = r.records[0] if r.records else None
        if ref.header and first != [str(x) for x in ref.header]:
            res.violation('py:sqlite-header-differs:' + common.feature_sig(case['q']), '[py] sqlite (%s table, columns %r): first CSV line %r, expected header %r for %s' % (shape, an, first, ref.header, case['query_text']), cs)
    finally:
        conn.close()


def leg_wrong_length_names(ns, res, spec):
    """Column-name lists shorter or longer than the records (input and join table, py and js list front-ends): the query is refused - or, if an
    implementation chooses to accept it, the header it reports still has one name per field of every output record."""
    from ..js import bridge
    rng = random.Random(spec['seed'] * 2147483629 + 5)
    shapes = ['select *', 'select a.*', 'select * except a1', 'select distinct count *', 'update a1 = "x"', 'select NR, *', 'select b.* join b on a1 == b1', 'select *, b.* join b on a1 == b1', 'select a1, a2']
    node = bridge.Node.start()
    try:
        reqs, meta = [], []
        for n in range(spec['n']):
            w = rng.randrange(2, 5)
            A = [[rng.choice(['a', 'b', 'ab', '1']) for _ in range(w)] for _ in range(rng.randrange(1, 4))]
            B = [[A[0][0], 'J', 'K'], ['zz', 'L', 'M']]
            full_a, full_b = ['n%d' % i for i in range(w)], ['m1', 'm2', 'm3']
            which = rng.choice(['a-short', 'a-long', 'b-short', 'b-long'])
            an = full_a[:-1] if which == 'a-short' else (full_a + ['x'] if which == 'a-long' else full_a)
            bn = full_b[:-1] if which == 'b-short' else (full_b + ['x'] if which == 'b-long' else full_b)
            q = rng.choice(shapes if which[0] == 'b' else shapes[:6] + shapes[8:])
            if which[0] == 'b' and ' join ' not in q:
                q = shapes[6]
            use_b = ' join ' in q
            out, names, err = [], [], None
            try:
                ns.rbql.query_table(q, [list(r) for r in A], out, [], [list(r) for r in B] if use_b else None, list(an), list(bn) if use_b else None, names)
            except Exception as e:
                err = util.error_class(e)
            res.evaluations += 1
            res.count('wrong_length_names_runs')
            res.count('wrong_length_names_outcome:py:' + str(err))
            res.nontrivial('short-names', q, which, repr(A))
            case = {'leg': 'wrong-length-names', 'query_text': q, 'A': A, 'B': B if use_b else None, 'a_names': an, 'b_names': bn if use_b else None, 'engine': 'py'}
            if err is None and names and any(len(r) != len(names) for r in out):
                res.violation('py:header-width-differs-from-record-width', '[py] %s with %s column names %r / %r over %d-field records: header %r, records %r' % (q, which, an, bn if use_b else None, w, names, out[:2]), case)
            elif err not in (None, 'io'):
                res.violation('py:wrong-length-names-error-class', '[py] %s with %s column names: %s' % (q, which, err), case)
            reqs.append({'query': q, 'input': A, 'join': B if use_b else None, 'input_cols': an, 'join_cols': bn if use_b else None})
            meta.append((q, which, an, bn, w))
        if node is not None:
            outs = node.call({'op': 'query_batch', 'cases': reqs})['results']
            for (q, which, an, bn, w), rq, o in zip(meta, reqs, outs):
                res.evaluations += 1
                res.count('wrong_length_names_runs_js')
                if o['error'] is None and o['header'] and any(len(r) != len(o['header']) for r in o['out']):
                    res.violation('js:header-width-differs-from-record-width', '[js] %s with %s column names %r / %r over %d-field records: header %r, records %r' % (q, which, an, bn, w, o['header'], o['out'][:2]), {'leg': 'wrong-length-names', 'req': rq, 'engine': 'js'})
    finally:
        if node is not None:
            node.close()
    res.sample({'leg': 'wrong-length-names', 'shapes': shapes[:4]})


UNICODE_IDENT_NAMES = ['\u00b5g', 'o\ufb03ce', '\uff57\uff49\uff44\uff45', '\u00aa', '\u017f', '\u212a', '\u2126hm', '\u0438\u043c\u044f', 'gr\u00f6\u00dfe', '\u00e9', 'e\u0301', 'na\u00efve', '\u01c6', '\u2160x', 'x\u00b2'.replace('\u00b2', '\u1d43'), '\u03bcg', 'office']


def leg_unicode_attribute_names(ns, res, spec):
    """Column names that are identifiers beyond ASCII, addressed as a.<name> (several of them change under the host language's identifier normalisation,
    NFKC in Python): the notation is either refused, or the output header carries the SOURCE column's name, character for character, and the
    values are that column's."""
    import io
    from ..js import bridge
    rng = random.Random(spec['seed'] * 31 + 11)
    node = bridge.Node.start()
    try:
        for n in range(spec['n']):
            w = rng.randrange(2, 5)
            names = rng.sample(UNICODE_IDENT_NAMES, w)
            A = [['r%dc%d' % (r, c) for c in range(w)] for r in range(3)]
            col = rng.randrange(w)
            nm = names[col]
            shape = n % 5
            if shape == 0:
                q, exp_rows, exp_header = 'select a.%s, a1' % nm, [[A[r][col], A[r][0]] for r in range(3)], [nm, names[0]]
            elif shape == 1:
                q, exp_rows, exp_header = 'select NR, a.%s' % nm, [[r + 1, A[r][col]] for r in range(3)], ['NR', nm]
            elif shape == 2:
                q, exp_rows, exp_header = 'select distinct count a.%s' % nm, [[1, A[r][col]] for r in range(3)], ['count', nm]
            elif shape == 3:
                q, exp_rows, exp_header = 'select a.%s, count(*) group by a.%s' % (nm, nm), [[A[r][col], 1] for r in range(3)], [nm, 'col2']
            else:
                q, exp_rows, exp_header = 'select a.%s where a.%s != "zz"' % (nm, nm), [[A[r][col]] for r in range(3)], [nm]
            runs = []
            r = boundary.run_query_table(ns, q, [list(x) for x in A], None, list(names), None, True)
            runs.append(('py/list', r['error'], r['error_msg'], r['rows'], r['header']))
            # the CSV front-end (header line in the file)
            try:
                text = '\n'.join(','.join(x) for x in [names] + A) + '\n'
                out = io.BytesIO()
                out.close = lambda: None
                it = ns.csv.CSVRecordIterator(io.BytesIO(text.encode('utf-8')), 'utf-8', ',', 'quoted', has_header=True)
                wr = ns.csv.CSVWriter(out, False, 'utf-8', ',', 'quoted')
                ns.rbql.query(q, it, wr, [])
                lines = out.getvalue().decode('utf-8').split('\n')
                runs.append(('py/csv', None, None, [[int(c) if c.isdigit() else c for c in ln.split(',')] for ln in lines[1:] if ln], lines[0].split(',')))
            except Exception as e:
                runs.append(('py/csv', util.error_class(e), str(e)[:120], None, None))
            if node is not None:
                o = node.call({'op': 'query_table', 'query': q, 'input': [list(x) for x in A], 'join': None, 'input_cols': list(names), 'join_cols': None})
                runs.append(('js/list', o['error'] and o['error']['cls'], o['error'] and o['error']['msg'][:120], o['out'], o['header']))
            for front, err, msg, rows, header in runs:
                res.evaluations += 1
                res.count('unicode_attribute_name_runs:' + front)
                res.nontrivial('unicode-attr', front, q, repr(names))
                if err is not None:
                    res.count('unicode_attribute_name_refusals')
                    continue
                res.count('unicode_attribute_name_headers_checked')
                pos = exp_header.index(nm)
                hdr = list(header or [])
                unresolved = len(hdr) == len(exp_header) and hdr[pos] == 'col%d' % (pos + 1) and all(len(x) == len(exp_header) and (x[pos] is None or x[pos] == {'__js__': 'undefined'}) for x in rows or [])
                if unresolved:
                    # (the name was not bound to any column: outside the documented "good alphanumeric name" scope of the notation, and no name is claimed for it)
                    res.count('unicode_attribute_name_unresolved')
                    continue
                if shape == 2:
                    exp_header = [hdr[0] if hdr else None, nm]
                if hdr != exp_header or rows != exp_rows:
                    res.violation('%s:non-ascii-attribute-name-header' % front.replace('/', '-'), '[%s] %s over header %r -> header %r rows %r ; the notation is refused or yields header %r rows %r' % (front, q, names, header, rows, exp_header, exp_rows),
                                  {'leg': 'unicode-attr', 'front': front, 'query_text': q, 'names': names, 'A': A})
    finally:
        if node is not None:
            node.close()


def leg_unnest_compound_elements(ns, res, spec):
    """UNNEST over elements that are themselves tuples / lists (pairs from zip, re.findall groups, dict items): one output FIELD per element - the header
    (from the table's names or from an alias) has exactly as many names as every output record has fields."""
    from ..js import bridge
    rng = random.Random(spec['seed'] * 131 + 7)
    node = bridge.Node.start()
    PYQ = [('select a.name, UNNEST([(a1, 1), (a2, 2)])', lambda r: [[r[0], (r[0], 1)], [r[0], (r[1], 2)]], ['name', 'col2']),
           ('select UNNEST(list(zip([a1, a2], [1, 2]))) as kv, a1', lambda r: [[(r[0], 1), r[0]], [(r[1], 2), r[0]]], ['kv', 'name']),
           ('select a1, UNNEST(re.findall("(.)(.)", a2)) as pair', lambda r: [[r[0], m] for m in __import__('re').findall('(.)(.)', r[1])], ['name', 'pair']),
           ('select a.name as n, UNNEST(sorted({a1: 1, a2: 2}.items()))', lambda r: [[r[0], it] for it in sorted({r[0]: 1, r[1]: 2}.items())], ['n', 'col2']),
           ('select UNNEST([[a1, a2], [a2]]), a.props', lambda r: [[[r[0], r[1]], r[1]], [[r[1]], r[1]]], ['col1', 'props'])]
    JSQ = [('select a.name, UNNEST([[a1, 1], [a2, 2]])', lambda r: [[r[0], [r[0], 1]], [r[0], [r[1], 2]]], ['name', 'col2']),
           ('select UNNEST([[a1, a2], [a2]]) as kv, a1', lambda r: [[[r[0], r[1]], r[0]], [[r[1]], r[0]]], ['kv', 'name']),
           ('select a.name as n, UNNEST(Object.entries({k: a1, l: a2}))', lambda r: [[r[0], ['k', r[0]]], [r[0], ['l', r[1]]]], ['n', 'col2'])]
    try:
        for n in range(spec['n']):
            A = [[rng.choice(['ann', 'bob', 'cy']), rng.choice(['k1v1', 'abcd', 'xy', 'pqrs'])] for _ in range(rng.randrange(1, 4))]
            names = ['name', 'props']
            q, f, hdr = PYQ[n % len(PYQ)]
            r = boundary.run_query_table(ns, q, [list(x) for x in A], None, list(names), None, True)
            exp = [row for rec in A for row in f(rec)]
            res.evaluations += 1
            res.count('unnest_compound_element_runs:py')
            res.nontrivial('unnest-compound', 'py', q, repr(A))
            got = [[tuple(c) if isinstance(c, tuple) else c for c in row] for row in r['rows']]
            if r['error'] is not None or got != exp or list(r['header'] or []) != hdr or any(len(row) != len(hdr) for row in r['rows']):
                res.violation('py:unnest-compound-element-width-or-header', '[py] %s over %r -> header %r rows %r (error %s) ; expected header %r rows %r' % (q, A, r['header'], r['rows'], r['error'] and r['error_msg'], hdr, exp),
                              {'leg': 'unnest-compound', 'engine': 'py', 'query_text': q, 'A': A})
            if node is not None:
                q, f, hdr = JSQ[n % len(JSQ)]
                o = node.call({'op': 'query_table', 'query': q, 'input': [list(x) for x in A], 'join': None, 'input_cols': list(names), 'join_cols': None})
                exp = [row for rec in A for row in f(rec)]
                res.evaluations += 1
                res.count('unnest_compound_element_runs:js')
                if o['error'] is not None or o['out'] != exp or list(o['header'] or []) != hdr:
                    res.violation('js:unnest-compound-element-width-or-header', '[js] %s over %r -> header %r rows %r (error %r) ; expected header %r rows %r' % (q, A, o['header'], o['out'], o['error'], hdr, exp),
                                  {'leg': 'unnest-compound', 'engine': 'js', 'query_text': q, 'A': A})
    finally:
        if node is not None:
            node.close()


def plan(tier, seed):
    k = NSHARDS[tier]
    return [{'k': k, 'i': i, 'n': CASES[tier] // k} for i in range(k)] + [{'kind': 'wrong-length-names', 'n': 300 if tier == 'quick' else 3000}, {'kind': 'unicode-attr', 'n': 200 if tier == 'quick' else 2000}]


def run_shard(spec, res):
    ns = env.import_rbql()
    if spec.get('kind') == 'wrong-length-names':
        return leg_wrong_length_names(ns, res, spec)
    if spec.get('kind') == 'unicode-attr':
        leg_unnest_compound_elements(ns, res, spec)
        return leg_unicode_attribute_names(ns, res, spec)
    rng = random.Random(spec['seed'] * 67867967 + spec['i'])
    qt, mode = contracts.armed_query_table(ns)
    res.notes.append('contracts: ' + mode)
    js = common.JsLeg(res, PROPERTY, classify_js)
    js_init = True
    try:
        for n in range(spec['n']):
            case = gen_case(rng, n)
            ref = refsem.run(case['q'], case['A'], case['B'], case['a_names'], case['b_names'])
            o = common.run_case_py(ns, case, init_code=qast.INIT_PY)
            res.evaluations += 1
            res.count('py_cases')
            ok = common.compare(res, PROPERTY, 'py', case, common.obs_to_got(o), ref, True, None)
            common.check_py_monitors(res, case, o)
            if o.header is not None:
                res.count('headers_observed')
                res.nontrivial(case['query_text'], repr(case['a_names']), repr(case['b_names']))
            res.count('shape:' + common.feature_sig(case['q']) + ('|hdr' if case['a_names'] is not None else '|nohdr'))
            # contract-armed public entry point
            if ref.error is None:
                out, warns, names = [], ['sentinel'], []
                try:
                    qt(case['query_text'], [list(r) for r in case['A']], out, warns, None if case['B'] is None else [list(r) for r in case['B']], case['a_names'], case['b_names'], names, True, qast.INIT_PY)
                    res.count('contract_evaluations')
                except contracts.ContractBroken as e:
                    res.violation('py:contract:' + str(e)[:40], '[py] contract on query_table broken: %s for %s (A=%r)' % (e, case['query_text'], case['A']), dict(case, engine='py', leg='contract'))
                except Exception as e:
                    if ok:
                        res.violation('py:query-table-differs-from-query', '[py] query_table raised %s: %s but rbql.query succeeded: %s' % (util.error_class(e), str(e)[:100], case['query_text']), dict(case, engine='py', leg='contract'))
                if ok:
                    through_csv_writer(ns, res, case, ref, ref.header)
                    if n % 4 == 0:
                        through_pandas(ns, res, case, ref, ref.header)
                    if n % 4 == 2:
                        through_sqlite(ns, res, case, n)
                    if n % 2 == 1:
                        through_csv_reader(ns, res, case, ref, ref.header)
            if n % 2499 == 0:
                res.sample({'query': case['query_text'], 'a_names': case['a_names'], 'b_names': case['b_names'], 'expected_header': ref.header, 'observed_header': o.header})
            js.add(case, ref, True)
    finally:
        js.close()


def summarize(tier, seed, m):
    shapes = sorted(k[6:] for k in m['counters'] if k.startswith('shape:'))
    return {
        'rule': 'select lists of 1-4 items over fields in five spellings, stars, NR / NF / aNR / bNR, calls of user functions with commas and brackets inside arguments and string literals (f("x, y", [a1, 2, [1]]), g(...)[0]), literals that look like syntax, typed expressions, UNNEST, aliases written as / AS; families rotating over plain, quotients (a slash right after a closing bracket and another one in a later item), DISTINCT, DISTINCT COUNT, TOP, GROUP BY with aggregates, * EXCEPT, UPDATE, JOIN, JOIN + DISTINCT COUNT; rectangular tables; header / no header alternating. Each case: rbql.query with probes vs reference header names, icontract-armed query_table, CSV writer (every case) and query_pandas_dataframe (every 4th) which enforce the width; every 4th headed case also through SqliteRecordIterator / SqliteDbRegistry over a table holding the same data (plain, with a GENERATED column VIRTUAL or STORED, through a VIEW) into the CSV writer; JS leg. distinct_nontrivial = distinct (query, header names) that produced an output header.',
        'required': ['unnest_compound_element_runs:py', 'unnest_compound_element_runs:js', 'unicode_attribute_name_runs:py/list', 'unicode_attribute_name_runs:py/csv', 'unicode_attribute_name_runs:js/list', 'py_cases', 'headers_observed', 'contract_evaluations', 'csv_writer_runs', 'csv_reader_runs', 'csv_reader_runs_last_name_empty', 'wrong_length_names_runs', 'pandas_runs', 'sqlite_runs:plain', 'sqlite_runs:generated', 'sqlite_runs:view', 'js_cases'],
        'extra': {'shapes_seen': shapes},
        'assumptions': ['rv/model/refsem.py header_names states the documented naming rule (DISTINCT COUNT: the count column is col1 and the following positional names count it)', 'parenthesised fields like (a1), mixed-case As, variable-width lists are outside the rule and not generated'],
    }


def replay(case, res):
    ns = env.import_rbql()
    ref = refsem.run(case['q'], case['A'], case['B'], case['a_names'], case['b_names'])
    if case.get('engine') == 'js':
        leg = common.JsLeg(res, PROPERTY, classify_js)
        leg.add(case, ref, True)
        leg.close()
        return
    o = common.run_case_py(ns, case, init_code=qast.INIT_PY)
    res.evaluations += 1
    ok = common.compare(res, PROPERTY, 'py', case, common.obs_to_got(o), ref, True, None)
    if ok and ref.error is None:
        through_csv_writer(ns, res, case, ref, ref.header)
        through_pandas(ns, res, case, ref, ref.header)
