"""C02 - ORDER BY, DISTINCT and TOP/LIMIT compose as sort, then dedup, then truncate.

Oracles: (i) rv.model.refsem; (ii) metamorphic relations on the real engine: out(TOP n) == out(no bound)[:n] for every n in 0..|out|+1,
out(DESC) == reversed(out(ASC)); (iii) read-budget automaton: a bounded streaming query over an unbounded input may read at most
the record producing output n+1 (exceeding the budget raises inside the iterator, so the check cannot hang).
"""
import copy
import random
import sys

from .. import env
from ..gen import queries as gq
from ..model import qast, refsem
from ..monitors import boundary
from . import common

PROPERTY = 'C02'
LEVEL = 'exploration'
BASES = {'quick': 9600, 'thorough': 96000}
NSHARDS = {'quick': 16, 'thorough': 32}
UNBOUNDED = {'quick': 40, 'thorough': 400}

JS_TIE = 'js-orderby-tie-order-within-record'


def classify(mech, case, got, ref):
    if case.get('engine') == 'js' or mech:
        q = case['q']
        if q.get('order') and got.get('error') is None:
            ref2 = refsem.run(q, case['A'], case['B'], case['a_names'], case['b_names'], variant='js-tie')
            if ref2.error is None and common.rows_match(got['rows'], ref2):
                return JS_TIE
    return None


def classify_js_only(mech, case, got, ref):
    return common.classify_known_js(mech, case, got, ref)


def gen_base(rng, i):
    feats = set()
    bits = ['order', 'distinct', 'count', 'where', 'join', 'unnest']
    for b, name in enumerate(bits):
        if (i >> b) & 1:
            feats.add(name)
    if 'count' in feats:
        feats.discard('distinct')
    if 'join' in feats and rng.random() < 0.5:
        feats.discard('join')
    if 'unnest' in feats and rng.random() < 0.5:
        feats.discard('unnest')
    if not (feats & {'order', 'distinct', 'count'}):
        feats.add(rng.choice(['order', 'distinct', 'count']))
    feats.add('nostar') if rng.random() < 0.5 else None
    T = common.make_tables(rng, join='join' in feats, header_p=0.3, cells=gq.SMALL_CELLS, max_rows=6, max_cols=3, ragged_p=0.1, none_p=0.05)
    g = gq.G(rng, T['A'], T['a_names'], T['B'], T['b_names'])
    q = g.gen_select(feats)
    return q, T


def run_py_case(ns, res, q, T, check_header=False):
    case = common.case_json(copy.deepcopy(q), T)
    ref = refsem.run(case['q'], case['A'], case['B'], case['a_names'], case['b_names'])
    o = common.run_case_py(ns, case)
    res.evaluations += 1
    res.count('py_cases')
    ok = common.compare(res, PROPERTY, 'py', case, common.obs_to_got(o), ref, check_header, None)
    common.check_py_monitors(res, case, o)
    return case, ref, o, ok


class LazyTable(object):
    """Unbounded input: record k (0-based) is computed on demand.  Looks like a list to the real TableIterator."""

    def __init__(self, fn):
        self.fn = fn
        self.max_index = -1

    def __len__(self):
        return sys.maxsize

    def __getitem__(self, k):
        if isinstance(k, slice):
            raise TypeError('no slicing')
        self.max_index = max(self.max_index, k)
        return self.fn(k)


def lazy_record(k, period, width):
    cells = ['a', 'b', 'ab', '1', '2']
    return [cells[(k * (j + 2) + j) % period % len(cells)] for j in range(width)]


def unbounded_leg(ns, res, rng, count):
    """Streaming bounded queries over an unbounded generator with a hard read budget."""
    from ..js import bridge
    node = bridge.Node.start()
    try:
        _unbounded_leg(ns, res, rng, count, node)
    finally:
        if node is not None:
            node.close()


def _unbounded_leg(ns, res, rng, count, node):
    for _ in range(count):
        period = rng.choice([2, 3, 5, 7])
        width = rng.choice([1, 2, 3])
        fn = (lambda p, w: (lambda k: lazy_record(k, p, w)))(period, width)
        prefix = [fn(k) for k in range(80)]
        feats = set(rng.choice([[], ['where'], ['distinct'], ['where', 'distinct'], ['unnest'], ['join'], ['join', 'where'], ['unnest', 'where'], ['nostar'], ['where', 'unnest', 'distinct']]))
        feats.add('nostar')
        B = None
        if 'join' in feats:
            B = [[c, 'j%d' % i] for i, c in enumerate(['a', 'a', 'b', '1', 'zz'])]
        g = gq.G(rng, prefix, None, B, None)
        q = g.gen_select(feats)
        q['top'] = None
        if 'unnest' in feats and rng.random() < 0.6:
            # a fan-out that depends on the position of the record: every k-th record (or all but every k-th) contributes nothing, so the n-th output
            # record does not come from the n-th input record
            for it in q['items']:
                if it['kind'] == 'unnest':
                    every = ['cmp', '==', ['arith', '%', ['NR'], ['int', rng.choice([2, 3])]], ['int', rng.choice([0, 1])]]
                    it['expr'] = ['cond', every, it['expr'], ['list', []]] if rng.random() < 0.5 else ['cond', every, ['list', []], it['expr']]
            res.count('unbounded_cases_with_positional_fan_out')
        for n in range(0, 6):
            qn = copy.deepcopy(q)
            qn['top'] = n
            qn['top_kw'] = rng.choice(['top', 'limit'])
            ref = refsem.run(qn, prefix, B)
            if ref.error is not None or ref.a_reads_max is None:
                res.count('unbounded_skipped_no_output_n_plus_1')
                continue      # output n+1 never exists within the prefix: no finite run decides that input
            qtext = qast.render(qn, qast.Ctx(None, None), 'py')
            lazy = LazyTable(fn)
            it = ns.engine.TableIterator(lazy, None, True)
            o = boundary.run_py(ns, qtext, None, B, None, None, budget=ref.a_reads_max, input_iter=it, scribble=False)
            res.evaluations += 1
            res.count('unbounded_runs')
            res.nontrivial('unb', qtext, period, width)
            case = {'q': qn, 'A': prefix[:ref.a_reads_max + 2], 'B': B, 'a_names': None, 'b_names': None, 'query_text': qtext, 'unbounded': {'period': period, 'width': width}, 'budget': ref.a_reads_max}
            if o.error is not None:
                mech = 'kept-pulling-input' if 'ReadBudgetExceeded' in o.error else 'unbounded-error'
                res.violation('py:%s:%s' % (mech, common.feature_sig(qn)), '[py] bounded streaming query over unbounded input: %s (%s) after %d reads, budget p_(n+1)=%d | %s' % (o.error, (o.error_msg or '')[:120], o.a_reads, ref.a_reads_max, qtext), case)
                continue
            res.count('reads_within_budget')
            if o.a_reads < ref.a_reads_max:
                res.count('stricter_than_budget')
            if not refsem.same_rows(o.rows, ref.rows):
                res.violation('py:rows-differ-unbounded:' + common.feature_sig(qn), '[py] %s over unbounded input -> %r, reference %r' % (qtext, o.rows, ref.rows), case)
            if res.counters.get('unbounded_runs', 0) % 37 == 1:
                res.sample({'unbounded_query': qtext, 'reads': o.a_reads, 'budget': ref.a_reads_max, 'rows': o.rows})
            # JS twin: the same bounded query over an endless Proxy array with the same budget
            if node is not None and common.neutral_query(qn):
                qjs = qast.render(qn, qast.Ctx(None, None), 'js')
                oj = node.call({'op': 'query_unbounded', 'query': qjs, 'period': period, 'width': width, 'budget': ref.a_reads_max, 'join': B})
                res.evaluations += 1
                res.count('js_unbounded_runs')
                casej = dict(case, query_text_js=qjs, engine='js')
                if oj['error'] is not None:
                    mech = 'kept-pulling-input' if 'ReadBudgetExceeded' in oj['error']['msg'] else 'unbounded-error'
                    res.violation('js:%s:%s' % (mech, common.feature_sig(qn)), '[js] bounded streaming query over unbounded input: %s after %d reads, budget p_(n+1)=%d | %s' % (oj['error']['msg'][:120], oj['reads'], ref.a_reads_max, qjs), casej)
                elif not refsem.same_rows(oj['out'], ref.rows):
                    res.violation('js:rows-differ-unbounded:' + common.feature_sig(qn), '[js] %s over unbounded input -> %r, reference %r' % (qjs, oj['out'], ref.rows), casej)
                else:
                    res.count('js_reads_within_budget')


JS_VALUE_QUERIES = ['parseInt(a1), a2', 'a2.split(":")[1], a1', '1 / (a1 == "0" ? 0 : 1), a2', 'Number(a1), a2.length', '[a1, parseInt(a1)], a2', 'a3, parseInt(a1)', 'Math.sqrt(-1 * (a1 == "x" ? 1 : 0)), a1']


def js_values_leg(res, rng, count):
    """JS values that do not survive a JSON round trip (NaN, Infinity, undefined): DISTINCT / DISTINCT COUNT must emit the very records the same
    query yields without them (first occurrence of each), prefixed by the multiplicity."""
    import json
    from ..js import bridge
    node = bridge.Node.start()
    if node is None:
        res.notes.append('js values leg: unavailable (no node)')
        return
    try:
        for _ in range(count):
            A = [[rng.choice(['1', '2', 'x', '0', '7z', '']), rng.choice(['a:b', 'c', 'a:b', 'k:']), rng.choice(['p', 'q'])] for _ in range(rng.randrange(1, 9))]
            sel = rng.choice(JS_VALUE_QUERIES)
            order = rng.choice(['', ' order by a2', ' order by a1 desc'])
            reqs = [{'query': 'select %s%s' % (sel, order), 'input': A}, {'query': 'select distinct %s%s' % (sel, order), 'input': A}, {'query': 'select distinct count %s%s' % (sel, order), 'input': A}]
            plain, dist, cnt = node.call({'op': 'query_batch', 'cases': reqs})['results']
            res.evaluations += 1
            res.count('js_value_cases')
            res.nontrivial('js-values', sel, order, repr(A))
            if plain['error'] or dist['error'] or cnt['error']:
                res.violation('js:values-leg-query-failed', '[js] %r over %r failed: %r' % (sel, A, [x['error'] for x in (plain, dist, cnt)]), {'leg': 'js-values', 'sel': sel, 'A': A})
                continue

            def key(row):       # what JSON.stringify sees: NaN, Infinity and undefined all become null
                return json.dumps([None if isinstance(v, dict) and '__js__' in v else v for v in row])
            groups = {}
            for r in plain['out']:
                groups.setdefault(key(r), [0, r])[0] += 1
            exp_dist = [g[1] for g in groups.values()]
            exp_cnt = [[g[0]] + g[1] for g in groups.values()]
            if dist['out'] != exp_dist:
                res.violation('js:distinct-records-differ-from-unbounded-query', '[js] select distinct %s%s over %r -> %r ; the first occurrences in the plain result are %r' % (sel, order, A, dist['out'], exp_dist), {'leg': 'js-values', 'sel': sel, 'order': order, 'A': A})
            if cnt['out'] != exp_cnt:
                res.violation('js:distinct-count-records-differ-from-unbounded-query', '[js] select distinct count %s%s over %r -> %r ; expected %r' % (sel, order, A, cnt['out'], exp_cnt), {'leg': 'js-values', 'sel': sel, 'order': order, 'A': A})
    finally:
        node.close()


def unbounded_stream_leg(ns, res, rng, count):
    """The CSV front-end over an endless byte stream (what a pipe from a running producer is), and the command line with an endless standard input:
    a bounded streaming query must stop pulling.  Budgets are logical (bytes served), not wall-clock."""
    import io
    import os
    import subprocess
    import tempfile
    import threading

    class BudgetExceeded(Exception):
        pass

    class Endless(io.RawIOBase):
        def __init__(self, header, line_of, eol, budget):
            self.pending = header
            self.line_of, self.eol, self.budget = line_of, eol, budget
            self.k = 0
            self.served = 0

        def readable(self):
            return True

        def readinto(self, b):
            if self.served > self.budget:
                raise BudgetExceeded('ReadBudgetExceeded: %d bytes served, budget %d' % (self.served, self.budget))
            while len(self.pending) < len(b):
                self.k += 1
                self.pending += self.line_of(self.k) + self.eol
            n = len(b)
            b[:n] = self.pending[:n]
            self.pending = self.pending[n:]
            self.served += n
            return n

    queries = [('select top %d a1', lambda n: [[str(k)] for k in range(1, n + 1)]),
               ('select a1, a2 limit %d', lambda n: [[str(k), 'v%d' % (k % 3)] for k in range(1, n + 1)]),
               ('select a1 where int(a1) %% 7 == 3 limit %d', lambda n: [[str(k)] for k in range(1, 7 * n + 10) if k % 7 == 3][:n]),
               ('select distinct a2 limit %d', lambda n: [['v1'], ['v2'], ['v0']][:n]),
               ('select top %d NR, a1', lambda n: [[k, str(k)] for k in range(1, n + 1)])]
    for it in range(count):
        qt, expect = queries[it % len(queries)]
        n = rng.choice([0, 1, 2, 3, 5]) if 'distinct' not in qt else rng.choice([1, 2])      # the stream has three distinct a2 values: the engine notices the bound at output n + 1
        qtext = qt % n
        policy = rng.choice(['simple', 'quoted', 'quoted_rfc'])
        enc = rng.choice(['utf-8', 'latin-1'])
        eol = rng.choice([b'\n', b'\r\n'])
        has_header = rng.random() < 0.3
        comment = rng.choice([None, None, '#'])
        line_of = (lambda c: (lambda k: (b'#skip,me' + eol if c and k % 4 == 0 else b'') + ('%d,v%d' % (k, k % 3)).encode()))(comment)
        budget = 256 * 1024
        stream = Endless(b'id,val' + eol if has_header else b'', line_of, eol, budget)
        PI, PW, PR = boundary.probes(ns)
        w = PW(boundary.Log())
        err = None
        try:
            ns.rbql.query(qtext, ns.csv.CSVRecordIterator(stream, enc, ',', policy, has_header, comment_prefix=comment), w, [])
        except Exception as e:
            err = '%s: %s' % (type(e).__name__, str(e)[:120])
        res.evaluations += 1
        res.count('unbounded_stream_runs')
        res.nontrivial('ustream', qtext, policy, enc, has_header, comment)
        case = {'leg': 'unbounded-stream', 'query_text': qtext, 'policy': policy, 'encoding': enc, 'has_header': has_header, 'comment': comment}
        if err is not None:
            res.violation('py:csv-stream-kept-pulling-input' if 'ReadBudgetExceeded' in err else 'py:csv-stream-unbounded-error', '[py/csv] %s over an endless %s %s stream: %s after %d bytes (budget %d)' % (qtext, enc, policy, err, stream.served, budget), case)
            continue
        res.count('stream_bytes_within_budget')
        res.count('stream_bytes_served', stream.served)
        got = [[v for v in r] for r in w.rows]
        if got != expect(n):
            res.violation('py:csv-stream-rows-differ-unbounded', '[py/csv] %s over an endless stream -> %r, expected %r' % (qtext, got[:8], expect(n)[:8]), case)
    # the command line with an endless standard input
    d = tempfile.mkdtemp(prefix='rv-c02-')
    try:
        for it in range(max(2, count // 6)):
            qt, expect = queries[(it * 3 + 1) % len(queries)]
            n = rng.choice([1, 2, 4]) if 'distinct' not in qt else rng.choice([1, 2])
            qtext = qt % n
            e = dict(os.environ, PYTHONPATH=env.PY_PKG_DIR, PYTHONDONTWRITEBYTECODE='1', HOME=d, PYTHONWARNINGS='ignore')
            p = subprocess.Popen([sys.executable, '-W', 'ignore', '-m', 'rbql', '--delim', ',', '--policy', 'quoted', '--query', qtext], env=e, cwd=d, stdin=subprocess.PIPE, stdout=subprocess.PIPE, stderr=subprocess.PIPE)
            fed = [0]
            limit = 48 * 1024 * 1024

            def feed():
                k = 0
                try:
                    while fed[0] < limit:
                        block = b''.join(('%d,v%d\n' % (j, j % 3)).encode() for j in range(k + 1, k + 2001))
                        k += 2000
                        p.stdin.write(block)
                        fed[0] += len(block)
                    p.stdin.flush()
                except (BrokenPipeError, OSError, ValueError):
                    pass
                finally:
                    try:
                        p.stdin.close()      # also when the feed limit was reached: the child must see end of input, or both sides wait for ever
                    except Exception:
                        pass
            t = threading.Thread(target=feed)
            t.start()
            out = p.stdout.read()
            errb = p.stderr.read()
            t.join()
            if fed[0] >= limit:
                p.kill()
            rc = p.wait()
            try:
                p.stdin.close()
            except Exception:
                pass
            res.evaluations += 1
            res.count('cli_unbounded_stdin_runs')
            res.count('cli_unbounded_stdin_bytes_fed', fed[0])
            case = {'leg': 'cli-unbounded-stdin', 'query_text': qtext}
            if fed[0] >= limit:
                res.violation('py:cli-kept-pulling-input', '[cli] %s with an endless standard input: still reading after %d bytes were fed' % (qtext, fed[0]), case)
                continue
            rows = [l.split(',') for l in out.decode().splitlines()]
            exp = [[str(v) for v in r] for r in expect(n)]
            if rc != 0 or rows != exp:
                res.violation('py:cli-unbounded-stdin-result', '[cli] %s with an endless standard input: exit %d, stdout %r, stderr %r; expected %r' % (qtext, rc, out[:120], errb[-200:], exp), case)
    finally:
        import shutil
        shutil.rmtree(d, ignore_errors=True)
    res.sample({'leg': 'unbounded-stream', 'runs': count, 'budget_bytes': 256 * 1024, 'cli_feed_limit_bytes': 48 * 1024 * 1024})


def large_leg(ns, res, rng, count):
    """Tables of several hundred to two thousand records with few distinct values: whatever an engine buffers, batches or prunes by size is exercised
    (sort buffers, dedup sets, bound handling far beyond the first records)."""
    js = common.JsLeg(res, PROPERTY, classify_js_only)
    try:
        for it in range(count):
            nrows = rng.choice([257, 300, 513, 700, 1100, 2000])
            w = rng.choice([2, 3])
            cells = rng.choice([['a', 'b', 'ab'], ['1', '2', '10', '3', '7'], gq.SMALL_CELLS, [str(v) for v in range(12)]])
            A = [[rng.choice(cells) for _ in range(w)] for _ in range(nrows)]
            feats = set(rng.choice([['order', 'distinct'], ['order', 'distinct'], ['order'], ['distinct'], ['count'], ['order', 'count'], ['order', 'distinct', 'where'], ['order', 'where']]))
            feats.add('nostar')
            T = {'A': A, 'B': None, 'a_names': None, 'b_names': None}
            g = gq.G(rng, A[:40], None, None, None)
            q = g.gen_select(feats)
            case, ref, o, ok = run_py_case(ns, res, q, T)
            res.count('large_table_cases')
            res.count('shape:' + common.feature_sig(q))
            if it % 3 == 0:
                js.add(case, ref, False)
            if ref.error is not None or o.error is not None:
                continue
            base_rows = [list(r) for r in o.rows]
            res.nontrivial('large', case['query_text'], nrows, repr(A[:3]))
            nd = len(base_rows)
            for nb in sorted(set([0, 1, 2, 5, max(0, nd - 1), nd, nd + 1, 50, 128, 255, 256, 257, 600])):
                qn = copy.deepcopy(q)
                qn['top'] = nb
                qn['top_kw'] = 'top' if nb % 2 else 'limit'
                casen, refn, on, okn = run_py_case(ns, res, qn, T)
                res.count('large_table_bound_runs')
                if on.error is None and not refsem.same_rows(on.rows, base_rows[:nb]):
                    res.violation('py:top-is-not-prefix-of-unbounded:' + common.feature_sig(qn), '[py] %s over %d records -> %d records %r... but the same query without the bound yields %d records %r...' % (casen['query_text'], nrows, len(on.rows), on.rows[:6], nd, base_rows[:6]),
                                  dict(casen, engine='py', A=A[:50], note='table truncated in the replay file: %d records' % nrows))
                if nb in (5, 256) and it % 3 == 0:
                    js.add(casen, refn, False)
            if it % 17 == 0:
                res.sample({'leg': 'large', 'query': case['query_text'], 'records': nrows, 'distinct_result_records': nd})
    finally:
        js.close()


def huge_leg(ns, res, rng):
    """Tables of tens of thousands of records with few distinct sort keys: anything that sorts, merges or deduplicates in runs / blocks of a fixed
    size shows here and nowhere else.  Direct oracle: ORDER BY is the stable sort of the unsorted output, DESC its exact reverse, DISTINCT keeps
    first occurrences of the sorted sequence, TOP n its first n."""
    for nrows in (rng.choice([20011, 33000, 41017]), rng.choice([65537, 70001, 100003])):
        keys = rng.choice([['a', 'b', 'ab', 'c'], ['k%d' % v for v in range(40)], ['x', 'y']])
        huge_case(ns, res, nrows, keys, rng.randrange(1 << 30), True)


def huge_case(ns, res, nrows, keys, salt, with_js):
    from ..js import bridge
    trng = random.Random(salt)
    A = [[trng.choice(keys), 's%d' % k, trng.choice(['p', 'q', 'r'])] for k in range(nrows)]
    info = {'leg': 'huge', 'nrows': nrows, 'keys': keys, 'salt': salt, 'A_head': A[:20]}
    asc = sorted(A, key=lambda r: r[0])
    expectations = [('select a1, a2, a3 order by a1', asc), ('select a1, a2, a3 order by a1 desc', asc[::-1]),
                    ('select top 25000 a1, a2 order by a1 desc', [r[:2] for r in asc[::-1][:25000]]),
                    ('select a1, a2 order by a1 desc limit 7', [r[:2] for r in asc[::-1][:7]])]
    seen, dd = set(), []
    for r in asc[::-1]:
        if (r[0], r[2]) not in seen:
            seen.add((r[0], r[2]))
            dd.append([r[0], r[2]])
    expectations.append(('select distinct a1, a3 order by a1 desc', dd))
    expectations.append(('select a1, a2 order by a3, a1 dEsC', [r[:2] for r in sorted(A, key=lambda r: (r[2], r[0]))[::-1]]))
    for query, exp in expectations:
        out, warnings = [], []
        try:
            ns.rbql.query_table(query, [list(r) for r in A], out, warnings)
        except Exception as e:
            res.violation('py:huge-table-query-failed', '[py] %s over %d records fails: %s' % (query, nrows, e), dict(info, query=query))
            continue
        res.evaluations += 1
        res.count('huge_table_runs')
        res.nontrivial('huge', query, nrows, repr(keys))
        if out != exp:
            k = next((i for i in range(min(len(out), len(exp))) if out[i] != exp[i]), min(len(out), len(exp)))
            res.violation('py:huge-table-order-differs-from-stable-sort', '[py] %s over %d records (%d distinct keys): output record %d is %r, the stable sort / its reverse gives %r (%d vs %d records)' % (
                query, nrows, len(keys), k, out[k:k + 1], exp[k:k + 1], len(out), len(exp)), dict(info, query=query))
    node = bridge.Node.start() if with_js else None
    if node is not None:
        try:
            for query, exp in expectations[:3]:
                rep = node.call({'op': 'query_table', 'query': query, 'input': A, 'join': None, 'input_cols': None, 'join_cols': None})
                res.count('js_huge_table_runs')
                got = rep.get('out')
                if rep.get('error') is not None:
                    res.violation('js:huge-table-query-failed', '[js] %s over %d records fails: %r' % (query, nrows, rep.get('error')), dict(info, engine='js', query=query))
                elif got != exp:
                    k = next((i for i in range(min(len(got), len(exp))) if got[i] != exp[i]), min(len(got), len(exp)))
                    res.violation('js:huge-table-order-differs-from-stable-sort', '[js] %s over %d records: output record %d is %r, the stable sort / its reverse gives %r (%d vs %d records)' % (
                        query, nrows, k, got[k:k + 1], exp[k:k + 1], len(got), len(exp)), dict(info, engine='js', query=query))
        finally:
            node.close()


def typed_leg(ns, res, rng, count):
    """ORDER BY / DISTINCT / DISTINCT COUNT / TOP over keys that arrive typed from a dataframe or a sqlite table (numeric order for numbers, also negative
    and beyond 2**53) and as text from a CSV reader (text order unless the query converts)."""
    import io
    import sqlite3
    import pandas as pd
    from ..model import refcsv

    class Sink(ns.engine.RBQLOutputWriter):
        def __init__(self):
            self.rows = []

        def write(self, fields):
            self.rows.append(list(fields))
            return True

    show = lambda v: '%s:%r' % (type(v).__name__, v)
    for n in range(count):
        front = ['pandas', 'sqlite', 'csv'][n % 3]
        nrows = rng.choice([2, 3, 5, 8, 13])
        ipool = rng.choice([[3, 10, -2, 9, 100], [2 ** 53, 2 ** 53 + 1, 2 ** 53 + 2, 5], [1, 2, 3]])
        # the fourth column mixes integers and floats (mutually comparable types in one key column)
        rows = [[rng.choice(ipool), rng.choice([0.5, -1.25, 10.0, 2.75, 9.5]), rng.choice(['b', 'a', 'B', '10', '9', 'ab']), rng.choice([1, 2.5, 3, 0.5, 10, 7.25, -4, -0.75, 3])] for _ in range(nrows)]
        typed = front != 'csv'
        cell = (lambda v: v) if typed else (lambda v: str(v))
        R = [[cell(v) for v in r] for r in rows]
        shapes = [
            ('select a1, a3 order by a1', lambda: [[r[0], r[2]] for r in sorted(R, key=lambda r: r[0])]),
            ('select a1, a2 order by a1 Desc', lambda: [[r[0], r[1]] for r in reversed(sorted(R, key=lambda r: r[0]))]),
            ('select a2, NR order by a2', lambda: [[r[1], i + 1] for i, r in sorted(enumerate(R), key=lambda ir: ir[1][1])]),
            ('select a3, a1 order by a3, a1', lambda: [[r[2], r[0]] for r in sorted(R, key=lambda r: (r[2], r[0]))]),
            ('select distinct a1', lambda: [[v] for v in dict.fromkeys(r[0] for r in R)]),
            ('select distinct a3, a1 order by a1', lambda: [list(t) for t in dict.fromkeys((r[2], r[0]) for r in sorted(R, key=lambda r: r[0]))]),
            ('select distinct count a3', lambda: [[sum(1 for r in R if r[2] == v), v] for v in dict.fromkeys(r[2] for r in R)]),
            ('select top 2 a1 order by a1 desc', lambda: [[r[0]] for r in list(reversed(sorted(R, key=lambda r: r[0])))[:2]]),
            ('select a1 order by %s limit 3' % ('a1 * -1' if typed else 'int(a1) * -1'), lambda: [[r[0]] for r in sorted(R, key=lambda r: -int(r[0]))][:3]),
            ('select a4, NR order by %s' % ('a4' if typed else '(float(a4) if "." in a4 else int(a4))'), lambda: [[r[3], i + 1] for i, r in sorted(enumerate(R), key=lambda ir: float(ir[1][3]))]),
            ('select a4, a3 order by %s desc' % ('a4' if typed else '(float(a4) if "." in a4 else int(a4))'), lambda: [[r[3], r[2]] for r in reversed(sorted(R, key=lambda r: float(r[3])))]),
            ('select NR, a1 order by %s' % ('(a1 if NR % 2 else a2)' if typed else '(int(a1) if NR % 2 else float(a2))'), lambda: [[i + 1, r[0]] for i, r in sorted(enumerate(R), key=lambda ir: (int(ir[1][0]) if (ir[0] + 1) % 2 else float(ir[1][1])))]),
            ('select distinct a4 order by %s' % ('max(a4, 2)' if typed else 'max(float(a4), 2)'), lambda: [[v] for v in dict.fromkeys(r[3] for r in sorted(R, key=lambda r: max(float(r[3]), 2)))]),
        ]
        qtext, expf = shapes[(n // 3) % len(shapes)]
        exp = expf()
        if front == 'pandas':
            df = pd.DataFrame({'k': pd.Series([r[0] for r in rows], dtype='int64'), 'f': pd.Series([r[1] for r in rows], dtype='float64'), 's': pd.Series([r[2] for r in rows], dtype='object'), 'm': pd.Series([r[3] for r in rows], dtype='object')})
            it = ns.pandas.DataframeIterator(df, normalize_column_names=True)
            conn = None
        elif front == 'sqlite':
            conn = sqlite3.connect(':memory:')
            conn.execute('CREATE TABLE t (k INTEGER, f REAL, s TEXT, m)')
            conn.executemany('INSERT INTO t VALUES (?, ?, ?, ?)', rows)
            conn.commit()
            it = ns.sqlite.SqliteRecordIterator(conn, 't')
        else:
            conn = None
            it = ns.csv.CSVRecordIterator(io.StringIO(refcsv.write_table(R, ',', 'quoted', '\n'), newline=''), None, ',', 'quoted')
        sink = Sink()
        err = None
        try:
            ns.rbql.query(qtext, it, sink, [])
        except Exception as e:
            err = '%s: %s' % (type(e).__name__, str(e)[:150])
        if conn is not None:
            conn.close()
        res.evaluations += 1
        res.count('typed_order_distinct_runs:' + front)
        res.nontrivial('typed-order', front, qtext, repr(rows))
        got_s = None if err else [[show(v) for v in r] for r in sink.rows]
        exp_s = [[show(v) for v in r] for r in exp]
        if got_s != exp_s:
            res.violation('py:typed-order-distinct-differs:' + front, '[py/%s] %s over %r -> %s ; expected %r' % (front, qtext, R, err or got_s, exp_s), {'leg': 'typed-order', 'front_end': front, 'query_text': qtext, 'rows': [[show(v) for v in r] for r in R]})
        if n % 97 == 0:
            res.sample({'leg': 'typed-order', 'front_end': front, 'query': qtext, 'rows': [[show(v) for v in r] for r in R][:4]})


def plan(tier, seed):
    k = NSHARDS[tier]
    specs = [{'kind': 'bases', 'k': k, 'i': i, 'n': BASES[tier] // k} for i in range(k)]
    specs += [{'kind': 'unbounded', 'i': i, 'n': UNBOUNDED[tier]} for i in range(4)]
    specs += [{'kind': 'unbounded-stream', 'i': i, 'n': 60 if tier == 'quick' else 600} for i in range(2)]
    specs += [{'kind': 'large', 'i': i, 'n': 12 if tier == 'quick' else 150} for i in range(4)]
    specs += [{'kind': 'typed', 'i': i, 'n': 270 if tier == 'quick' else 4000} for i in range(2 if tier == 'quick' else 6)]
    specs.append({'kind': 'js-values', 'n': 300 if tier == 'quick' else 5000})
    return specs


def run_shard(spec, res):
    ns = env.import_rbql()
    rng = random.Random(spec['seed'] * 7919 + spec['shard'] * 31 + 5)
    if spec['kind'] == 'unbounded':
        unbounded_leg(ns, res, rng, spec['n'])
        return
    if spec['kind'] == 'unbounded-stream':
        unbounded_stream_leg(ns, res, rng, spec['n'])
        return
    if spec['kind'] == 'js-values':
        js_values_leg(res, rng, spec['n'])
        return
    if spec['kind'] == 'large':
        if spec['i'] == 0:
            huge_leg(ns, res, rng)
        large_leg(ns, res, rng, spec['n'])
        return
    if spec['kind'] == 'typed':
        typed_leg(ns, res, rng, spec['n'])
        return
    js = common.JsLeg(res, PROPERTY, classify_js_only)
    try:
        for n in range(spec['n']):
            q, T = gen_base(rng, n + spec['i'] * spec['n'])
            case, ref, o, ok = run_py_case(ns, res, q, T)
            js.add(case, ref, False)
            res.count('shape:' + common.feature_sig(q))
            if ref.error is not None or o.error is not None:
                continue
            base_rows = [list(r) for r in o.rows]
            if len(base_rows) > 1:
                res.nontrivial(case['query_text'], repr(T['A']), repr(T['B']))
            # (ii-a) every bound n in 0..|out|+1, both spellings alternating
            for nb in range(0, len(base_rows) + 2):
                qn = copy.deepcopy(q)
                qn['top'] = nb
                qn['top_kw'] = 'top' if (nb + n) % 2 else 'limit'
                casen, refn, on, okn = run_py_case(ns, res, qn, T)
                res.count('bound_runs')
                if on.error is None and not refsem.same_rows(on.rows, base_rows[:nb]):
                    res.violation('py:top-is-not-prefix-of-unbounded:' + common.feature_sig(qn), '[py] %s -> %r but the same query without the bound yields %r' % (casen['query_text'], on.rows, base_rows), dict(casen, engine='py'))
                if nb in (1, len(base_rows)):
                    js.add(casen, refn, False)
            # (ii-b) DESC is the exact reverse of ASC (no DISTINCT: dedup happens after sorting)
            if q.get('order') and not q.get('distinct'):
                qd = copy.deepcopy(q)
                qd['order']['desc'] = not q['order'].get('desc')
                cased, refd, od, okd = run_py_case(ns, res, qd, T)
                res.count('asc_desc_pairs')
                if od.error is None and not refsem.same_rows(od.rows, list(reversed(base_rows))):
                    res.violation('py:desc-is-not-reverse-of-asc:' + common.feature_sig(q), '[py] %s -> %r ; %s -> %r' % (case['query_text'], base_rows, cased['query_text'], od.rows), dict(cased, engine='py'))
                js.add(cased, refd, False)
            if n % 499 == 0:
                res.sample({'query': case['query_text'], 'A': T['A'], 'B': T['B'], 'unbounded_result': base_rows[:6], 'bounds_tried': len(base_rows) + 2})
    finally:
        js.close()


def summarize(tier, seed, m):
    shapes = sorted(k[6:] for k in m['counters'] if k.startswith('shape:'))
    return {
        'rule': 'base queries over tables with many duplicate keys: ORDER BY 1-2 keys (str / int / len / mixed) x ASC/DESC x {none, DISTINCT, DISTINCT COUNT} x {WHERE, JOIN, UNNEST}; for each base every bound n in 0..|out|+1 (TOP and LIMIT) is executed and compared with the prefix of the unbounded run and with the reference; ASC/DESC pairs compared as exact reverses; streaming bounded queries are run over an unbounded lazy input with a read budget equal to the position of the record producing output n+1. the CSV front-end over an endless byte stream (three policies, utf-8 / latin-1, LF / CRLF, header, comment lines) with a 256 KiB byte budget, and the command line fed an endless standard input (violation only after 48 MiB were consumed: logical budgets, no wall-clock verdicts), for bounded streaming SELECTs (UPDATE ignores LIMIT and is not a bounded query); tables of 257-2000 records over 3-12 distinct cell values under ORDER BY / DISTINCT / DISTINCT COUNT / WHERE combinations with bounds 0, 1, 2, 5, 50, 128, 255-257, 600 and around the size of the unbounded result; a typed leg: nine ORDER BY / DESC / two-part key / DISTINCT / DISTINCT COUNT / TOP shapes over records delivered by a dataframe, a sqlite table (numbers in numeric order, negative and beyond 2**53) and a CSV reader (text order unless the query converts), fields compared by value and type; distinct_nontrivial = distinct bases with more than one output row + distinct unbounded runs.',
        'required': ['huge_table_runs', 'js_huge_table_runs', 'typed_order_distinct_runs:pandas', 'typed_order_distinct_runs:sqlite', 'typed_order_distinct_runs:csv', 'large_table_cases', 'large_table_bound_runs', 'unbounded_stream_runs', 'stream_bytes_within_budget', 'cli_unbounded_stdin_runs', 'js_value_cases', 'py_cases', 'bound_runs', 'asc_desc_pairs', 'unbounded_runs', 'reads_within_budget', 'js_cases', 'js_unbounded_runs', 'js_reads_within_budget'],
        'extra': {'shapes_seen': shapes},
        'assumptions': ['termination clause restated as bounded progress: reads <= position of the record producing output n+1; inputs on which output n+1 never exists are not used'],
    }


def replay(case, res):
    ns = env.import_rbql()
    if case.get('leg') == 'huge':
        huge_case(ns, res, case['nrows'], case['keys'], case['salt'], True)
        return
    if case.get('unbounded'):
        u = case['unbounded']
        fn = lambda k: lazy_record(k, u['period'], u['width'])
        it = ns.engine.TableIterator(LazyTable(fn), None, True)
        o = boundary.run_py(ns, case['query_text'], None, case['B'], None, None, budget=case['budget'], input_iter=it, scribble=False)
        res.evaluations += 1
        if o.error is not None:
            res.violation('py:kept-pulling-input', '%s after %d reads (budget %d)' % (o.error, o.a_reads, case['budget']), case)
        return
    common.replay_case(ns, res, case, PROPERTY, False, classify_js_only)
