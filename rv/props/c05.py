"""C05 - UPDATE emits every record once, changing only assigned fields of matching rows.

Oracle: rv.model.refsem (copy each row, evaluate all right-hand sides against the original bindings, then assign; NU counts updated
rows).  A per-row diff monitor compares the SET of (row, field) pairs that changed with the model's, which localises a violation.
"""
import random

from .. import env, util
from ..gen import queries as gq
from ..model import refsem
from . import common

PROPERTY = 'C05'
LEVEL = 'exploration'
CASES = {'quick': 24000, 'thorough': 400000}
NSHARDS = {'quick': 16, 'thorough': 32}


def classify_js(mech, case, got, ref):
    return common.classify_known_js(mech, case, got, ref)


def gen_case(rng, i):
    feats = set()
    for b, name in enumerate(['where', 'join', 'cycle', 'beyond']):
        if (i >> b) & 1:
            feats.add(name)
    T = common.make_tables(rng, join='join' in feats, header_p=0.45, max_rows=6, max_cols=4, ragged_p=0.5 if 'beyond' in feats else 0.15, none_p=0.05, min_cols=1)
    g = gq.G(rng, T['A'], T['a_names'], T['B'], T['b_names'])
    q = g.gen_update(feats)
    if rng.random() < 0.25:
        # NU / NR on the right-hand side
        j = q['assign'][0][0]
        q['assign'][0] = [j, rng.choice([['NU'], ['tostr', ['NU']], ['arith', '+', ['NU'], ['NR']], ['concat', ['tostr', ['NU']], ['str', '/']]])]
    if rng.random() < 0.04:
        q['with'] = rng.choice(['header', 'noheader', 'headers', 'noheaders'])      # list tables take their names from the caller: a no-op here
    return common.case_json(q, T)


def diff_set(A, rows):
    d = set()
    if rows is None or len(rows) != len(A):
        return None
    for i, (a, r) in enumerate(zip(A, rows)):
        if len(a) != len(r):
            d.add((i, 'width'))
            continue
        for j, (x, y) in enumerate(zip(a, r)):
            if not refsem.same_value(y, x):
                d.add((i, j))
    return d


# ---------------------------------------------------------------------------------------------------------------
# UPDATE through the dataframe and sqlite front-ends: the assigned field holds the right-hand side value, whatever type the column had before

def leg_typed_update(ns, res, spec):
    import sqlite3
    import tempfile
    import shutil
    import os
    import pandas as pd
    from ..model import refcsv
    rng = random.Random(spec['seed'] * 67867979 + spec['i'])
    d = tempfile.mkdtemp(prefix='rv-c05-')
    try:
        for n in range(spec['n']):
            nrows = rng.randrange(1, 6)
            qty = [rng.choice([1, 2, 3, 5, 8, 127, 200]) for _ in range(nrows)]
            price = [rng.choice([0.5, 1.0, 2.25, 10.0]) for _ in range(nrows)]
            flag = [rng.choice([True, False]) for _ in range(nrows)]
            name = [rng.choice(['a', 'b', 'cd']) for _ in range(nrows)]
            rows = [[qty[i], price[i], flag[i], name[i]] for i in range(nrows)]
            updates = [('update a.qty = a.qty / 2', lambda r, nu: [r[0] / 2, r[1], r[2], r[3]]),
                       ('update a.qty = a.price, a.price = a.qty', lambda r, nu: [r[1], r[0], r[2], r[3]]),
                       ('update a1 = NU * 1.5', lambda r, nu: [nu * 1.5, r[1], r[2], r[3]]),
                       ('update a.flag = 2', lambda r, nu: [r[0], r[1], 2, r[3]]),
                       ('update a.qty = a.qty * 1000000007', lambda r, nu: [r[0] * 1000000007, r[1], r[2], r[3]]),
                       ('update a.qty = a.name', lambda r, nu: [r[3], r[1], r[2], r[3]]),
                       ('update a2 = a2 * 2 where a1 > 2', lambda r, nu: [r[0], r[1] * 2, r[2], r[3]] if r[0] > 2 else list(r)),
                       ('update a.price = a.qty where a.flag', lambda r, nu: [r[0], r[0], r[2], r[3]] if r[2] else list(r)),
                       ('update a.qty = None where a.qty > 2', lambda r, nu: [None, r[1], r[2], r[3]] if r[0] > 2 else list(r)),
                       ('update a.name = a.qty', lambda r, nu: [r[0], r[1], r[2], r[0]])]
            qtext, f = updates[n % len(updates)]
            exp, nu = [], 0
            for r in rows:
                changed = f(r, nu + 1)
                if changed != list(r) or ' where ' not in qtext:
                    nu += 1
                    changed = f(r, nu)
                exp.append(changed)

            def same(g, e):
                if e is None:
                    return g is None or g != g
                if isinstance(e, str) or isinstance(g, str):
                    return g == e
                if isinstance(e, bool):
                    return g == e
                try:
                    return float(g) == float(e) and (not isinstance(e, int) or int(g) == e)
                except (TypeError, ValueError):
                    return False
            # pandas
            small = rng.random() < 0.3
            df = pd.DataFrame({'qty': pd.Series(qty, dtype='int8' if small and max(qty) < 128 else 'int64'), 'price': pd.Series(price, dtype='float32' if small else 'float64'), 'flag': pd.Series(flag, dtype='bool'), 'name': pd.Series(name, dtype='object')})
            err = got = None
            try:
                out = ns.rbql.query_pandas_dataframe(qtext, df, [])
                got = [[(v.item() if hasattr(v, 'item') else v) for v in r] for r in out.values.tolist()]
            except Exception as e:
                err = '%s: %s' % (type(e).__name__, str(e)[:150])
            res.evaluations += 1
            res.count('typed_update_runs:pandas')
            res.nontrivial('typed-update', qtext, repr(rows))
            cs = {'leg': 'typed-update', 'front_end': 'pandas', 'query_text': qtext, 'rows': [[repr(v) for v in r] for r in rows]}
            if err is not None or len(got) != len(exp) or any(len(g) != len(e) or not all(same(x, y) for x, y in zip(g, e)) for g, e in zip(got, exp)):
                res.violation('py:typed-update-assigned-value-lost:pandas', '[py/pandas] %s over %r (dtypes %s) -> %s ; expected %r' % (qtext, rows, [str(t) for t in df.dtypes], err or got, exp), cs)
            # an all-numeric frame with mixed dtypes (no object column that would keep the cells apart): identifiers beyond 2**53 next to floats
            ids = [rng.choice([1, 2, 2 ** 53 + 1, 2 ** 53 + 3, 2 ** 62 + 5]) for _ in range(nrows)]
            ws = [rng.choice([0.5, 2.25, 10.0]) for _ in range(nrows)]
            ns_ = [rng.choice([3, 4, 7]) for _ in range(nrows)]
            nrows2 = [[ids[i], ws[i], ns_[i]] for i in range(nrows)]
            nq, nf = [('update a.w = a.w * 2', lambda r, nu: [r[0], r[1] * 2, r[2]]), ('update a2 = 0.5 where a3 > 3', lambda r, nu: [r[0], 0.5, r[2]] if r[2] > 3 else list(r)),
                      ('update a.n = a.n + 1 where a.w > 100', lambda r, nu: list(r)), ('update a3 = NU', lambda r, nu: [r[0], r[1], nu])][n % 4]
            nexp, nu = [], 0
            for r in nrows2:
                changed = nf(r, nu + 1)
                if changed != list(r) or ' where ' not in nq:
                    nu += 1
                    changed = nf(r, nu)
                nexp.append(changed)
            ndf = pd.DataFrame({'id': pd.Series(ids, dtype='int64'), 'w': pd.Series(ws, dtype='float64'), 'n': pd.Series(ns_, dtype='int64')})
            err = got = None
            try:
                out = ns.rbql.query_pandas_dataframe(nq, ndf, [])
                got = [[(v.item() if hasattr(v, 'item') else v) for v in r] for r in [list(t) for t in out.itertuples(index=False)]]
            except Exception as e:
                err = '%s: %s' % (type(e).__name__, str(e)[:150])
            res.evaluations += 1
            res.count('typed_update_runs:pandas-all-numeric')
            if err is not None or len(got) != len(nexp) or any(len(g) != len(e) or not all(same(x, y) for x, y in zip(g, e)) for g, e in zip(got, nexp)):
                res.violation('py:typed-update-unassigned-field-changed:pandas', '[py/pandas] %s over the all-numeric frame %r (int64 / float64 / int64) -> %s ; expected %r' % (nq, nrows2, err or got, nexp), dict(cs, query_text=nq, rows=[[repr(v) for v in r] for r in nrows2]))
            # sqlite -> CSV
            conn = sqlite3.connect(':memory:')
            conn.execute('CREATE TABLE t (qty INTEGER, price REAL, flag INTEGER, name TEXT)')
            conn.executemany('INSERT INTO t VALUES (?, ?, ?, ?)', [[r[0], r[1], int(r[2]), r[3]] for r in rows])
            conn.commit()
            outp = os.path.join(d, 'o.csv')
            err = None
            try:
                ns.sqlite.query_sqlite_to_csv(qtext, conn, 't', outp, ',', 'quoted_rfc', 'utf-8', [])
                with open(outp, encoding='utf-8', newline='') as fh:
                    got = refcsv.read_text(fh.read(), ',', 'quoted_rfc', 'utf-8', True).records
            except Exception as e:
                err = '%s: %s' % (type(e).__name__, str(e)[:150])
            conn.close()
            res.evaluations += 1
            res.count('typed_update_runs:sqlite')
            exp_txt = [['' if v is None else str(int(v) if isinstance(v, bool) else v) for v in e] for e in exp]
            if qtext == 'update a.flag = 2' or True:
                # sqlite delivers the flag column as 0 / 1
                exp2, nu = [], 0
                for r in rows:
                    r2 = [r[0], r[1], int(r[2]), r[3]]
                    changed = f(r2, nu + 1)
                    if changed != r2 or ' where ' not in qtext:
                        nu += 1
                        changed = f(r2, nu)
                    exp2.append(changed)
                exp_txt = [['' if v is None else str(v) for v in e] for e in exp2]
            if err is not None or got != exp_txt:
                res.violation('py:typed-update-assigned-value-lost:sqlite', '[py/sqlite] %s over %r -> %s ; expected %r' % (qtext, rows, err or got, exp_txt), dict(cs, front_end='sqlite'))
            if n % 61 == 0:
                res.sample({'leg': 'typed-update', 'query': qtext, 'rows': [[repr(v) for v in r] for r in rows], 'expected': [[repr(v) for v in r] for r in exp]})
    finally:
        shutil.rmtree(d, ignore_errors=True)


# ---------------------------------------------------------------------------------------------------------------
# JS: arrays hold values that JSON cannot carry (NaN, Infinity, undefined, Date, BigInt): UPDATE leaves every unassigned field as it is

def leg_js_values(res, spec):
    import json
    from ..js import bridge
    node = bridge.Node.start()
    if node is None:
        res.notes.append('js values leg: unavailable (no node)')
        return
    rng = random.Random(spec['seed'] * 104729 + spec['i'])
    odd = [{'__js__': 'NaN'}, {'__js__': 'Infinity'}, {'__js__': '-Infinity'}, {'__js__': 'undefined'}, {'__js__': 'date', 'v': '2020-02-03T04:05:06.000Z'}, {'__js__': 'bigint', 'v': '12345678901234567890'},
           None, 5, 'x', True, [1, {'__js__': 'NaN'}], '\ufeffbom', 0.5]
    try:
        reqs, metas = [], []
        for n in range(spec['n']):
            w = rng.randrange(2, 5)
            A = [[rng.choice(odd) for _ in range(w)] for _ in range(rng.randrange(1, 6))]
            B = [[rng.choice(['k', 'x', 5]), rng.choice(odd)] for _ in range(rng.randrange(1, 4))]
            j = rng.randrange(w)
            kind = rng.choice(['plain', 'where', 'join', 'none-match'])
            q = {'plain': 'update a%d = "U"' % (j + 1), 'where': 'update a%d = "U" where NR %% 2 == 1' % (j + 1), 'join': 'update a%d = "U" join b on a1 == b1' % (j + 1), 'none-match': 'update a%d = "U" where NR > 100' % (j + 1)}[kind]
            reqs.append({'query': q, 'input': A, 'join': B if kind == 'join' else None, 'input_cols': None, 'join_cols': None, 'revive': True})
            metas.append((A, B, j, kind, q))
        # keys that are loosely equal but distinct (7 and '7', 0 and '' and false, null): whatever the pairing rule of the port is, the outcome for a record
        # depends on that record and on B only - never on its neighbours.  Oracle: the record updated alone (and the table in reverse order) gives the same record.
        mixed_keys = [7, '7', 0, '', None, '0', 1, '1', True, False, 'k', 5, '5', 7.0, '07']
        mreqs, mmetas = [], []
        for n in range(max(40, spec['n'] // 3)):
            A = [[rng.choice(mixed_keys), 's-%d' % k, rng.choice(['p', 7])] for k in range(rng.randrange(2, 7))]
            if rng.random() < 0.5:
                A.sort(key=lambda r: str(r[0]).lstrip('0') or '0')          # loosely equal keys next to each other
            bk = []
            for k in rng.sample(mixed_keys, rng.randrange(1, 6)):
                canon = lambda v: ('bool', v) if isinstance(v, bool) else (('num', float(v)) if isinstance(v, (int, float)) else (type(v).__name__, v))
                if canon(k) not in [canon(x) for x in bk]:
                    bk.append(k)
            B = [[k, 'B-%d' % i] for i, k in enumerate(bk)]
            q = rng.choice(['update a2 = b2 join b on a1 == b1', 'update a2 = b2, a3 = "U" inner join b on b1 == a1', 'update a3 = b2 left join b on a1 == b1', 'update set a2 = b2 join b on a1 == b1 where a3 == "p"'])
            first = len(mreqs)
            mreqs.append({'query': q, 'input': A, 'join': B, 'input_cols': None, 'join_cols': None})
            mreqs.append({'query': q, 'input': A[::-1], 'join': B, 'input_cols': None, 'join_cols': None})
            for r in A:
                mreqs.append({'query': q, 'input': [r], 'join': B, 'input_cols': None, 'join_cols': None})
            mmetas.append((A, B, q, first))
        mouts = node.call({'op': 'query_batch', 'cases': mreqs})['results']
        for A, B, q, first in mmetas:
            res.evaluations += 1
            res.count('js_mixed_key_update_join_runs')
            res.nontrivial('js-mixed-key-update-join', q, json.dumps(A), json.dumps(B))
            case = {'leg': 'js-mixed-key-update-join', 'query_text': q, 'A': A, 'B': B, 'engine': 'js'}
            full, rev, singles = mouts[first], mouts[first + 1], mouts[first + 2:first + 2 + len(A)]
            if any(o['error'] is not None for o in [full, rev] + singles):
                if not (full['error'] is not None and rev['error'] is not None and any(o['error'] is not None for o in singles)):
                    res.violation('js:update-join-failure-depends-on-neighbours', '[js] %s over A=%s B=%s: errors full=%r reversed=%r alone=%r' % (q, json.dumps(A), json.dumps(B), full['error'], rev['error'], [o['error'] for o in singles]), case)
                continue
            alone = [o['out'][0] if len(o['out']) == 1 else o['out'] for o in singles]
            if full['out'] != alone or rev['out'] != alone[::-1]:
                res.violation('js:update-join-outcome-depends-on-neighbouring-records', '[js] %s over A=%s B=%s -> %s ; reversed table -> %s ; each record alone -> %s' % (
                    q, json.dumps(A), json.dumps(B), json.dumps(full['out']), json.dumps(rev['out']), json.dumps(alone)), case)
            else:
                res.count('js_mixed_key_records_agreeing', len(A))
        outs = node.call({'op': 'query_batch', 'cases': reqs})['results']
        for (A, B, j, kind, q), o in zip(metas, outs):
            res.evaluations += 1
            res.count('js_value_update_runs')
            res.nontrivial('js-values-update', q, json.dumps(A))
            case = {'leg': 'js-values-update', 'query_text': q, 'A': A, 'B': B, 'engine': 'js'}
            if kind == 'join' and len(set(json.dumps(r[0]) for r in B)) != len(B):
                if o['error'] is None and any(sum(1 for b in B if b[0] == a[0] and not isinstance(a[0], dict)) > 1 for a in A):
                    pass
                if o['error'] is not None:
                    continue          # several matches for one key: UPDATE refuses, legitimately
            if o['error'] is not None:
                res.violation('js:update-over-non-json-values-failed', '[js] %s over %s raised %r' % (q, json.dumps(A), o['error']), case)
                continue
            exp = []
            for i, r in enumerate(A):
                hit = kind == 'plain' or (kind == 'where' and (i + 1) % 2 == 1) or (kind == 'join' and not isinstance(r[0], (dict, list)) and r[0] is not None and any(b[0] == r[0] and type(b[0]) is type(r[0]) for b in B))
                exp.append([('U' if (hit and c == j) else v) for c, v in enumerate(r)])
            if kind == 'join':
                # only the untouched fields are compared there (loose key equality is the language's business)
                ok = len(o['out']) == len(A) and all(all(g[c] == r[c] for c in range(len(r)) if c != j) for g, r in zip(o['out'], A))
            else:
                ok = o['out'] == exp
            if not ok or not o['input_unchanged']:
                res.violation('js:update-changed-unassigned-fields-of-non-json-values', '[js] %s over %s -> %s ; expected %s (input unchanged: %s)' % (q, json.dumps(A), json.dumps(o['out']), json.dumps(exp), o['input_unchanged']), case)
        res.sample({'leg': 'js-values-update', 'values': [json.dumps(v) for v in odd[:6]], 'runs': len(reqs)})
    finally:
        node.close()


def leg_host_syntax(ns, res, spec):
    """Right-hand sides written in the host language's own syntax that puts `name =` or `name =>` behind a comma (keyword arguments, arrow functions,
    default parameters, comparison chains): they are expressions, not further assignments."""
    from ..js import bridge
    rng = random.Random(spec['seed'] * 3331 + 17)
    PY = [
        ("update a2 = int(a1, base=16)", lambda r: [r[0], int(r[0], 16), r[2]]),
        ("update a1 = a3.split(' ', maxsplit=1)[0], a3 = a1", lambda r: [r[2].split(' ', 1)[0], r[1], r[0]]),
        ("update a3 = sorted([a1, a2], key=len)[0], a1 = a3", lambda r: [r[2], r[1], sorted([r[0], r[1]], key=len)[0]]),
        ("update a2 = '{x}-{y}'.format(x=a1, y=a3)", lambda r: [r[0], '%s-%s' % (r[0], r[2]), r[2]]),
        ("update a1 = max(a2, a3, key=len) where len(a1) >= 1", lambda r: [max(r[1], r[2], key=len), r[1], r[2]]),
        ("update a2 = dict(k=a1, v = a3)['v']", lambda r: [r[0], r[2], r[2]]),
        ("update a3 = (lambda p, q=a1: p + q)(a2)", lambda r: [r[0], r[1], r[1] + r[0]]),
    ]
    JS = [
        ("update a2 = a2.replace(/[ab]/g, m => m.toUpperCase())", lambda r: [r[0], ''.join(c.upper() if c in 'ab' else c for c in r[1]), r[2]]),
        ("update a1 = [a1, a2].reduce((x, y) => x + y, ''), a3 = a1", lambda r: [r[0] + r[1], r[1], r[0]]),
        ("update a3 = ((p, q = a1) => p + q)(a2)", lambda r: [r[0], r[1], r[1] + r[0]]),
        ("update a2 = [a1, a3].map((v, i) => i + v).join('|')", lambda r: [r[0], '0%s|1%s' % (r[0], r[2]), r[2]]),
    ]
    for n in range(spec['n']):
        A = [[rng.choice(['a', 'b', 'ab', '1f', '10', 'c0']), rng.choice(['a', 'bb', 'x y', 'ab']), rng.choice(['p q r', 'b', 'a b', 'zz'])] for _ in range(rng.randrange(1, 5))]
        q, f = PY[n % len(PY)]
        exp = [f(r) for r in A]
        out, err = [], None
        try:
            ns.rbql.query_table(q, [list(r) for r in A], out, [])
        except Exception as e:
            err = '%s: %s' % (util.error_class(e), str(e)[:120])
        res.evaluations += 1
        res.count('host_syntax_update_runs:py')
        res.nontrivial('host-syntax', q, repr(A))
        if err is not None or out != exp:
            res.violation('py:host-syntax-right-hand-side', '[py] %s over %r -> %r (error %r) ; expected %r' % (q, A, out, err, exp), {'leg': 'host-syntax', 'query_text': q, 'A': A, 'engine': 'py'})
    node = bridge.Node.start()
    if node is None:
        return
    try:
        reqs, meta = [], []
        for n in range(spec['n']):
            A = [[rng.choice(['a', 'b', 'ab', 'cab']), rng.choice(['a', 'bb', 'x y', 'ab']), rng.choice(['p', 'b', 'a b'])] for _ in range(rng.randrange(1, 5))]
            q, f = JS[n % len(JS)]
            reqs.append({'query': q, 'input': A, 'join': None, 'input_cols': None, 'join_cols': None})
            meta.append((q, A, [f(r) for r in A]))
        outs = node.call({'op': 'query_batch', 'cases': reqs})['results']
        for (q, A, exp), o in zip(meta, outs):
            res.evaluations += 1
            res.count('host_syntax_update_runs:js')
            if o['error'] is not None or o['out'] != exp:
                res.violation('js:host-syntax-right-hand-side', '[js] %s over %r -> %r (error %r) ; expected %r' % (q, A, o['out'], o['error'] and o['error']['msg'][:100], exp), {'leg': 'host-syntax', 'query_text': q, 'A': A, 'engine': 'js'})
    finally:
        node.close()
    res.sample({'leg': 'host-syntax', 'queries': [x[0] for x in PY[:3]] + [x[0] for x in JS[:2]]})


def plan(tier, seed):
    k = NSHARDS[tier]
    return [{'k': k, 'i': i, 'n': CASES[tier] // k} for i in range(k)] + [{'kind': 'typed-update', 'i': i, 'n': 150 if tier == 'quick' else 2000} for i in range(2 if tier == 'quick' else 6)] + [{'kind': 'js-values', 'i': 0, 'n': 300 if tier == 'quick' else 4000}, {'kind': 'host-syntax', 'n': 140 if tier == 'quick' else 1400}]


def run_shard(spec, res):
    ns = env.import_rbql()
    if spec.get('kind') == 'typed-update':
        return leg_typed_update(ns, res, spec)
    if spec.get('kind') == 'js-values':
        return leg_js_values(res, spec)
    if spec.get('kind') == 'host-syntax':
        return leg_host_syntax(ns, res, spec)
    rng = random.Random(spec['seed'] * 49979687 + spec['i'])
    js = common.JsLeg(res, PROPERTY, classify_js)
    try:
        for n in range(spec['n']):
            case = gen_case(rng, n)
            ref = refsem.run(case['q'], case['A'], case['B'], case['a_names'], case['b_names'])
            o = common.run_case_py(ns, case)
            res.evaluations += 1
            res.count('py_cases')
            ok = common.compare(res, PROPERTY, 'py', case, common.obs_to_got(o), ref, True, None)
            common.check_py_monitors(res, case, o)
            if ref.error is None and o.error is None:
                res.count('row_diff_checks')
                exp_d, got_d = diff_set(case['A'], ref.rows), diff_set(case['A'], o.rows)
                if exp_d:
                    res.count('rows_with_changes')
                    res.nontrivial(case['query_text'], repr(case['A']), repr(case['B']))
                if got_d is None or len(o.rows) != len(case['A']):
                    res.violation('py:update-record-count:' + common.feature_sig(case['q']), '[py] UPDATE emitted %d records for %d input records: %s' % (len(o.rows), len(case['A']), case['query_text']), dict(case, engine='py'))
                elif ok and got_d != exp_d:
                    res.violation('py:update-changed-cells:' + common.feature_sig(case['q']), '[py] changed (row, field) pairs %r, model %r: %s' % (sorted(got_d), sorted(exp_d), case['query_text']), dict(case, engine='py'))
            if ref.error is not None:
                res.count('predicted_errors')
                if ref.error.field is not None and ref.error.what.startswith('assignment'):
                    res.count('predicted_missing_field_errors')
                    if o.error == 'runtime' and ('a%d' % ref.error.field) not in (o.error_msg or ''):
                        res.violation('py:missing-field-not-named', '[py] assignment to a missing field must name a%d: %s | %s' % (ref.error.field, o.error_msg, case['query_text']), dict(case, engine='py'))
                res.nontrivial(case['query_text'], repr(case['A']), repr(case['B']))
            res.count('shape:' + common.feature_sig(case['q']) + ('+cycle' if (n >> 2) & 1 else ''))
            if n % 2999 == 0:
                res.sample({'query': case['query_text'], 'A': case['A'], 'B': case['B'], 'a_names': case['a_names'], 'reference_rows': common.show_ref_rows(ref)[:6], 'reference_error': ref.error and ref.error.what})
            js.add(case, ref, True)
    finally:
        js.close()


def summarize(tier, seed, m):
    shapes = sorted(k[6:] for k in m['counters'] if k.startswith('shape:'))
    return {
        'rule': 'UPDATE [SET] lists of 1-3 assignments with targets aN / a[N] / a.name / a["name"], swaps and cycles (a1 = a2, a2 = a3, a3 = a1), right-hand sides from the typed vocabulary incl. NU, NR and b-fields, WHERE true / false / partial, INNER and LEFT JOIN with 0 / 1 / 2 partners, ragged tables with the target beyond a short record; systematic sweep over the 16 combinations of {where, join, cycle, beyond}. a typed leg: ten UPDATE shapes (fractional results into an integer column, swaps between int and float columns, NU * 1.5, a number into a bool column, a string into a numeric column and back, None, products beyond 2**32, WHERE on typed cells) over dataframes with int64 / int8 / float64 / float32 / bool / object columns through query_pandas_dataframe and over a sqlite table through query_sqlite_to_csv and four shapes over an all-numeric frame (int64 identifiers beyond 2**53 next to float64) - every assigned field must hold the right-hand side value, every other field its own; a JS values leg: arrays holding NaN, Infinity, undefined, Date, BigInt, nested arrays and a BOM-led string under plain / filtered / joined / never-matching UPDATEs - every unassigned field and every non-matching record comes out as it went in, the arrays of the caller stay as they were; distinct_nontrivial = distinct (query, tables) that change at least one cell or must fail.',
        'required': ['js_mixed_key_update_join_runs', 'js_mixed_key_records_agreeing', 'js_value_update_runs', 'host_syntax_update_runs:py', 'host_syntax_update_runs:js', 'typed_update_runs:pandas-all-numeric', 'typed_update_runs:pandas', 'typed_update_runs:sqlite', 'py_cases', 'row_diff_checks', 'rows_with_changes', 'predicted_missing_field_errors', 'js_cases'],
        'extra': {'shapes_seen': shapes},
        'assumptions': ['rv/model/refsem.py _run_update is the UPDATE semantics of the statement'],
    }


def replay(case, res):
    ns = env.import_rbql()
    if case.get('leg') == 'js-mixed-key-update-join':
        import json
        from ..js import bridge
        node = bridge.Node.start()
        try:
            A, B, q = case['A'], case['B'], case['query_text']
            outs = node.call({'op': 'query_batch', 'cases': [{'query': q, 'input': t, 'join': B, 'input_cols': None, 'join_cols': None} for t in [A, A[::-1]] + [[r] for r in A]]})['results']
        finally:
            node.close()
        res.evaluations += 1
        if all(o['error'] is None for o in outs):
            alone = [o['out'][0] if len(o['out']) == 1 else o['out'] for o in outs[2:]]
            if outs[0]['out'] != alone or outs[1]['out'] != alone[::-1]:
                res.violation('js:update-join-outcome-depends-on-neighbouring-records', '[js] %s over A=%s B=%s -> %s ; reversed -> %s ; alone -> %s' % (q, json.dumps(A), json.dumps(B), json.dumps(outs[0]['out']), json.dumps(outs[1]['out']), json.dumps(alone)), case)
        elif not (outs[0]['error'] is not None and outs[1]['error'] is not None and any(o['error'] is not None for o in outs[2:])):
            res.violation('js:update-join-failure-depends-on-neighbours', '[js] %s: errors %r' % (q, [o['error'] for o in outs]), case)
        return
    common.replay_case(ns, res, case, PROPERTY, True, classify_js)
