"""C05 - UPDATE emits every record once, changing only assigned fields of matching rows.

Oracle: rv.model.refsem (copy each row, evaluate all right-hand sides against the original bindings, then assign; NU counts updated
rows).  A per-row diff monitor compares the SET of (row, field) pairs that changed with the model's, which localises a violation.
"""
import random

from .. import env
from ..gen import queries as gq
from ..model import refsem
from . import common

PROPERTY = 'C05'
LEVEL = 'exploration'
CASES = {'quick': 24000, 'thorough': 400000}
NSHARDS = {'quick': 16, 'thorough': 32}


def classify_js(mech, case, got, ref):
    return common.classify_known_js(mech, case, got, ref)


def gen_case(rng, i):
    feats = set()
    for b, name in enumerate(['where', 'join', 'cycle', 'beyond']):
        if (i >> b) & 1:
            feats.add(name)
    T = common.make_tables(rng, join='join' in feats, header_p=0.45, max_rows=6, max_cols=4, ragged_p=0.5 if 'beyond' in feats else 0.15, none_p=0.05, min_cols=1)
    g = gq.G(rng, T['A'], T['a_names'], T['B'], T['b_names'])
    q = g.gen_update(feats)
    if rng.random() < 0.25:
        # NU / NR on the right-hand side
        j = q['assign'][0][0]
        q['assign'][0] = [j, rng.choice([['NU'], ['tostr', ['NU']], ['arith', '+', ['NU'], ['NR']], ['concat', ['tostr', ['NU']], ['str', '/']]])]
    if rng.random() < 0.04:
        q['with'] = rng.choice(['header', 'noheader', 'headers', 'noheaders'])      # list tables take their names from the caller: a no-op here
    return common.case_json(q, T)


def diff_set(A, rows):
    d = set()
    if rows is None or len(rows) != len(A):
        return None
    for i, (a, r) in enumerate(zip(A, rows)):
        if len(a) != len(r):
            d.add((i, 'width'))
            continue
        for j, (x, y) in enumerate(zip(a, r)):
            if not refsem.same_value(y, x):
                d.add((i, j))
    return d


def plan(tier, seed):
    k = NSHARDS[tier]
    return [{'k': k, 'i': i, 'n': CASES[tier] // k} for i in range(k)]


def run_shard(spec, res):
    ns = env.import_rbql()
    rng = random.Random(spec['seed'] * 49979687 + spec['i'])
    js = common.JsLeg(res, PROPERTY, classify_js)
    try:
        for n in range(spec['n']):
            case = gen_case(rng, n)
            ref = refsem.run(case['q'], case['A'], case['B'], case['a_names'], case['b_names'])
            o = common.run_case_py(ns, case)
            res.evaluations += 1
            res.count('py_cases')
            ok = common.compare(res, PROPERTY, 'py', case, common.obs_to_got(o), ref, True, None)
            common.check_py_monitors(res, case, o)
            if ref.error is None and o.error is None:
                res.count('row_diff_checks')
                exp_d, got_d = diff_set(case['A'], ref.rows), diff_set(case['A'], o.rows)
                if exp_d:
                    res.count('rows_with_changes')
                    res.nontrivial(case['query_text'], repr(case['A']), repr(case['B']))
                if got_d is None or len(o.rows) != len(case['A']):
                    res.violation('py:update-record-count:' + common.feature_sig(case['q']), '[py] UPDATE emitted %d records for %d input records: %s' % (len(o.rows), len(case['A']), case['query_text']), dict(case, engine='py'))
                elif ok and got_d != exp_d:
                    res.violation('py:update-changed-cells:' + common.feature_sig(case['q']), '[py] changed (row, field) pairs %r, model %r: %s' % (sorted(got_d), sorted(exp_d), case['query_text']), dict(case, engine='py'))
            if ref.error is not None:
                res.count('predicted_errors')
                if ref.error.field is not None and ref.error.what.startswith('assignment'):
                    res.count('predicted_missing_field_errors')
                    if o.error == 'runtime' and ('a%d' % ref.error.field) not in (o.error_msg or ''):
                        res.violation('py:missing-field-not-named', '[py] assignment to a missing field must name a%d: %s | %s' % (ref.error.field, o.error_msg, case['query_text']), dict(case, engine='py'))
                res.nontrivial(case['query_text'], repr(case['A']), repr(case['B']))
            res.count('shape:' + common.feature_sig(case['q']) + ('+cycle' if (n >> 2) & 1 else ''))
            if n % 2999 == 0:
                res.sample({'query': case['query_text'], 'A': case['A'], 'B': case['B'], 'a_names': case['a_names'], 'reference_rows': common.show_ref_rows(ref)[:6], 'reference_error': ref.error and ref.error.what})
            js.add(case, ref, True)
    finally:
        js.close()


def summarize(tier, seed, m):
    shapes = sorted(k[6:] for k in m['counters'] if k.startswith('shape:'))
    return {
        'rule': 'UPDATE [SET] lists of 1-3 assignments with targets aN / a[N] / a.name / a["name"], swaps and cycles (a1 = a2, a2 = a3, a3 = a1), right-hand sides from the typed vocabulary incl. NU, NR and b-fields, WHERE true / false / partial, INNER and LEFT JOIN with 0 / 1 / 2 partners, ragged tables with the target beyond a short record; systematic sweep over the 16 combinations of {where, join, cycle, beyond}. distinct_nontrivial = distinct (query, tables) that change at least one cell or must fail.',
        'required': ['py_cases', 'row_diff_checks', 'rows_with_changes', 'predicted_missing_field_errors', 'js_cases'],
        'extra': {'shapes_seen': shapes},
        'assumptions': ['rv/model/refsem.py _run_update is the UPDATE semantics of the statement'],
    }


def replay(case, res):
    ns = env.import_rbql()
    common.replay_case(ns, res, case, PROPERTY, True, classify_js)
