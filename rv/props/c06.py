"""C06 - No query ever modifies its sources.

Monitors armed around EVERY query of the workload, on success and on every exception path:
  lists   deep snapshot + row identity + scribble test (rv.monitors.boundary), icontract on query_table, CSV writer attached to list input,
          column-name lists;
  pandas  df.copy(deep=True) before, equals + dtypes + index + columns after;
  sqlite  recording Connection/Cursor (SQL strings), authorizer log, total_changes, sha256 of the database file, hostile identifiers;
  CSV     sha256 / size / mtime_ns / inode of input and join files, audit-hook log of open modes; CLI under strace (thorough);
  JS      deep JSON snapshot + row identity + scribble inside the node driver.
"""
import io
import os
import random
import shutil
import sqlite3
import subprocess
import sys
import tempfile

from .. import env, util
from ..model import qast, refsem
from ..monitors import boundary, contracts, sources
from . import common, c01, c02, c03, c04, c05

PROPERTY = 'C06'
LEVEL = 'exploration'
LIST_CASES = {'quick': 12000, 'thorough': 200000}
NSHARDS = {'quick': 12, 'thorough': 24}

HOSTILE_IDS = ['t;DROP/**/TABLE/**/t', 't--', '"t"', 'main.t', 't/**/', 't)', 't\x00x', 'ｔ', 't' * 200, "t'", 't;', '(select', 't,b', '[t]', '`t`', 't%00', 'sqlite_master;--', 'b;DELETE/**/FROM/**/t', 'b"', 't\\', 'T', 't_1', 'tb2', '', 'tä']


def failing_variants(rng, qtext):
    """Deliberately failing queries derived from a good one (syntax error, parsing error, runtime error, unknown table)."""
    r = rng.random()
    if r < 0.2:
        return qtext + ' +'
    if r < 0.4:
        return qtext + ' WHERE a1 = 1' if ' WHERE ' not in qtext.upper() else qtext + ' ORDER BY ('
    if r < 0.6:
        return qtext.replace('SELECT', 'SELECT int(a1) * 0 + len(a9), ', 1) if qtext.startswith('SELECT') else qtext + ', a1 = int(a2) + len(a9)'
    if r < 0.8:
        return qtext + ' JOIN nosuchtable ON a1 == b1' if ' JOIN ' not in qtext.upper() else qtext + ' LIMIT x'
    return 'SELECT ' + qtext


def case_stream(rng, i):
    k = i % 5
    if k == 0:
        return c01.gen_case(rng, i // 5)
    if k == 1:
        q, T = c02.gen_base(rng, i // 5)
        return common.case_json(q, T)
    if k == 2:
        return c03.gen_case(rng, i // 5)
    if k == 3:
        return c04.gen_case(rng, i // 5)
    return c05.gen_case(rng, i // 5)


def report_sources(res, case, o, tag):
    sig = common.feature_sig(case['q'])
    if o.sources_changed:
        res.violation('py:sources-modified:%s:%s' % (tag, sig), '[py/%s] %s modified by %s (error=%s) A=%r B=%r' % (tag, o.sources_changed, case['query_text'], o.error, case['A'], case['B']), dict(case, engine='py', leg=tag))
    if o.aliased or o.scribble_changed:
        res.violation('py:output-aliases-input:%s:%s' % (tag, sig), '[py/%s] output rows alias input rows (%r / %r) for %s' % (tag, o.aliased[:5], o.scribble_changed, case['query_text']), dict(case, engine='py', leg=tag))


def leg_lists(ns, res, spec):
    rng = random.Random(spec['seed'] * 86028121 + spec['i'])
    qt, mode = contracts.armed_query_table(ns)
    res.notes.append('contracts: ' + mode)
    js = common.JsLeg(res, PROPERTY, None, check_sources=True, compare_results=False)
    try:
        for n in range(spec['n']):
            case = case_stream(rng, n + spec['i'] * 7)
            ctx = qast.Ctx(case['a_names'], case['b_names'])
            if n % 6 == 2 and not case['q'].get('with'):
                # a header modifier: list / array front-ends take their names from the caller, the modifier must not make them consume (or drop) a row
                case['q']['with'] = rng.choice(['header', 'noheader', 'headers', 'noheaders'])
                res.count('list_runs_with_header_modifier')
            case['query_text'] = qast.render(case['q'], ctx, 'py')
            failing = n % 4 == 3
            if failing:
                case['query_text'] = failing_variants(rng, case['query_text'])
            a_names0 = None if case['a_names'] is None else list(case['a_names'])
            b_names0 = None if case['b_names'] is None else list(case['b_names'])
            # (1) rbql.query with probes
            o = boundary.run_py(ns, case['query_text'], case['A'], case['B'], case['a_names'], case['b_names'])
            res.evaluations += 1
            res.count('list_runs')
            res.count('list_runs_failing' if o.error is not None else 'list_runs_succeeding')
            res.count('error:' + str(o.error))
            report_sources(res, case, o, 'query')
            if o.rows:
                res.nontrivial(case['query_text'], repr(case['A']), repr(case['B']))
            # (2) contract-armed query_table on the very same objects
            out, warns, names = [], [], []
            A_before, B_before = boundary.deep_snapshot(case['A']), boundary.deep_snapshot(case['B'])
            try:
                qt(case['query_text'], case['A'], out, warns, case['B'], case['a_names'], case['b_names'], names)
                res.count('contract_evaluations')
            except contracts.ContractBroken as e:
                res.violation('py:contract:' + str(e)[:40], '[py] contract on query_table broken: %s for %s (A=%r)' % (e, case['query_text'], A_before), dict(case, engine='py', leg='contract'))
            except Exception:
                pass
            if boundary.deep_snapshot(case['A']) != A_before or boundary.deep_snapshot(case['B']) != B_before:
                res.violation('py:sources-modified:query_table:' + common.feature_sig(case['q']), '[py/query_table] sources modified by %s: A %r -> %r' % (case['query_text'], A_before, case['A']), dict(case, engine='py', leg='query_table'))
                case['A'], case['B'] = A_before, B_before
            # (3) CSV writer attached to list input: the writer normalises / quotes fields in place, so an aliased row would be corrupted
            buf = io.StringIO(newline='')
            try:
                w = ns.csv.CSVWriter(buf, False, None, ',', 'quoted')
                it = ns.engine.TableIterator(case['A'], case['a_names'])
                reg = None if case['B'] is None else ns.engine.ListTableRegistry([ns.engine.ListTableInfo('b', case['B'], case['b_names']), ns.engine.ListTableInfo('B', case['B'], case['b_names'])])
                ns.rbql.query(case['query_text'], it, w, [], reg)
            except Exception:
                pass
            res.count('csv_writer_on_list_runs')
            if boundary.deep_snapshot(case['A']) != A_before or boundary.deep_snapshot(case['B']) != B_before:
                res.violation('py:sources-modified:csv-writer:' + common.feature_sig(case['q']), '[py/CSVWriter on list input] rows modified by %s: A %r -> %r' % (case['query_text'], A_before, case['A']), dict(case, engine='py', leg='csv-writer'))
                case['A'], case['B'] = A_before, B_before
            if case['a_names'] != a_names0 or case['b_names'] != b_names0:
                res.violation('py:column-names-modified:' + common.feature_sig(case['q']), '[py/CSVWriter on list input] the caller\'s column-name list was modified by %s: %r -> %r' % (case['query_text'], a_names0, case['a_names']), dict(case, a_names=a_names0, b_names=b_names0, engine='py', leg='csv-writer'))
                case['a_names'], case['b_names'] = a_names0, b_names0
            res.count('column_name_list_checks')
            # (3c) column-name lists of the wrong length (shorter or longer than the records): whether the query is refused or not, the lists are the caller's
            if case['a_names'] is not None and n % 4 == 1:
                for short in (True, False):
                    an2 = list(case['a_names'][:-1]) if short else list(case['a_names']) + ['extra']
                    bn2 = None if case['b_names'] is None else (list(case['b_names'][:-1]) if short else list(case['b_names']) + ['extra'])
                    an3, bn3 = list(an2), (None if bn2 is None else list(bn2))
                    for use in ('input', 'join'):
                        try:
                            ns.rbql.query_table(case['query_text'] if use == 'join' else 'select *', case['A'], [], [], case['B'], an2 if use == 'input' else case['a_names'], bn2 if use == 'join' else case['b_names'])
                        except Exception:
                            pass
                        res.count('wrong_length_column_name_list_runs')
                        if an2 != an3 or bn2 != bn3 or case['a_names'] != a_names0 or case['b_names'] != b_names0:
                            res.violation('py:column-names-modified:wrong-length-list', '[py/query_table] a column-name list %s than the records was modified: %r -> %r / %r -> %r' % (
                                'shorter' if short else 'longer', an3, an2, bn3, bn2), dict(case, engine='py', leg='names-wrong-length'))
                            an2, bn2 = list(an3), (None if bn3 is None else list(bn3))
                            case['a_names'], case['b_names'] = a_names0, b_names0
                if boundary.deep_snapshot(case['A']) != A_before or boundary.deep_snapshot(case['B']) != B_before:
                    res.violation('py:sources-modified:wrong-length-names', '[py/query_table] rows modified under a column-name list of the wrong length', dict(case, engine='py', leg='names-wrong-length'))
                    case['A'], case['B'] = A_before, B_before
            # (3b) no input iterator at all: the table is named in a FROM clause and comes out of the caller's registry (what the IPython magic does)
            if not case['q'].get('with') and n % 3 == 1:
                out_rows = []
                try:
                    regs = [ns.engine.ListTableInfo('tbl', case['A'], case['a_names'])]
                    if case['B'] is not None:
                        regs += [ns.engine.ListTableInfo('b', case['B'], case['b_names']), ns.engine.ListTableInfo('B', case['B'], case['b_names'])]
                    ns.rbql.query(case['query_text'] + ' FROM tbl', None, ns.engine.TableWriter(out_rows), [], ns.engine.ListTableRegistry(regs))
                except Exception:
                    pass
                res.count('from_clause_registry_runs')
                src_ids = set(id(r) for r in case['A']) | set(id(r) for r in (case['B'] or []))
                if boundary.deep_snapshot(case['A']) != A_before or boundary.deep_snapshot(case['B']) != B_before:
                    res.violation('py:sources-modified:from-registry:' + common.feature_sig(case['q']), '[py/FROM + registry] rows modified by %s FROM tbl: A %r -> %r' % (case['query_text'], A_before, case['A']), dict(case, engine='py', leg='from-registry'))
                    case['A'], case['B'] = A_before, B_before
                elif any(id(r) in src_ids for r in out_rows):
                    res.violation('py:output-aliases-input:from-registry:' + common.feature_sig(case['q']), '[py/FROM + registry] %s FROM tbl hands the caller\'s own row objects to the writer' % case['query_text'], dict(case, engine='py', leg='from-registry'))
            # (4) JS arrays
            if not failing:
                js.add(case, None, False)
            if n % 1999 == 0:
                res.sample({'leg': 'lists', 'query': case['query_text'], 'error': o.error, 'A': case['A'][:4], 'B': case['B'] and case['B'][:4]})
    finally:
        js.close()


def leg_pandas(ns, res, spec):
    import pandas as pd
    rng = random.Random(spec['seed'] * 15487457 + spec['i'])
    for n in range(spec['n']):
        case = case_stream(rng, n)
        A, B = case['A'], case['B']
        if not A or len(set(len(r) for r in A)) != 1 or len(A[0]) == 0:
            continue
        if B is not None and (not B or len(set(len(r) for r in B)) != 1 or len(B[0]) == 0):
            continue
        ctx = qast.Ctx(case['a_names'], case['b_names'])
        qtext = qast.render(case['q'], ctx, 'py')
        if n % 4 == 3:
            qtext = failing_variants(rng, qtext)
        dfa = pd.DataFrame(A, columns=case['a_names']) if case['a_names'] is not None else pd.DataFrame(A)
        dfb = None
        if B is not None:
            dfb = pd.DataFrame(B, columns=case['b_names']) if case['b_names'] is not None else pd.DataFrame(B)
        if case['a_names'] is None and n % 2 == 1:
            # column labels that are not strings (years, explicit integers, mixed, tuples): the query is positional, the labels are the caller's
            def odd_labels(k, off):
                kind = (n // 2 + off) % 4
                if kind == 0:
                    return [2019 + j for j in range(k)]
                if kind == 1:
                    return list(range(k))
                if kind == 2:
                    return [('x%d' % j if j % 2 else 10 * j + off) for j in range(k)]
                return pd.MultiIndex.from_tuples([('g%d' % (j // 2), 'c%d' % j) for j in range(k)])
            dfa.columns = odd_labels(len(A[0]), 0)
            if dfb is not None:
                dfb.columns = odd_labels(len(B[0]), 1)
            res.count('pandas_runs_non_string_labels')
        # the index is part of the caller's frame too: named, named like a column (set_index(..., drop=False)), two-level, not the default range, and frame metadata
        def odd_index(df, kind):
            if kind == 1:
                df.index.name = 'idx'
            elif kind == 2:
                df = df.set_index(df.columns[0], drop=False)
            elif kind == 3:
                df.index = list(range(len(df) * 10, 0, -10))
            elif kind == 4 and len(df.columns) >= 2:
                df = df.set_index([df.columns[0], df.columns[1]], drop=False)
            elif kind == 5:
                df.columns.name = 'cols'
                df.attrs['source'] = 'caller'
            return df
        dfa = odd_index(dfa, (n // 3) % 6)
        if dfb is not None:
            dfb = odd_index(dfb, (n // 5) % 6)
        if (n // 3) % 6:
            res.count('pandas_runs_non_default_index')
        snap_a, snap_b = dfa.copy(deep=True), (dfb.copy(deep=True) if dfb is not None else None)
        err = None
        try:
            out = ns.rbql.query_pandas_dataframe(qtext, dfa, [], dfb)
            # scribble over the result: it must not share storage with the sources
            if out is not None and len(out):
                out.iloc[:, :] = '#scribble#'
        except Exception as e:
            err = util.error_class(e)
        res.evaluations += 1
        res.count('pandas_runs')
        res.count('pandas_runs_failing' if err else 'pandas_runs_succeeding')
        res.nontrivial('pd', qtext, repr(A))

        def same(x, y):
            return (x.equals(y) and list(x.dtypes) == list(y.dtypes) and x.index.equals(y.index) and list(x.columns) == list(y.columns)
                    and [type(c) for c in x.columns] == [type(c) for c in y.columns] and type(x.columns) is type(y.columns)
                    and list(x.index.names) == list(y.index.names) and list(x.columns.names) == list(y.columns.names) and type(x.index) is type(y.index) and x.attrs == y.attrs)
        if not same(dfa, snap_a) or (dfb is not None and not same(dfb, snap_b)):
            res.violation('py:dataframe-modified:' + common.feature_sig(case['q']), '[py/pandas] dataframe changed by %s (error=%s): before %r after %r' % (qtext, err, snap_a.values.tolist(), dfa.values.tolist()), dict(case, query_text=qtext, engine='py', leg='pandas'))
        if n % 999 == 0:
            res.sample({'leg': 'pandas', 'query': qtext, 'error': err, 'A': A[:4]})


def make_db(path, rng):
    conn = sqlite3.connect(path)
    cur = conn.cursor()
    cur.execute('CREATE TABLE t (id TEXT, name TEXT, v TEXT)')
    cur.execute('CREATE TABLE b (id TEXT, w TEXT)')
    cur.execute('CREATE TABLE T_2 (x TEXT)')
    rows = [(str(i % 3), rng.choice(['a', 'b', 'ab']), str(i)) for i in range(6)]
    cur.executemany('INSERT INTO t VALUES (?, ?, ?)', rows)
    cur.executemany('INSERT INTO b VALUES (?, ?)', [('0', 'x'), ('1', 'y'), ('1', 'z')])
    cur.execute("INSERT INTO T_2 VALUES ('q')")
    conn.commit()
    conn.close()


SQLITE_QUERIES = ['select *', 'select a1, a.name where a3 != "2"', 'update a2 = "Z" where a1 == "1"', 'select a1, b2 join %s on a1 == b1', 'select distinct count a1', 'select a.name, COUNT(*) group by a.name',
                  'select * left join %s on a1 == b1 order by a3 desc', 'update a.v = b.w inner join %s on a.id == b.id', 'select a1 +', 'select int(a2)', 'select top 2 a1, UNNEST([1, 2])', 'select a1 where a2 = 1']


def leg_sqlite(ns, res, spec):
    rng = random.Random(spec['seed'] * 32452867 + spec['i'])
    d = tempfile.mkdtemp(prefix='rv-c06-')
    try:
        db = os.path.join(d, 'db.sqlite')
        make_db(db, rng)
        before = sources.fingerprint(db)
        existing = {'t', 'b', 'T_2'}
        ids = list(HOSTILE_IDS)
        for n in range(spec['n']):
            q = rng.choice(SQLITE_QUERIES)
            hostile_join = rng.random() < 0.6
            jid = rng.choice(ids) if hostile_join else 'b'
            if ' ' in jid or jid == '':
                jid = jid.replace(' ', '/**/') or 'b'
            qtext = q % jid if '%s' in q else q
            input_table = rng.choice(ids) if rng.random() < 0.35 else 't'
            conn = sqlite3.connect(db, factory=sources.RecordingConnection)
            # every other run the caller hands over a connection with an open transaction holding an uncommitted row: RBQL must neither commit it
            # (the database file would change) nor roll it back (the caller's pending work would vanish)
            pending = n % 2 == 1
            rows0 = None
            if pending:
                conn.execute('INSERT INTO t SELECT * FROM t LIMIT 1')
                rows0 = conn.execute('SELECT COUNT(*) FROM t').fetchone()[0]
            conn.arm()
            changes0 = conn.total_changes
            outp = os.path.join(d, 'out_%d.csv' % n)
            err = None
            try:
                ns.sqlite.query_sqlite_to_csv(qtext, conn, input_table, outp, ',', 'quoted', 'utf-8', [])
            except Exception as e:
                err = util.error_class(e) if 'Rbql' in type(e).__name__ or isinstance(e, SyntaxError) else 'other:' + type(e).__name__
            res.evaluations += 1
            res.count('sqlite_runs')
            res.count('sqlite_runs_hostile' if (hostile_join and '%s' in q) or input_table != 't' else 'sqlite_runs_plain')
            res.count('sqlite_sql_statements_observed', len(conn.sql_log))
            res.count('sqlite_authorizer_events', len(conn.auth_log))
            res.nontrivial('sqlite', qtext, input_table)
            case = {'leg': 'sqlite', 'query_text': qtext, 'input_table': input_table, 'error': err}
            bad = sources.sql_violations(conn.sql_log, conn.auth_log, existing)
            for b in bad:
                res.violation('py:sqlite-non-whitelisted-sql', '[py/sqlite] %s (query %r, input table %r, SQL log %r)' % (b, qtext, input_table, conn.sql_log), case)
            if conn.total_changes != changes0:
                res.violation('py:sqlite-total-changes', '[py/sqlite] total_changes %d -> %d for %r' % (changes0, conn.total_changes, qtext), case)
            if pending:
                res.count('sqlite_runs_with_open_transaction')
                conn.disarm() if hasattr(conn, 'disarm') else None
                rows1 = conn.execute('SELECT COUNT(*) FROM t').fetchone()[0]
                if not conn.in_transaction or rows1 != rows0:
                    res.violation('py:sqlite-callers-transaction-ended', '[py/sqlite] the caller\'s open transaction was %s by %r on table %r (error %s): in_transaction=%s, rows %s -> %s' % (
                        'ended' if not conn.in_transaction else 'changed', qtext, input_table, err, conn.in_transaction, rows0, rows1), case)
                conn.rollback()
            conn.close()
            after = sources.fingerprint(db)
            if after['sha256'] != before['sha256'] or after['size'] != before['size']:
                res.violation('py:sqlite-file-modified', '[py/sqlite] database file changed by %r on table %r (error %s)' % (qtext, input_table, err), case)
                os.unlink(db)
                make_db(db, rng)
                before = sources.fingerprint(db)
            if os.path.exists(outp):
                os.unlink(outp)
            if n % 499 == 0:
                res.sample({'leg': 'sqlite', 'query': qtext, 'input_table': input_table, 'error': err, 'sql_seen': conn.sql_log})
        # direct constructor calls with hostile names
        for ident in ids:
            conn = sqlite3.connect(db, factory=sources.RecordingConnection)
            conn.arm()
            try:
                ns.sqlite.SqliteRecordIterator(conn, ident)
            except Exception:
                pass
            res.evaluations += 1
            res.count('sqlite_direct_constructor_runs')
            for b in sources.sql_violations(conn.sql_log, conn.auth_log, existing):
                res.violation('py:sqlite-non-whitelisted-sql', '[py/sqlite] SqliteRecordIterator(conn, %r): %s (SQL %r)' % (ident, b, conn.sql_log), {'leg': 'sqlite-direct', 'ident': ident})
            conn.close()
        if sources.fingerprint(db)['sha256'] != before['sha256']:
            res.violation('py:sqlite-file-modified', '[py/sqlite] database file changed by a direct constructor call', {'leg': 'sqlite-direct'})
    finally:
        shutil.rmtree(d, ignore_errors=True)


CSV_QUERIES = ['select *', 'select a1, a2 where a1 != "b"', 'update a2 = "Z"', 'select a1, b2 join jn_1.csv on a1 == b1', 'select distinct count a1', 'select * left join jn_1.csv on a1 == b1 order by a2 desc',
               'update a2 = b2 inner join jn_1.csv on a1 == b1', 'select a1 +', 'select int(a2)', 'select a1 join nosuch.csv on a1 == b1', 'select a1 where a2 = 1', 'select top 1 a1, NR', 'select a5.upper()']


def leg_csv(ns, res, spec):
    rng = random.Random(spec['seed'] * 49979693 + spec['i'])
    d = tempfile.mkdtemp(prefix='rv-c06-')
    audit = sources.AuditLog.get()
    try:
        inp = os.path.join(d, 'in_1.csv')
        jn = os.path.join(d, 'jn_1.csv')
        with open(inp, 'wb') as f:
            f.write('a,x\nb,"y,1"\nab,z\nb,"q""t"\n'.encode())
        with open(jn, 'wb') as f:
            f.write('b,J1\nb,J2\nzz,J3\n'.encode())
        os.chmod(inp, 0o644)
        before = {inp: sources.fingerprint(inp), jn: sources.fingerprint(jn)}
        old_cwd = os.getcwd()
        os.mkdir(os.path.join(d, 'sub'))
        for n in range(spec['n']):
            q = rng.choice(CSV_QUERIES)
            with_headers = rng.random() < 0.3
            outp = os.path.join(d, 'out_%d.csv' % n)
            inp_arg = inp
            if n % 5 == 4:
                # the same input file under another spelling of its path, and an output path that is not a plain new file: the directory that holds the
                # input (spelled in several ways), a path below a missing directory - whatever the front-end makes of it, the sources stay as they are
                os.chdir(rng.choice([d, os.path.join(d, 'sub')]))
                rel = os.path.relpath(d)
                inp_arg = rng.choice([inp, os.path.join(rel, 'in_1.csv'), os.path.join(rel, '.', 'in_1.csv'), os.path.join(d, 'sub', '..', 'in_1.csv')])
                outp = rng.choice([d, rel, rel + os.sep, os.path.join(d, 'sub', '..'), os.path.join(d, 'missing', 'o.csv'), os.path.join(d, 'sub'), os.path.dirname(d) + os.sep + os.path.basename(d)])
                res.count('csv_runs_with_directory_or_odd_output_path')
            audit.start()
            err = None
            try:
                ns.rbql.query_csv(q, inp_arg, ',', 'quoted', outp, rng.choice([',', '\t']), rng.choice(['quoted', 'simple']), rng.choice(['utf-8', 'latin-1']), [], with_headers)
            except Exception as e:
                err = util.error_class(e)
            events = audit.stop()
            res.evaluations += 1
            res.count('csv_runs')
            res.count('csv_runs_failing' if err else 'csv_runs_succeeding')
            res.count('csv_open_events_observed', sum(1 for e in events if e[0] == 'open'))
            res.nontrivial('csv', q, with_headers)
            case = {'leg': 'csv', 'query_text': q, 'with_headers': with_headers, 'error': err}
            bad = sources.write_access_events(events, [inp, jn])
            if bad:
                res.violation('py:csv-source-opened-for-writing', '[py/query_csv] %r: %r' % (q, bad[:3]), case)
            for pth in (inp, jn):
                fp = sources.fingerprint(pth) if os.path.exists(pth) else None
                if fp != before[pth]:
                    res.violation('py:csv-source-file-changed', '[py/query_csv] %s changed by %r (error %s): %r -> %r' % (os.path.basename(pth), q, err, before[pth], fp), case)
                    with open(pth, 'wb') as f:
                        f.write(b'a,x\nb,y\n')
                    before[pth] = sources.fingerprint(pth)
            os.chdir(old_cwd)
            if os.path.isfile(outp):
                os.unlink(outp)
            for extra in (os.path.join(d, 'sub', 'in_1.csv'),):
                if os.path.exists(extra):
                    os.unlink(extra)
            if n % 299 == 0:
                res.sample({'leg': 'csv', 'query': q, 'error': err, 'opens': [e for e in events if e[0] == 'open' and isinstance(e[1], str) and e[1].startswith(d)][:4]})
    finally:
        shutil.rmtree(d, ignore_errors=True)


def leg_strace(ns, res, spec):
    """The command-line entry point under strace: the table paths may only ever be opened O_RDONLY."""
    if shutil.which('strace') is None:
        res.notes.append('strace leg: strace not available')
        return
    rng = random.Random(spec['seed'] * 7 + 11)
    d = tempfile.mkdtemp(prefix='rv-c06-')
    try:
        inp = os.path.join(d, 'in_1.csv')
        jn = os.path.join(d, 'jn_1.csv')
        db = os.path.join(d, 'db.sqlite')
        with open(inp, 'wb') as f:
            f.write(b'a,x\nb,"y,1"\nab,z\n')
        with open(jn, 'wb') as f:
            f.write(b'b,J1\nb,J2\n')
        make_db(db, rng)
        before = {p: sources.fingerprint(p) for p in (inp, jn, db)}
        e = dict(os.environ, PYTHONPATH=env.PY_PKG_DIR, PYTHONDONTWRITEBYTECODE='1', HOME=d)
        followed = set()
        for n in range(spec['n']):
            log = os.path.join(d, 'strace.log')
            if n % 4 == 3:
                cli_ids = [x for x in HOSTILE_IDS if x and '\x00' not in x]     # argv cannot carry NUL
                q = rng.choice(['select *', 'select a1, b2 join %s on a1 == b1' % rng.choice(['b'] + cli_ids[:8]), 'update a2 = "Z"'])
                cmd = [sys.executable, '-m', 'rbql', 'sqlite', db, '--input', rng.choice(['t', 't', cli_ids[n % len(cli_ids)]]), '--query', q, '--output', os.path.join(d, 'o.csv')]
            else:
                q = rng.choice(CSV_QUERIES)
                cmd = [sys.executable, '-m', 'rbql', '--input', inp, '--delim', ',', '--policy', 'quoted', '--query', q, '--output', os.path.join(d, 'o.csv')]
            p = subprocess.run(['strace', '-f', '-e', 'trace=openat,unlink,unlinkat,rename,renameat,renameat2,truncate', '-o', log] + cmd, env=e, cwd=d, stdout=subprocess.PIPE, stderr=subprocess.PIPE, timeout=120)
            res.evaluations += 1
            res.count('strace_cli_runs')
            with open(log, errors='replace') as f:
                text = f.read()
            bad, opens = sources.strace_write_access(text, [inp, jn, db])
            res.count('strace_opens_of_sources_observed', opens)
            res.nontrivial('strace', ' '.join(cmd[2:]))
            case = {'leg': 'strace', 'cmd': cmd[2:], 'exit': p.returncode}
            # sqlite itself opens the database O_RDWR|O_CREAT: that is the library's connect(), observed separately through the file hash
            bad = [b for b in bad if 'db.sqlite' not in b]
            if bad:
                res.violation('py:cli-source-opened-for-writing', '[py/CLI under strace] %r: %r' % (cmd[2:], bad[:3]), case)
            for pth in (inp, jn, db):
                fp = sources.fingerprint(pth)
                if fp['sha256'] != before[pth]['sha256']:
                    res.violation('py:cli-source-file-changed', '[py/CLI] %s changed by %r' % (os.path.basename(pth), cmd[2:]), case)
                    before[pth] = fp
            # files of the command's own invention (a scratch file next to the output, say): a caller's table may be called just that.  Each newly
            # seen one is followed up at once: the same command with the input table (or the join table, or the database) stored under that very name
            outp = os.path.join(d, 'o.csv')
            for cpath in sources.strace_collateral_paths(text, d, [outp, log, db, db + '-journal', db + '-wal', db + '-shm']):
                res.count('strace_collateral_paths_observed')
                key = (cmd[3] == 'sqlite', os.path.basename(cpath))
                if key in followed:
                    continue
                followed.add(key)
                for role in (('db',) if cmd[3] == 'sqlite' else ('input', 'join')):
                    for qf in (('select *', 'select a1 +') if role != 'join' else ('select a1, b2 join %s on a1 == b1' % os.path.basename(cpath), 'select a1, b2 join %s on a1 == b1 where' % os.path.basename(cpath))):
                        for stale in (cpath, outp):
                            if os.path.exists(stale):
                                os.unlink(stale)
                        shutil.copyfile({'db': db, 'input': inp, 'join': jn}[role], cpath)
                        fp0 = sources.fingerprint(cpath)
                        if role == 'db':
                            cmd2 = [sys.executable, '-m', 'rbql', 'sqlite', cpath, '--input', 't', '--query', qf, '--output', outp]
                        else:
                            cmd2 = [sys.executable, '-m', 'rbql', '--input', cpath if role == 'input' else inp, '--delim', ',', '--policy', 'quoted', '--query', qf, '--output', outp]
                        p2 = subprocess.run(cmd2, env=e, cwd=d, stdout=subprocess.PIPE, stderr=subprocess.PIPE, timeout=120)
                        res.evaluations += 1
                        res.count('strace_collateral_follow_up_runs')
                        fp1 = sources.fingerprint(cpath) if os.path.exists(cpath) else {'sha256': None}
                        if fp1['sha256'] != fp0['sha256']:
                            res.violation('py:cli-source-named-like-scratch-file-destroyed', '[py/CLI] the command writes a file of its own called %s next to the output; a %s table stored under that name is %s by %r (exit %d)' % (
                                os.path.basename(cpath), role, 'removed' if fp1['sha256'] is None else 'changed', cmd2[2:], p2.returncode), {'leg': 'strace', 'cmd': cmd2[2:], 'role': role, 'collateral': os.path.basename(cpath)})
                        if os.path.exists(cpath):
                            os.unlink(cpath)
        res.sample({'leg': 'strace', 'cmd': cmd[2:], 'exit': p.returncode})
    finally:
        shutil.rmtree(d, ignore_errors=True)


# ---------------------------------------------------------------------------------------------------------------
# rich cells: list tables are not limited to strings.  Numbers, None and (mutable) list-valued cells, observed with fully deep snapshots

RICH_QUERIES = [
    'select *', 'select a.*', 'select a1, a2', 'select a2', 'select a2, a2', 'select *, a2', 'select a2 where a1 is not None', 'select top 2 a2, a3',
    'select distinct a1, a3', 'select distinct count a1', 'select a1, a2 order by a1', 'select a2 order by len(a2) desc', 'select a1, UNNEST(a2)', 'select a1, unnest(a2), a2',
    'select a1, ARRAY_AGG(a2) group by a1', 'select a1, ARRAY_AGG(a3) group by a1', 'select a1, SUM(a2) group by a1', 'select SUM(a2)', 'select SUM(a3)', 'select a1, MAX(a2), MIN(a2) group by a1',
    'select a1, ANY_VALUE(a2) group by a1', 'select MEDIAN(a3), AVG(a3), VARIANCE(a3)', 'select COUNT(a2), a1 group by a1', 'select a2 + a2', 'select a2 + [a1]', 'select a2 * 2', 'select a2[0]',
    'select max(a2, a2)', 'select sum(a2, [])', 'select sorted(a2)', 'select list(reversed(a2))', 'select a2[:]', 'select a2[1:] + a2[:1]',
    'update a1 = a2', 'update a2 = a3', 'update a3 = a2', 'update a2 = a2 + a2', 'update a1 = a2, a2 = a1', 'update a1 = None where a3 is None',
    'select * join b on a1 == b1', 'select b.* join b on a1 == b1', 'select a2, b2 left join b on a1 == b1', 'select b2 join b on a1 == b1', 'select a1, SUM(b2) join b on a1 == b1 group by a1',
    'select a1, ARRAY_AGG(b2) join b on a1 == b1 group by a1', 'update a2 = b2 join b on a1 == b1', 'select UNNEST(b2), a2 join b on a1 == b1', 'select MAX(b2), MIN(b2) join b on a1 == b1',
    'select * except a1', 'select * except a2', 'select a2 where len(a2) > 1', 'select NR, a2 limit 1',
]


def rich_cell(rng):
    r = rng.random()
    if r < 0.2:
        return rng.choice(['a', 'b', '1', '10', '', 'x y'])
    if r < 0.35:
        return rng.choice([0, 1, 2, 10, -3])
    if r < 0.42:
        return rng.choice([0.5, 2.0, -1.25])
    if r < 0.5:
        return None
    n = rng.choice([0, 1, 2, 2, 3])
    return [rng.choice(['x', 'y', 1, 2, None, 1.5, ['n', 1]]) for _ in range(n)]


def rich_table(rng, keys):
    t = []
    for _ in range(rng.randrange(1, 6)):
        t.append([rng.choice(keys), [rng.choice(['x', 'y', 1, 2, None, 3.5, ['n', 1]]) for _ in range(rng.choice([0, 1, 2, 3]))] if rng.random() < 0.8 else rich_cell(rng), rich_cell(rng)])
    return t


JS_RICH_QUERIES = ['select *', 'select a.*', 'select a1, a2', 'select a2', 'select a2, a2', 'select *, a2', 'select top 2 a2, a3', 'select a1, a2 order by a1', 'select a1, UNNEST(a2)',
                   'select a1, ARRAY_AGG(a2) group by a1', 'select a1, ANY_VALUE(a2) group by a1', 'select a2.concat(a2)', 'select a2.slice()', 'update a1 = a2', 'update a3 = a2', 'update a1 = a2, a2 = a1',
                   'select * join b on a1 == b1', 'select b.* join b on a1 == b1', 'select a2, b2 left join b on a1 == b1', 'select b2 join b on a1 == b1', 'select a1, ARRAY_AGG(b2) join b on a1 == b1 group by a1',
                   'update a2 = b2 join b on a1 == b1', 'select * except a1', 'select NR, a2 limit 1', 'select distinct count a1']


def leg_rich_js(res, spec):
    """The same on the JS port: arrays with nested array cells as the source, the JS CSV writer (and the plain table writer) as the sink."""
    import json
    from ..js import bridge
    node = bridge.Node.start()
    if node is None:
        res.notes.append('js rich-cells leg: unavailable (no node)')
        return
    rng = random.Random(spec['seed'] * 32452843 + spec['i'])
    try:
        reqs = []
        for n in range(spec['n']):
            keys = rng.choice([['k1', 'k2'], [1, 2], ['1', 'k']])
            A, B = rich_table(rng, keys), rich_table(rng, keys)
            for t in (A, B):
                for r in t:
                    r[1] = r[1] if isinstance(r[1], list) else [r[1]]
            # (the last two: arrays shorter / longer than the records - the query fails, the arrays stay as they are)
            names = rng.choice([None, ['key', 'vals', 'other'], ['key', 'vals, all', 'the "other"'], ['k;1', 'v\nw', 'o'], ['key', 'vals'], ['key', 'vals', 'other', 'more']])
            q = JS_RICH_QUERIES[(n + spec['i']) % len(JS_RICH_QUERIES)]
            use_b = ' join ' in q
            reqs.append({'query': q, 'input': A, 'join': B if use_b else None, 'input_cols': names, 'join_cols': (['bkey', 'bvals', 'bother'] if names else None) if use_b else None,
                         'policy': rng.choice(['quoted', 'simple', 'quoted_rfc']), 'delim': rng.choice([',', ';'])})
        outs = node.call({'op': 'query_csv_sink_batch', 'cases': reqs})['results']
        for req, o in zip(reqs, outs):
            res.evaluations += 1
            res.count('js_rich_csv_sink_runs')
            res.count('js_rich_csv_sink_runs_failing' if o['error'] else 'js_rich_csv_sink_runs_succeeding')
            res.nontrivial('js-rich', req['query'], json.dumps(req['input']), json.dumps(req['join']))
            if not o.get('cols_unchanged', True):
                res.violation('js:column-names-modified:csv-writer', '[js/CSVWriter on array input] %s (error %r) changed the caller\'s column-name arrays: %r -> %s' % (
                    req['query'], o['error'] and o['error']['msg'][:80], [req['input_cols'], req['join_cols']], o['cols_after']), {'leg': 'rich-js', 'req': req})
            res.count('js_column_name_array_checks')
            if not o['input_unchanged'] or not o['join_unchanged']:
                res.violation('js:sources-modified:rich-cells:csv-writer', '[js/CSVWriter on array input] %s (error %r) changed its sources: input %s -> %s ; join %s -> %s' % (
                    req['query'], o['error'] and o['error']['msg'][:80], json.dumps(req['input']), o['input_after'], json.dumps(req['join']), o['join_after']), {'leg': 'rich-js', 'req': req})
        outs = node.call({'op': 'query_batch', 'cases': [{'query': r['query'], 'input': r['input'], 'join': r['join'], 'input_cols': r['input_cols'], 'join_cols': r['join_cols']} for r in reqs]})['results']
        for req, o in zip(reqs, outs):
            res.evaluations += 1
            res.count('js_rich_table_runs')
            if not (o['input_unchanged'] and o['join_unchanged'] and o['identity_ok'] and o['scribble_safe']) or o['aliased_rows']:
                res.violation('js:sources-modified:rich-cells:query_table', '[js/query_table] %s (error %r) changed or aliased its sources: %r' % (req['query'], o['error'] and o['error']['msg'][:80], {k: o[k] for k in ('input_unchanged', 'join_unchanged', 'identity_ok', 'scribble_safe', 'aliased_rows')}), {'leg': 'rich-js', 'req': req})
        # records shorter / longer than the column-name list, under aggregate queries with a star (and plain star queries): whatever the engine does about the
        # differing widths - fail, pad, warn - the caller's record arrays keep their length and cells
        sreqs = []
        for n in range(max(60, spec['n'] // 2)):
            names = rng.choice([['name', 'qty', 'note'], ['name', 'qty'], None])
            A = [[rng.choice(['pear', 'plum', 'fig']), rng.choice(['5', '7']), 'n'][:rng.choice([3, 3, 2, 1])] for _ in range(rng.randrange(2, 6))]
            if names is not None and rng.random() < 0.7:
                A[0] = (A[0] + ['5', 'n'])[:len(names)]            # the first record as wide as the header
            q = rng.choice(['select *, count(1) group by a1', 'select a.*, max(a2) group by a1', 'select count(*), *', 'select *, count(1) where a1 != "fig" group by a1', 'select *', 'select a.*, NR where a2 == "5"',
                            'select *, sum(a2)', 'select a1, *, count(1) group by a1'] + (['select *, count(1) group by a.name', 'select a.*, min(a.qty) group by a.name'] if names else []))
            sreqs.append({'query': q, 'input': A, 'join': None, 'input_cols': names, 'join_cols': None})
        outs = node.call({'op': 'query_batch', 'cases': sreqs})['results']
        for req, o in zip(sreqs, outs):
            res.evaluations += 1
            res.count('js_ragged_star_aggregate_runs')
            res.count('js_ragged_star_aggregate_runs_failing' if o['error'] else 'js_ragged_star_aggregate_runs_succeeding')
            res.nontrivial('js-ragged-star', req['query'], json.dumps(req['input']), json.dumps(req['input_cols']))
            if not (o['input_unchanged'] and o['identity_ok'] and o['scribble_safe']) or o['aliased_rows']:
                res.violation('js:sources-modified:ragged-records-under-star', '[js/query_table] %s over %s (names %r, error %r) changed or aliased its source: %r' % (
                    req['query'], json.dumps(req['input']), req['input_cols'], o['error'] and o['error']['msg'][:80], {k: o[k] for k in ('input_unchanged', 'identity_ok', 'scribble_safe', 'aliased_rows')}), {'leg': 'ragged-star-js', 'req': req})
    finally:
        node.close()


def leg_rich(ns, res, spec):
    import copy
    import pandas as pd
    rng = random.Random(spec['seed'] * 15485863 + spec['i'])
    leg_rich_js(res, spec)
    for n in range(spec['n']):
        keys = rng.choice([['k1', 'k2'], [1, 2], ['1', 1, 'k']])
        A, B = rich_table(rng, keys), rich_table(rng, keys)
        names = rng.choice([None, None, ['key', 'vals', 'other']])
        bnames = None if names is None else ['bkey', 'bvals', 'bother']
        qtext = RICH_QUERIES[(n + spec['i']) % len(RICH_QUERIES)] if n % 7 else rng.choice(RICH_QUERIES)
        use_b = ' join ' in qtext
        tuple_rows = n % 4 == 3
        if tuple_rows:
            # rows as they come from cursor.fetchall() / zip(): immutable tuples (possibly holding mutable cells); they must stay the same objects
            A[:] = [tuple(r) if rng.random() < 0.8 else r for r in A]
            B[:] = [tuple(r) if rng.random() < 0.8 else r for r in B]
            res.count('rich_cases_with_tuple_rows')
        snapA, snapB = copy.deepcopy(A), copy.deepcopy(B)
        reprA, reprB = repr(A), repr(B)
        idsA, idsB = [id(r) for r in A], [id(r) for r in B]
        case = {'leg': 'rich', 'query_text': qtext, 'A': snapA, 'B': snapB if use_b else None, 'a_names': names, 'b_names': bnames if use_b else None}
        res.nontrivial(qtext, reprA, reprB)

        def check(front, err):
            res.evaluations += 1
            res.count('rich_runs')
            res.count('rich_runs:' + front)
            res.count('rich_runs_failing' if err else 'rich_runs_succeeding')
            if repr(A) != reprA or A != snapA or repr(B) != reprB or B != snapB or [id(r) for r in A] != idsA or [id(r) for r in B] != idsB:
                res.violation('py:sources-modified:rich-cells:%s' % front, '[py/%s] %s (error %s) changed its sources: A %s -> %r ; B %s -> %r' % (front, qtext, err, reprA, A, reprB, B), dict(case, front=front))
                A[:] = copy.deepcopy(snapA)
                B[:] = copy.deepcopy(snapB)
                idsA[:] = [id(r) for r in A]
                idsB[:] = [id(r) for r in B]

        # (1) query_table
        err = None
        try:
            ns.rbql.query_table(qtext, A, [], [], B if use_b else None, names, bnames if use_b else None, [])
        except Exception as e:
            err = type(e).__name__
        check('query_table', err)
        # (2) the CSV writer as the sink of a list source (it stringifies what it is handed)
        for policy, dlm in (('quoted', ','), ('simple', '\t')):
            err = None
            try:
                w = ns.csv.CSVWriter(io.StringIO(newline=''), False, None, dlm, policy)
                reg = ns.engine.ListTableRegistry([ns.engine.ListTableInfo('b', B, bnames)]) if use_b else None
                ns.rbql.query(qtext, ns.engine.TableIterator(A, names), w, [], reg)
            except Exception as e:
                err = type(e).__name__
            check('csv-writer-' + policy, err)
        # (3) probes with the mutating sink
        o = boundary.run_py(ns, qtext, A, B if use_b else None, names, bnames if use_b else None, mutating_sink=True)
        check('query+mutating-sink', o.error)
        if o.aliased and not tuple_rows:      # a tuple row handed through unchanged cannot be modified through the alias
            res.violation('py:output-aliases-input:rich-cells', '[py] output rows alias input rows %r for %s' % (o.aliased[:5], qtext), dict(case, front='probe'))
        # (4) pandas: object columns hold the very same list objects
        if n % 3 == 0 and names is not None:
            dfa = pd.DataFrame(copy.deepcopy(snapA), columns=names)
            dfb = pd.DataFrame(copy.deepcopy(snapB), columns=bnames)
            a0, b0 = repr(dfa.values.tolist()), repr(dfb.values.tolist())
            err = None
            try:
                ns.rbql.query_pandas_dataframe(qtext, dfa, [], dfb if use_b else None)
            except Exception as e:
                err = type(e).__name__
            res.evaluations += 1
            res.count('rich_runs:pandas')
            if repr(dfa.values.tolist()) != a0 or repr(dfb.values.tolist()) != b0:
                res.violation('py:sources-modified:rich-cells:pandas', '[py/pandas] %s (error %s) changed a dataframe: %s -> %r ; %s -> %r' % (qtext, err, a0, dfa.values.tolist(), b0, dfb.values.tolist()), dict(case, front='pandas'))
        if n % 997 == 0:
            res.sample({'leg': 'rich', 'query': qtext, 'A': reprA, 'B': reprB if use_b else None})


def plan(tier, seed):
    k = NSHARDS[tier]
    specs = [{'kind': 'lists', 'i': i, 'n': LIST_CASES[tier] // k} for i in range(k)]
    specs += [{'kind': 'rich', 'i': i, 'n': 600 if tier == 'quick' else 8000} for i in range(4)]
    specs += [{'kind': 'pandas', 'i': i, 'n': 700 if tier == 'quick' else 7000} for i in range(2)]
    specs += [{'kind': 'sqlite', 'i': i, 'n': 400 if tier == 'quick' else 4000} for i in range(2)]
    specs += [{'kind': 'csv', 'i': i, 'n': 300 if tier == 'quick' else 3000} for i in range(2)]
    specs += [{'kind': 'strace', 'i': i, 'n': 12 if tier == 'quick' else 100} for i in range(1 if tier == 'quick' else 4)]
    return specs


def run_shard(spec, res):
    ns = env.import_rbql()
    {'lists': leg_lists, 'rich': leg_rich, 'pandas': leg_pandas, 'sqlite': leg_sqlite, 'csv': leg_csv, 'strace': leg_strace}[spec['kind']](ns, res, spec)


def summarize(tier, seed, m):
    return {
        'rule': 'the query generators of C01-C05 (every query shape) plus deliberately failing variants (syntax error, parsing error, runtime error, unknown join table), each executed (1) through rbql.query with probes and snapshots, (2) through the icontract-armed query_table, (3) with the CSV writer attached to list input, (3b) with no input iterator at all - the table named in a FROM clause and taken from the ListTableRegistry of the caller -, (4) on the JS engine with array snapshots; list tables with numbers, None and mutable list-valued cells under %d query texts (stars, UNNEST, every aggregate, list arithmetic and methods, UPDATE, joins) through query_table, the CSV writer as sink, a mutating probe sink and pandas object columns, compared with fully deep snapshots; pandas dataframes with deep copies (values, dtypes, labels, index values, index / column level names, attrs; the index named, named like a column, two-level, non-default); a file-backed sqlite database with recording connection, authorizer log, total_changes and file hash under %d hostile table identifiers (in the query text, as input table, and passed directly to SqliteRecordIterator); query_csv with file fingerprints and an audit-hook log of every open() (one run in five with the input path spelled relatively / through .., and the output path naming the directory that holds the input, in several spellings, or a path below a missing directory); the CLI under strace. distinct_nontrivial = distinct executed (query, source) cases.' % (len(RICH_QUERIES), len(HOSTILE_IDS)),
        'required': ['js_ragged_star_aggregate_runs_failing', 'js_ragged_star_aggregate_runs_succeeding', 'from_clause_registry_runs', 'js_column_name_array_checks', 'list_runs_with_header_modifier', 'csv_runs_with_directory_or_odd_output_path', 'rich_cases_with_tuple_rows', 'js_rich_csv_sink_runs_succeeding', 'js_rich_table_runs', 'rich_runs_failing', 'rich_runs_succeeding', 'rich_runs:csv-writer-quoted', 'rich_runs:query+mutating-sink', 'rich_runs:pandas', 'list_runs_failing', 'list_runs_succeeding', 'contract_evaluations', 'csv_writer_on_list_runs', 'column_name_list_checks', 'wrong_length_column_name_list_runs', 'pandas_runs_succeeding', 'pandas_runs_failing', 'pandas_runs_non_string_labels', 'pandas_runs_non_default_index', 'sqlite_runs_hostile', 'sqlite_runs_with_open_transaction', 'sqlite_sql_statements_observed', 'sqlite_authorizer_events', 'sqlite_direct_constructor_runs', 'csv_runs_succeeding', 'csv_runs_failing', 'csv_open_events_observed', 'strace_cli_runs', 'strace_opens_of_sources_observed', 'js_cases'],
        'assumptions': ['hostile identifiers are only required not to reach sqlite and not to change the database; the error class they produce is not demanded', 'sqlite3.connect itself opens the database file read-write; the file hash (not the open mode) decides for sqlite'],
    }


def replay(case, res):
    ns = env.import_rbql()
    if case.get('leg') in ('query', 'contract', 'query_table', 'csv-writer') or 'q' in case:
        o = boundary.run_py(ns, case['query_text'], case['A'], case['B'], case['a_names'], case['b_names'])
        res.evaluations += 1
        report_sources(res, case, o, 'query')
        a0 = None if case['a_names'] is None else list(case['a_names'])
        buf = io.StringIO(newline='')
        try:
            ns.rbql.query(case['query_text'], ns.engine.TableIterator(case['A'], case['a_names']), ns.csv.CSVWriter(buf, False, None, ',', 'quoted'), [], None)
        except Exception:
            pass
        if case['a_names'] != a0:
            res.violation('py:column-names-modified', 'column names %r -> %r' % (a0, case['a_names']), case)
    else:
        res.notes.append('replay for leg %r: run ./check C06 quick' % case.get('leg'))
