"""C11 - Field splitting implements the documented quoting dialect exactly.

Oracle: rv.model.refcsv.split (character-level state machine).  Observed through the public reader
(CSVRecordIterator over a one-line stream: record + warnings / IO error) and, when present, through
csv_utils.smart_split in both preserve modes.  JS twin (rbql-js/csv_utils.js smart_split) through the node driver.
"""
import io
import random

from .. import env, util
from ..gen import enum
from ..model import refcsv

PROPERTY = 'C11'
LEVEL = 'exploration'

DELIMS = [',', '\t', ';', ' ', '::', '|', '→', ', ', '\\', '^', '.', '*', '  ', '   ']      # four regular-expression metacharacters; two delimiters made of the padding character alone (column-aligned text)
NSHARDS_PER_DELIM = {'quick': 3, 'thorough': 6}
MAXLEN = {'quick': 8, 'thorough': 9}
MAXLEN_MULTI = {'quick': 6, 'thorough': 7}
RANDOM_LINES = {'quick': 4000, 'thorough': 40000}


def alphabet_for(dlm):
    """class alphabet {quote, delimiter, space, other}; a multi-character delimiter also contributes its first character alone."""
    syms = ['"', dlm]
    if dlm != ' ':
        syms.append(' ')
    syms.append('x')
    if len(dlm) > 1 and dlm[0] not in syms:
        syms.append(dlm[0])
    return syms


def plan(tier, seed):
    specs = []
    for dlm in DELIMS:
        k = NSHARDS_PER_DELIM[tier]
        if dlm in (' ',):
            k = 1
        for i in range(k):
            specs.append({'kind': 'exhaustive', 'dlm': dlm, 'k': k, 'i': i})
    for dlm, extra in ((',', '\t'), (';', '\t'), (',', '\xa0'), ('|', '\t\x0b')):
        for i in range(2):
            specs.append({'kind': 'exhaustive', 'dlm': dlm, 'k': 2, 'i': i, 'extra': extra})
    for i in range(4):
        specs.append({'kind': 'random', 'i': i, 'n': RANDOM_LINES[tier] // 4})
    specs.append({'kind': 'js', 'maxlen': 6 if tier == 'quick' else 7})
    return specs


def observe_reader(ns, line, dlm, policy):
    """-> (records, warning kinds, error class) via the public reader."""
    try:
        it = ns.csv.CSVRecordIterator(io.StringIO(line), None, dlm, policy)
        recs = it.get_all_records()
        return recs, util.warning_kinds(it.get_warnings()), None
    except Exception as e:
        return None, None, util.error_class(e)


def check_line(ns, res, line, dlm, relabel=None):
    """All policies for one line.  `relabel`: the same line with 'other' characters replaced (class interchangeability)."""
    res.evaluations += 1
    exp_fields, exp_warn = refcsv.split_quoted(line, dlm)
    exp_pres, _ = refcsv.split_quoted(line, dlm, preserve=True)
    nontrivial = '"' in line
    if nontrivial:
        res.nontrivial(line, dlm)
    case = {'line': line, 'dlm': dlm}

    # (a) csv_utils.smart_split, both preserve modes, when present
    ss = getattr(ns.utils, 'smart_split', None)
    if ss is not None:
        for policy in ('quoted', 'quoted_rfc'):
            res.count('smart_split_calls')
            got = ss(line, dlm, policy, False)
            if list(got[0]) != exp_fields or bool(got[1]) != exp_warn:
                res.violation('split-fields-or-warning', 'smart_split(%r, %r, %r) -> %r, reference %r' % (line, dlm, policy, got, (exp_fields, exp_warn)), dict(case, policy=policy, mode='smart_split'))
            gotp = ss(line, dlm, policy, True)
            res.count('rejoin_checks')
            if dlm.join(gotp[0]) != line:
                res.violation('preserve-rejoin', 'quote-preserving split of %r (dlm %r) re-joins to %r' % (line, dlm, dlm.join(gotp[0])), dict(case, policy=policy, mode='preserve'))
            elif list(gotp[0]) != exp_pres or bool(gotp[1]) != exp_warn:
                res.violation('preserve-fields', 'preserving split(%r, %r) -> %r, reference %r' % (line, dlm, gotp, (exp_pres, exp_warn)), dict(case, policy=policy, mode='preserve'))
        for policy, exp in (('simple', line.split(dlm)), ('whitespace', refcsv.split_whitespace(line)), ('monocolumn', [line])):
            got = ss(line, dlm, policy, False)
            if list(got[0]) != exp or got[1]:
                res.violation('plain-policy-split', 'smart_split(%r, %r, %r) -> %r, reference %r' % (line, dlm, policy, got, exp), dict(case, policy=policy, mode='smart_split'))

    # (b) public reader over a one-line stream
    if line == '':
        return
    for policy in ('quoted', 'quoted_rfc'):
        res.count('reader_runs')
        recs, kinds, err = observe_reader(ns, line, dlm, policy)
        if policy == 'quoted_rfc' and exp_warn:
            if err != 'io':
                res.violation('rfc-malformed-not-io-error', 'reader(quoted_rfc) on %r dlm %r: expected IO-handling error, got records=%r warnings=%r error=%r' % (line, dlm, recs, kinds, err), dict(case, policy=policy, mode='reader'))
            continue
        if err is not None:
            res.violation('reader-unexpected-error', 'reader(%s) on %r dlm %r raised %s' % (policy, line, dlm, err), dict(case, policy=policy, mode='reader'))
            continue
        if recs != [exp_fields]:
            res.violation('reader-fields', 'reader(%s) on %r dlm %r -> %r, reference %r' % (policy, line, dlm, recs, [exp_fields]), dict(case, policy=policy, mode='reader'))
        if ('quote' in kinds) != exp_warn:
            res.violation('reader-warning-iff', 'reader(%s) on %r dlm %r: quoting warning %s, reference says %s' % (policy, line, dlm, 'quote' in kinds, exp_warn), dict(case, policy=policy, mode='reader'))
    for policy, exp in (('simple', line.split(dlm)), ('monocolumn', [line])) + ((('whitespace', refcsv.split_whitespace(line)),) if dlm == ' ' else ()):
        res.count('reader_runs')
        recs, kinds, err = observe_reader(ns, line, dlm, policy)
        if err is not None or recs != [exp] or 'quote' in (kinds or []):
            res.violation('reader-plain-policy', 'reader(%s) on %r dlm %r -> %r warnings %r error %r, reference %r' % (policy, line, dlm, recs, kinds, err, [exp]), dict(case, policy=policy, mode='reader'))

    # (c) class interchangeability: the relabelled line must split into the relabelled fields
    if relabel is not None and ss is not None:
        rline, mapping = relabel
        res.count('relabel_checks')
        got = ss(rline, dlm, 'quoted', False)
        ref = refcsv.split_quoted(rline, dlm)
        if (list(got[0]), bool(got[1])) != ref:
            res.violation('relabel-split', 'smart_split(%r, %r) -> %r, reference %r' % (rline, dlm, got, ref), {'line': rline, 'dlm': dlm, 'mode': 'smart_split', 'policy': 'quoted'})


def random_other(rng, dlm, allow_breaks=False):
    while True:
        r = rng.random()
        if r < 0.03 and allow_breaks:
            # only ever handed to the splitter directly (never to a reader): a caller may pass lines that still carry their line break
            return rng.choice(['\n', '\r', '\x0b', '\x0c', '\x85', '\u2028'])
        if r < 0.4:
            c = chr(rng.randrange(0x21, 0x7f))
        elif r < 0.7:
            c = chr(rng.randrange(0xa0, 0x800))
        elif r < 0.9:
            c = chr(rng.randrange(0x800, 0xd800))
        else:
            c = chr(rng.randrange(0x10000, 0x10ffff))
        if c in '"\r\n ' or c in dlm or c == '﻿':
            continue
        return c


def run_shard(spec, res):
    ns = env.import_rbql()
    tier = spec['tier']
    rng = random.Random(1000 * spec['seed'] + spec['shard'])
    if spec['kind'] == 'exhaustive':
        dlm = spec['dlm']
        syms = alphabet_for(dlm) + list(spec.get('extra', ''))      # extra: other white space (tab, NBSP) that is NOT padding - only U+0020 is
        maxlen = MAXLEN_MULTI[tier] if len(syms) > 4 else MAXLEN[tier]
        if len(syms) == 3:
            maxlen += 2
        idx = 0
        for tup in enum.words(syms, maxlen):
            idx += 1
            if idx % spec['k'] != spec['i']:
                continue
            line = ''.join(tup)
            relabel = None
            if idx % 7 == 0 and 'x' in tup:
                rl = ''.join(random_other(rng, dlm, allow_breaks=True) if s == 'x' else s for s in tup)
                relabel = (rl, None)
            check_line(ns, res, line, dlm, relabel)
            if idx % 9973 == 0:
                res.sample({'line': line, 'dlm': dlm, 'reference': refcsv.split_quoted(line, dlm)})
        res.count('exhaustive_lines', res.evaluations)
        res.notes.append('exhaustive over %r up to %d symbols for delimiter %r' % (syms, maxlen, dlm))
    elif spec['kind'] == 'random':
        for _ in range(spec['n']):
            dlm = rng.choice(DELIMS + ['ab', ', ', '#!'])
            n = rng.randrange(1, 60)
            parts = []
            for _j in range(n):
                r = rng.random()
                if r < 0.22:
                    parts.append('"')
                elif r < 0.40:
                    parts.append(dlm)
                elif r < 0.50:
                    parts.append(' ')
                elif r < 0.55 and len(dlm) > 1:
                    parts.append(dlm[0])
                else:
                    parts.append(random_other(rng, dlm))
            line = ''.join(parts)
            check_line(ns, res, line, dlm)
            res.count('random_lines')
            if res.evaluations % 997 == 0:
                res.sample({'line': line, 'dlm': dlm, 'reference': refcsv.split_quoted(line, dlm)})
    elif spec['kind'] == 'js':
        run_js_leg(spec, res)


def run_js_leg(spec, res):
    """JS twin: csv_utils.js smart_split against the same reference."""
    from ..js import bridge
    node = bridge.Node.start()
    if node is None:
        res.notes.append('js_leg: unavailable (no node)')
        return
    try:
        batch = []
        for dlm, extra in [(',', ''), (' ', ''), ('\t', ''), ('::', ''), (', ', ''), (' | ', ''), ('  ', ''), (',', '\t'), (';', '\xa0')]:
            syms = alphabet_for(dlm) + list(extra)
            maxlen = spec['maxlen'] - (1 if len(syms) > 4 else 0)
            for tup in enum.words(syms, maxlen):
                batch.append((''.join(tup), dlm))
        for off in range(0, len(batch), 5000):
            chunk = batch[off:off + 5000]
            out = node.call({'op': 'split_batch', 'cases': [{'line': l, 'dlm': d, 'policy': 'quoted'} for l, d in chunk]})
            for (line, dlm), o in zip(chunk, out['results']):
                res.evaluations += 1
                res.count('js_split_calls')
                if '"' in line:
                    res.nontrivial('js', line, dlm)
                ref = refcsv.split_quoted(line, dlm)
                refp = refcsv.split_quoted(line, dlm, preserve=True)
                if (o['fields'], bool(o['warning'])) != (ref[0], ref[1]):
                    res.violation('js-split-fields-or-warning', 'JS smart_split(%r, %r) -> %r, reference %r' % (line, dlm, (o['fields'], o['warning']), ref), {'line': line, 'dlm': dlm, 'mode': 'js'})
                if dlm.join(o['pfields']) != line or o['pfields'] != refp[0]:
                    res.violation('js-preserve-rejoin', 'JS preserving split(%r, %r) -> %r' % (line, dlm, o['pfields']), {'line': line, 'dlm': dlm, 'mode': 'js'})
            # the same lines as one-line files through the JS CSV reader (bulk and stream): however the reader dispatches to the splitter (fast paths for
            # "lines without quoted fields" included), a line read under the quoted policy gives the fields and the warning of the splitter
            rsample = [(l, d) for k_, (l, d) in enumerate(chunk) if k_ % 6 == 0 and l and '\n' not in l and '\r' not in l]
            if rsample:
                rout = node.call({'op': 'read_batch', 'cases': [{'bytes_hex': l.encode('utf-8').hex(), 'chunks': (None if k_ % 2 else [len(l.encode('utf-8'))]), 'encoding': 'utf-8', 'delim': d, 'policy': 'quoted',
                                                                  'has_header': False, 'comment_prefix': None} for k_, (l, d) in enumerate(rsample)]})['results']
                for (line, dlm), o in zip(rsample, rout):
                    res.evaluations += 1
                    res.count('js_reader_line_splits')
                    ref = refcsv.split_quoted(line, dlm)
                    warned = any('quot' in w.lower() for w in (o.get('warnings') or []))
                    if o['error'] is not None or o['records'] != [ref[0]] or warned != bool(ref[1]):
                        res.violation('js-reader-line-split-differs-from-splitter', 'JS CSVRecordIterator over the one-line file %r (quoted, %r) -> records %r warnings %r error %r ; the splitter gives %r' % (
                            line, dlm, o['records'], o.get('warnings'), o['error'], ref), {'line': line, 'dlm': dlm, 'mode': 'js-reader'})
            # the plain policies on the same lines: simple is a plain split, whitespace splits on runs of spaces, monocolumn does not split; quotes are ordinary characters
            plain = [(l, d, pol) for l, d in chunk for pol in (('simple', 'monocolumn', 'whitespace') if d == ' ' else ('simple', 'monocolumn'))]
            out = node.call({'op': 'split_batch', 'cases': [{'line': l, 'dlm': d, 'policy': pol} for l, d, pol in plain]})
            for (line, dlm, pol), o in zip(plain, out['results']):
                res.evaluations += 1
                res.count('js_plain_policy_split_calls')
                exp = {'simple': lambda: line.split(dlm), 'monocolumn': lambda: [line], 'whitespace': lambda: refcsv.split_whitespace(line)}[pol]()
                if o.get('error') is not None or o['fields'] != exp or o['warning']:
                    res.violation('js-plain-policy-split', 'JS smart_split(%r, %r, %r) -> %r, reference %r' % (line, dlm, pol, o.get('error') or (o['fields'], o['warning']), exp), {'line': line, 'dlm': dlm, 'mode': 'js-plain', 'policy': pol})
    finally:
        node.close()


def summarize(tier, seed, m):
    return {
        'rule': 'exhaustive lines over the class alphabet {quote, delimiter, space, other (+ first char of a multi-character delimiter)} up to %d symbols (%d for 5-symbol alphabets) per delimiter in %r, each through csv_utils.smart_split (both preserve modes, 5 policies) and through CSVRecordIterator on a one-line stream; random relabelling of "other" by Unicode; %d random long lines; JS smart_split on the same lines (quoted, and the plain policies simple / whitespace / monocolumn). the same exhaustive enumeration with other white space added to the alphabet (tab, vertical tab, NBSP: only U+0020 is padding around a quoted field) for , ; and | (py) and , ; (js); distinct_nontrivial = distinct (line, delimiter) pairs containing at least one double quote (the fast path handles the others).' % (MAXLEN[tier], MAXLEN_MULTI[tier], DELIMS, RANDOM_LINES[tier]),
        'exhaustive': True,
        'required': ['js_reader_line_splits', 'reader_runs', 'exhaustive_lines', 'js_split_calls', 'js_plain_policy_split_calls'],
        'assumptions': ['rv.model.refcsv.split_quoted is the documented dialect', 'characters outside {quote, delimiter chars, space} are interchangeable for the splitter (sampled by the relabelling leg)'],
    }


def replay(case, res):
    ns = env.import_rbql()
    if case.get('mode') == 'js':
        from ..js import bridge
        node = bridge.Node.start()
        o = node.call({'op': 'split_batch', 'cases': [{'line': case['line'], 'dlm': case['dlm'], 'policy': 'quoted'}]})['results'][0]
        node.close()
        ref = refcsv.split_quoted(case['line'], case['dlm'])
        res.evaluations += 1
        if (o['fields'], bool(o['warning'])) != (ref[0], ref[1]):
            res.violation('js-split-fields-or-warning', 'JS %r vs reference %r' % (o, ref), case)
        return
    check_line(ns, res, case['line'], case['dlm'])
