"""C09 - Column-name variables bind to the right column; header line is never data.

Unique-value trick: the cell at (row r, column c) is the token r{r}c{c}, so a returned value identifies the column it came from and
the oracle is a direct position check.  Names are written as string literals by the harness's own minimal escaper (qast.lit).
"""
import io
import os
import random
import re
import shutil
import sqlite3
import subprocess
import sys
import tempfile

from .. import env, util
from ..gen import queries as gq
from ..model import qast, refcsv
from ..monitors import boundary

PROPERTY = 'C09'
LEVEL = 'exploration'
HEADERS = {'quick': 1500, 'thorough': 20000}
NSHARDS = {'quick': 12, 'thorough': 24}

ALPHABET = list('abcXYZ019_ -+*/%#=!?.,:;()[]{}<>|&^~@$') + ['"', "'", '\\', '`', '\t', 'é', 'ß', '€', '名', ' ', '\x0b', '\x0c', '\x1c', '\x1e', '\x85', '\u2028', '\u2029', '\xa0']
IDENT_POOL = ['name', 'age', 'x', 'X', 'x1', 'x10', 'name2', 'Name', 'NAME', '_id', 'id_', 'value', 'val', 'va', 'total', 'home_town', 'c', 'k9', 'zz', 'col1', 'a_', 'b_1', 'ab', 'length2', 'idx', 'NR', 'NF', 'NU', 'nr', 'aNR', 'bNR', 'length', 'constructor', 'toString', '__proto__', 'hasOwnProperty', 'None', 'null', 'undefined', 'a1', 'b2', 'a', 'b']
RESERVED_DIRECT = {'NR', 'NF', 'NU', 'a', 'b', 'e', 'record_a', 'record_b', 'query_context', 'stop_flag', 'star_fields', 'out_fields', 'sort_key', 'key', 'udf', 'like', 'unnest', 'count', 'sum', 'min', 'max', 'avg', 'median', 'variance', 'array_agg', 'any_value', 'up_fields', 'join_matches', 'join_match', 'bNR', 'bNF', 'aNR', 'select_simple', 'select_unnested', 'safe_get', 'len', 'str', 'int', 'x'} | qast.PY_KEYWORDS


DIRECT_WORD_NAMES = ['package', 'public', 'private', 'protected', 'static', 'interface', 'implements', 'long', 'short', 'final', 'native', 'abstract', 'int', 'char', 'byte', 'boolean', 'double',
                     'float', 'goto', 'volatile', 'transient', 'synchronized', 'throws', 'value', 'city']


def random_name(rng, allow_newline=False, allow_cr=False):
    r = rng.random()
    if r < 0.3:
        return rng.choice(IDENT_POOL)
    n = rng.choice([1, 2, 3, 4, 6, 9])
    alpha = ALPHABET + (['\n'] if allow_newline else []) + (['\r', '\r\n'] if allow_cr else [])
    return ''.join(rng.choice(alpha) for _ in range(n))


def gen_header(rng, allow_newline=False, allow_cr=False):
    n = rng.randrange(1, 6)
    names = []
    tries = 0
    while len(names) < n and tries < 100:
        tries += 1
        nm = random_name(rng, allow_newline, allow_cr)
        r = rng.random()
        if names and r < 0.25:
            base = rng.choice(names)
            nm = rng.choice([base + rng.choice(['x', ' ', '"', '1']), base[:-1] if len(base) > 1 else base + '_', base.swapcase(), rng.choice(['x', ' ']) + base])
        if nm in names or (nm == '' and rng.random() < 0.8) or gq.has_ab_token(nm) or nm.startswith('﻿'):
            continue
        names.append(nm)
    return names


def unique_table(ncols, nrows=3, first=1):
    return [['r%dc%d' % (r, c) for c in range(ncols)] for r in range(first, first + nrows)]


def expected(col, nrows=3):
    return [['r%dc%d' % (r, col), r] for r in range(1, nrows + 1)]


def variants(names, col, direct_ok=True, expression=False):
    """query spellings that must all denote column `col`"""
    nm = names[col]
    out = [('dq', 'a[%s]' % qast.lit(nm, '"')), ('sq', 'a[%s]' % qast.lit(nm, "'"))]
    if expression:
        # in expression position (not as UPDATE target / EXCEPT column / JOIN key, which are looked up textually) the subscript is an ordinary
        # expression of the host language: white space or parentheses around the literal change nothing
        out.append(('dq-spaced', 'a[ %s ]' % qast.lit(nm, '"')) if len(nm) % 2 else ('sq-paren', 'a[(%s)]' % qast.lit(nm, "'")))
    if qast.attr_safe(nm):
        out.append(('attr', 'a.%s' % nm))
        if expression:
            # the attribute spelling only inside an f-string, under every prefix the host language allows (the field is a string: the f-string is the field)
            out.append(('fstr-attr', ['f"{a.%s}"', 'F"{a.%s}"', "rf'{a.%s}'", "fr'{a.%s}'", 'Rf"""{a.%s}"""', "F'{a.%s}'"][len(nm) % 6] % nm))
    return out


def check_rows(res, what, case, rows, err, exp, mech):
    if err is not None:
        res.violation('py:%s-raises' % mech, '%s raised %s ; expected %r' % (what, err, exp), case)
        return False
    norm = [[str(v) if not isinstance(v, int) else v for v in r] for r in rows]
    if norm != exp:
        res.violation('py:%s-wrong-column' % mech, '%s -> %r ; expected %r' % (what, rows, exp), case)
        return False
    return True


def flush_js(res, node, batch):
    outs = node.call({'op': 'query_batch', 'cases': [b[3] for b in batch]})['results']
    for (names, col, style, req), o in zip(batch, outs):
        res.evaluations += 1
        res.count('js_lookups')
        res.count('js_lookups:' + style)
        case = {'leg': 'js-list', 'names': names, 'col': col, 'query_text': req['query']}
        err = o['error'] and '%s: %s' % (o['error']['cls'], o['error']['msg'][:100])
        if style == 'direct-shared':
            res.count('js_direct_mode_shared_name_runs')
            if err is None and o['out'] != req['_expected']:
                res.violation('js:direct-shared-name-bound-silently', 'JS query_table(%r, headers %r / %r, normalize_column_names=false) -> %r ; the shared bare name must be refused or denote the input table\'s column: %r' % (
                    req['query'], names, req['join_cols'], o['out'], req['_expected']), dict(case, leg='js-direct-shared', b_names=req['join_cols']))
            continue
        check_rows(res, 'JS query_table(%r, header %r)' % (req['query'], names), case, o['out'], err, expected(col), 'js-%s' % style)
    del batch[:]


def leg_lists(ns, res, spec):
    rng = random.Random(spec['seed'] * 1299709 + spec['i'])
    from ..js import bridge
    node = bridge.Node.start()
    if node is None:
        res.notes.append('js_leg: unavailable (no node)')
    js_batch = []
    try:
        _leg_lists(ns, res, spec, rng, node, js_batch)
        if node is not None and js_batch:
            flush_js(res, node, js_batch)
    finally:
        if node is not None:
            node.close()


def _leg_lists(ns, res, spec, rng, node, js_batch):
    for n in range(spec['n']):
        names = gen_header(rng, allow_newline=True, allow_cr=True)      # column-name lists can hold a carriage return (a CSV header line cannot)
        A = unique_table(len(names))
        res.count('headers')
        for col in range(len(names)):
            for style, var in variants(names, col, expression=True):
                mod = rng.choice(['', '', ' WITH (header)', ' with (noheader)'])
                qtext = 'select %s, NR%s' % (var, mod)
                r = boundary.run_query_table(ns, qtext, [list(x) for x in A], None, list(names))
                res.evaluations += 1
                res.count('list_lookups')
                res.count('list_lookups:' + style)
                res.nontrivial('list', repr(names), col, style)
                case = {'leg': 'list', 'names': names, 'col': col, 'query_text': qtext}
                check_rows(res, 'query_table(%r, header %r)' % (qtext, names), case, r['rows'], r['error'] and '%s: %s' % (r['error'], r['error_msg']), expected(col), 'list-%s' % style)
            # Python only: the name variable used nowhere but inside the replacement field of an f-string (the variable map scans literals too)
            if qast.attr_safe(names[col]) and col % 2 == n % 2:
                qtext = 'select f"{a.%s}", NR' % names[col]
                r = boundary.run_query_table(ns, qtext, [list(x) for x in A], None, list(names))
                res.evaluations += 1
                res.count('list_lookups:fstring')
                check_rows(res, 'query_table(%r, header %r)' % (qtext, names), {'leg': 'list', 'names': names, 'col': col, 'query_text': qtext}, r['rows'], r['error'] and '%s: %s' % (r['error'], r['error_msg']), expected(col), 'list-fstring')
        # names as UPDATE targets, EXCEPT columns and JOIN keys (these are resolved through the textual variable map)
        col = rng.randrange(len(names))
        for style, var in variants(names, col):
            rows0 = unique_table(len(names))
            exp_upd = [[('Z' if c == col else v) for c, v in enumerate(r)] for r in rows0]
            exp_exc = [[v for c, v in enumerate(r) if c != col] for r in rows0]
            B = [[r[col], 'J%d' % i] for i, r in enumerate(rows0)]
            for kind, qtext, exp, jt in (('update', "update %s = 'Z'" % var, exp_upd, None), ('except', 'select * except %s' % var, exp_exc, None),
                                         ('joinkey', 'select NR, b2 join b on %s == b1' % var, [[i + 1, 'J%d' % i] for i in range(len(rows0))], B)):
                r = boundary.run_query_table(ns, qtext, [list(x) for x in rows0], jt, list(names), ['jk', 'jv'] if jt is not None else None)
                res.evaluations += 1
                res.count('named_target_runs')
                res.count('named_target:' + kind)
                got = r['rows']
                if r['error'] is not None or got != exp:
                    res.violation('py:named-%s-wrong-column:%s' % (kind, style), 'query_table(%r, header %r) -> %r error %s ; expected %r' % (qtext, names, got, r['error'] and r['error_msg'], exp), {'leg': 'named', 'names': names, 'col': col, 'query_text': qtext})
        # direct mode: the bare name denotes the column
        idents = [nm for nm in names if qast.is_identifier(nm) and nm not in RESERVED_DIRECT and not re.fullmatch(r'[ab][0-9]+', nm)]
        if len(idents) == len(names):
            ok_direct = not any(a != b and a in b for a in names for b in names)   # a name that is a substring of another one is still fine, only counted
            for col, nm in enumerate(names):
                qtext = 'select %s, NR' % nm
                r = boundary.run_query_table(ns, qtext, [list(x) for x in A], None, list(names), None, False)
                res.evaluations += 1
                res.count('direct_mode_lookups')
                case = {'leg': 'direct', 'names': names, 'col': col, 'query_text': qtext}
                check_rows(res, 'query_table(%r, header %r, normalize_column_names=False)' % (qtext, names), case, r['rows'], r['error'] and '%s: %s' % (r['error'], r['error_msg']), expected(col), 'direct')
                # direct mode with a join: bare names of both tables (no name may be a substring of a name of the other table, the ambiguity test is textual)
                if not any(x in y or y in x for x in names for y in ('jkey9', 'jval9')):
                    B = [[A[r][col], 'J%d' % r] for r in range(len(A))]
                    qj = 'select NR, jval9 join b on %s == jkey9' % nm
                    rj = boundary.run_query_table(ns, qj, [list(x) for x in A], B, list(names), ['jkey9', 'jval9'], False)
                    res.evaluations += 1
                    res.count('direct_mode_join_lookups')
                    if rj['error'] is not None or rj['rows'] != [[i + 1, 'J%d' % i] for i in range(len(A))]:
                        res.violation('py:direct-join-wrong-column', 'query_table(%r, headers %r / jkey9, jval9, normalize_column_names=False) -> %r error %r' % (qj, names, rj['rows'], rj['error_msg']), {'leg': 'direct-join', 'names': names, 'col': col, 'query_text': qj})
            # direct mode with a join table that has a column of the SAME name: the bare name is refused wherever it stands in the query text (first, middle, very last
            # token, before a semicolon or a line break) - or denotes the input table's column; it never silently denotes another column
            if len(names) >= 2 and not any(x in y or y in x for x in names for y in ('jkey9', 'jval9')):
                for col, nm in enumerate(names):
                    oc = (col + 1) % len(names)
                    n_a = len(A)
                    B2 = [[A[r][oc], 'BAD%d' % (n_a - r), 'J%d' % r] for r in range(n_a)]          # the join table's column of that name sorts the other way round
                    bn2 = ['jkey9', nm, 'jval9']
                    asc = [[i + 1, 'J%d' % i] for i in range(n_a)]
                    one = [[2, 'J1']] if n_a > 1 else [[1, 'J0']]
                    lit = qast.lit(A[1 if n_a > 1 else 0][col], '"')
                    head = 'select NR, jval9 join b on %s == jkey9 ' % names[oc]
                    for qs, exp2 in ((head + 'order by %s' % nm, asc), (head + 'order by %s desc' % nm, asc[::-1]), (head + 'where %s == %s' % (lit, nm), one), (head + 'where %s == %s;' % (lit, nm), one),
                                     (head + 'where %s == %s\n' % (lit, nm), one), (head + 'where NR > 0 order by %s ' % nm, asc), ('select NR, jval9, %s join b on %s == jkey9' % (nm, names[oc]), [[i + 1, 'J%d' % i, A[i][col]] for i in range(n_a)]),
                                     ('select %s join b on %s == jkey9' % (nm, names[oc]), [[A[i][col]] for i in range(n_a)])):
                        rs = boundary.run_query_table(ns, qs, [list(x) for x in A], [list(x) for x in B2], list(names), list(bn2), False)
                        res.evaluations += 1
                        res.count('direct_mode_shared_name_runs')
                        if rs['error'] is not None:
                            res.count('direct_mode_shared_name_refusals')
                        elif rs['rows'] != exp2:
                            res.violation('py:direct-shared-name-bound-silently', 'query_table(%r, headers %r / %r, normalize_column_names=False) -> %r ; the shared bare name must be refused or denote the input table\'s column: %r' % (
                                qs, names, bn2, rs['rows'], exp2), {'leg': 'direct-shared', 'names': names, 'b_names': bn2, 'col': col, 'query_text': qs})
                        if node is not None:
                            js_batch.append((names, col, 'direct-shared', {'query': qs.replace(' and ', ' && '), 'input': [list(x) for x in A], 'join': [list(x) for x in B2], 'input_cols': list(names), 'join_cols': list(bn2), 'normalize': False, '_expected': exp2}))
        # direct mode, columns named by words that look reserved but are ordinary identifiers in the code the engines generate (Java-style type and modifier
        # names, old "future reserved" words): the bare name denotes the column, in both ports
        if n % 5 == 2:
            wnames = rng.sample(DIRECT_WORD_NAMES, rng.randrange(2, 5))
            WA = unique_table(len(wnames))
            for col, nm in enumerate(wnames):
                qtext = 'select %s, NR' % nm
                r = boundary.run_query_table(ns, qtext, [list(x) for x in WA], None, list(wnames), None, False)
                res.evaluations += 1
                res.count('direct_mode_word_name_lookups')
                res.nontrivial('direct-words', repr(wnames), col)
                check_rows(res, 'query_table(%r, header %r, normalize_column_names=False)' % (qtext, wnames), {'leg': 'direct', 'names': wnames, 'col': col, 'query_text': qtext}, r['rows'], r['error'] and '%s: %s' % (r['error'], r['error_msg']), expected(col), 'direct-word-name')
                if node is not None:
                    js_batch.append((wnames, col, 'direct-word', {'query': qtext, 'input': [list(x) for x in WA], 'join': None, 'input_cols': list(wnames), 'join_cols': None, 'normalize': False}))
        # direct mode, columns NAMED like positional variables of their own table (a3 as the name of the first column, b2 as the name of the join
        # table's third): the header decides - the bare name denotes the column carrying it, not the column at that number
        if n % 4 == 1:
            w = rng.randrange(2, 5)
            pnames = ['a%d' % k for k in rng.sample(range(1, w + 2), w)]
            if rng.random() < 0.4:
                pnames[rng.randrange(w)] = rng.choice(['city', 'k', 'v9'])
            PA = unique_table(w)
            for col, nm in enumerate(pnames):
                qtext = 'select %s, NR' % nm
                r = boundary.run_query_table(ns, qtext, [list(x) for x in PA], None, list(pnames), None, False)
                res.evaluations += 1
                res.count('direct_mode_positional_name_lookups')
                res.nontrivial('direct-positional', repr(pnames), col)
                check_rows(res, 'query_table(%r, header %r, normalize_column_names=False)' % (qtext, pnames), {'leg': 'direct', 'names': pnames, 'col': col, 'query_text': qtext}, r['rows'], r['error'] and '%s: %s' % (r['error'], r['error_msg']), expected(col), 'direct-positional-name')
            bnames = ['jkey9'] + ['b%d' % k for k in rng.sample(range(1, 5), 2)]
            PB = [[PA[r][0], 'X%d' % r, 'Y%d' % r] for r in range(len(PA))]
            for bc in (1, 2):
                qj = 'select NR, %s join b on %s == jkey9' % (bnames[bc], pnames[0])
                rj = boundary.run_query_table(ns, qj, [list(x) for x in PA], [list(x) for x in PB], list(pnames), list(bnames), False)
                res.evaluations += 1
                res.count('direct_mode_positional_name_lookups')
                expj = [[i + 1, '%s%d' % ('X' if bc == 1 else 'Y', i)] for i in range(len(PA))]
                if rj['error'] is not None or rj['rows'] != expj:
                    res.violation('py:direct-positional-name-join-wrong-column', 'query_table(%r, headers %r / %r, normalize_column_names=False) -> %r error %r ; expected %r' % (qj, pnames, bnames, rj['rows'], rj['error_msg'], expj), {'leg': 'direct-join', 'names': pnames, 'b_names': bnames, 'query_text': qj})
        # JS twin: a["name"], a['name'], a[`name`], a.name on the JS engine
        if node is not None and not any('\x00' in x for x in names):
            for col in range(len(names)):
                nm = names[col]
                vs = [('dq', 'a[%s]' % qast.lit(nm, '"')), ('sq', 'a[%s]' % qast.lit(nm, "'")), ('bt', 'a[%s]' % qast.lit(nm, '`').replace('${', '\\${'))]
                if qast.attr_safe(nm) or nm == '__proto__':
                    # (a column may be called __proto__: a.__proto__ is then that column, like any other name)
                    vs.append(('attr', 'a.%s' % nm))
                for style, var in vs:
                    js_batch.append((names, col, style, {'query': 'select %s, NR' % var, 'input': [list(x) for x in A], 'join': None, 'input_cols': list(names), 'join_cols': None}))
            if len(js_batch) >= 300:
                flush_js(res, node, js_batch)
        if n % 199 == 0:
            res.sample({'leg': 'list', 'names': names, 'queries': ['select %s, NR' % v for _s, v in variants(names, 0)]})


def leg_pandas_sqlite(ns, res, spec):
    import pandas as pd
    rng = random.Random(spec['seed'] * 15485917 + spec['i'])
    d = tempfile.mkdtemp(prefix='rv-c09-')
    try:
        for n in range(spec['n']):
            names = gen_header(rng, allow_newline=True, allow_cr=True)
            A = unique_table(len(names))
            # pandas
            df = pd.DataFrame(A, columns=names)
            if n % 5 == 4:
                # integer column labels (years, codes): their decimal text is the column name
                labels = rng.sample([2019, 2020, 2021, 7, 0, 15, -3, 100], len(names))
                names = [str(x) for x in labels]
                df = pd.DataFrame(A, columns=labels)
                res.count('pandas_integer_label_frames')
            if n % 4 == 1:
                # the frame's index carries a name (set_index / groupby results): index levels are not columns, the names still bind to the data columns
                df.index = pd.Index(['i%d' % i for i in range(len(A))], name=rng.choice(['key', names[0], 'NR']))
                res.count('pandas_named_index_frames')
            elif n % 4 == 3:
                nl = rng.choice([2, 3])
                df.index = pd.MultiIndex.from_tuples([tuple('l%d_%d' % (l, i) for l in range(nl)) for i in range(len(A))], names=['lvl%d' % l for l in range(nl)])
                res.count('pandas_named_multiindex_frames')
            for col in range(len(names)):
                for style, var in variants(names, col, expression=True):
                    qtext = 'select %s, NR%s' % (var, rng.choice(['', ' WITH (header)']))
                    err = None
                    rows = None
                    try:
                        out = ns.rbql.query_pandas_dataframe(qtext, df, [])
                        rows = [[v if not hasattr(v, 'item') else v.item() for v in r] for r in out.values.tolist()]
                    except Exception as e:
                        err = '%s: %s' % (util.error_class(e), str(e)[:120])
                    res.evaluations += 1
                    res.count('pandas_lookups')
                    res.nontrivial('pd', repr(names), col, style)
                    check_rows(res, 'query_pandas_dataframe(%r, columns %r)' % (qtext, names), {'leg': 'pandas', 'names': names, 'col': col, 'query_text': qtext}, rows, err, expected(col), 'pandas-%s' % style)
            # sqlite: column names quoted with "..." ; sqlite compares column names case-insensitively and rejects NUL
            low = [x.lower() for x in names]
            if len(set(low)) != len(low) or any('\x00' in x for x in names):
                continue
            db = os.path.join(d, 'db_%d.sqlite' % n)
            conn = sqlite3.connect(db)
            # table shapes: plain; with a GENERATED column (absent from PRAGMA table_info, present in SELECT *); read through a VIEW
            shape = ['plain', 'generated', 'view'][n % 3]
            gen_col = rng.randrange(len(names)) if shape == 'generated' and len(names) > 1 else None
            other = None if gen_col is None else rng.choice([j for j in range(len(names)) if j != gen_col])
            table_name = 'v' if shape == 'view' else 't'
            try:
                defs = []
                for j, x in enumerate(names):
                    qn = '"%s"' % x.replace('"', '""')
                    if j == gen_col:
                        # the row digit is taken from a stored column ('r<row>c<col>'); rowid is not allowed in a generated column
                        defs.append("%s TEXT GENERATED ALWAYS AS ('r' || substr(\"%s\", 2, 1) || 'c%d') %s" % (qn, names[other].replace('"', '""'), j, rng.choice(['VIRTUAL', 'STORED'])))
                    else:
                        defs.append(qn + ' TEXT')
                conn.execute('CREATE TABLE t (%s)' % ', '.join(defs))
                stored = [j for j in range(len(names)) if j != gen_col]
                if stored:
                    conn.executemany('INSERT INTO t (%s) VALUES (%s)' % (', '.join('"%s"' % names[j].replace('"', '""') for j in stored), ','.join('?' * len(stored))), [[r[j] for j in stored] for r in A])
                else:
                    raise sqlite3.Error('a table needs a stored column')
                if shape == 'view':
                    conn.execute('CREATE VIEW v AS SELECT * FROM t')
                conn.commit()
                res.count('sqlite_tables:' + (shape if shape != 'generated' or gen_col is not None else 'plain'))
            except sqlite3.Error:
                conn.close()
                continue
            for col in range(len(names)):
                for style, var in variants(names, col, expression=True):
                    qtext = 'select %s, NR%s' % (var, rng.choice(['', ' WITH (noheader)']))
                    outp = os.path.join(d, 'out.csv')
                    err = None
                    rows = None
                    try:
                        ns.sqlite.query_sqlite_to_csv(qtext, conn, table_name, outp, ',', 'quoted_rfc', 'utf-8', [])
                        with open(outp, encoding='utf-8', newline='') as f:
                            rr = refcsv.read_text(f.read(), ',', 'quoted_rfc', 'utf-8', True)
                        rows = [[r[0], int(r[1])] for r in rr.records]
                    except Exception as e:
                        err = '%s: %s' % (util.error_class(e), str(e)[:120])
                    res.evaluations += 1
                    res.count('sqlite_lookups')
                    res.nontrivial('sqlite', repr(names), col, style)
                    check_rows(res, 'query_sqlite_to_csv(%r, columns %r)' % (qtext, names), {'leg': 'sqlite', 'names': names, 'col': col, 'query_text': qtext}, rows, err, expected(col), 'sqlite-%s' % style)
            conn.close()
            os.unlink(db)
        res.sample({'leg': 'pandas+sqlite', 'names': names})
    finally:
        shutil.rmtree(d, ignore_errors=True)


def write_csv(path, rows, policy='quoted'):
    text = refcsv.write_table(rows, ',', policy, '\n')
    with open(path, 'w', encoding='utf-8', newline='') as f:
        f.write(text)
    return text


def leg_csv(ns, res, spec):
    rng = random.Random(spec['seed'] * 32452841 + spec['i'])
    d = tempfile.mkdtemp(prefix='rv-c09-')
    try:
        for n in range(spec['n']):
            policy = rng.choice(['quoted', 'quoted_rfc'])
            names = gen_header(rng, allow_newline=(policy == 'quoted_rfc'))
            rows = [names] + unique_table(len(names))
            if not refcsv.representable(rows, ',', policy, 'utf-8'):
                res.count('csv_headers_not_representable')
                continue
            inp = os.path.join(d, 'in_%d.csv' % n)
            write_csv(inp, rows, policy)
            outp = os.path.join(d, 'out_%d.csv' % n)
            for col in range(len(names)):
                for style, var in variants(names, col, expression=True):
                    flag, mod = rng.choice([(True, ''), (True, ''), (False, ' WITH (header)'), (True, ' with (header)')])
                    qtext = 'select %s, NR%s' % (var, mod)
                    err = None
                    rws = None
                    try:
                        ns.rbql.query_csv(qtext, inp, ',', policy, outp, ',', 'quoted_rfc', 'utf-8', [], flag)
                        with open(outp, encoding='utf-8', newline='') as f:
                            rr = refcsv.read_text(f.read(), ',', 'quoted_rfc', 'utf-8', True)
                        rws = [[r[0], int(r[1])] for r in rr.records]
                    except Exception as e:
                        err = '%s: %s' % (util.error_class(e), str(e)[:120])
                    res.evaluations += 1
                    res.count('csv_lookups')
                    res.nontrivial('csv', repr(names), col, style, flag, mod)
                    check_rows(res, 'query_csv(%r, with_headers=%s, header %r)' % (qtext, flag, names), {'leg': 'csv', 'names': names, 'col': col, 'query_text': qtext, 'flag': flag}, rws, err, expected(col), 'csv-%s' % style)
            os.unlink(inp)
            if os.path.exists(outp):
                os.unlink(outp)
        res.sample({'leg': 'csv', 'names': names})
    finally:
        shutil.rmtree(d, ignore_errors=True)


def with_expectation(effective_header):
    """input lines k0..k2 / join lines k0..k2: which rows the query `select a1, NR, b2, bNR join ... on a1 == b1` must produce."""
    if effective_header:
        return [['k1', 1, 'y1', 1], ['k2', 2, 'y2', 2]]
    return [['k0', 1, 'y0', 1], ['k1', 2, 'y1', 2], ['k2', 3, 'y2', 3]]


def leg_with(ns, res, spec):
    """WITH (header) / WITH (noheader) overrides the caller's flag for both the input and the join table (CSV)."""
    d = tempfile.mkdtemp(prefix='rv-c09-')
    try:
        inp = os.path.join(d, 'in_1.csv')
        jn = os.path.join(d, 'jn_1.csv')
        write_csv(inp, [['k0', 'x0'], ['k1', 'x1'], ['k2', 'x2']])
        write_csv(jn, [['k0', 'y0'], ['k1', 'y1'], ['k2', 'y2']])
        outp = os.path.join(d, 'out.csv')
        for flag in (True, False):
            for mod in ('', 'header', 'noheader', 'headers', 'noheaders'):
                for kw in ('WITH', 'with', 'With'):
                    for join in (False, True):
                        eff = flag if mod == '' else mod.startswith('header')
                        q = ('select a1, NR, b2, bNR join jn_1.csv on a1 == b1' if join else 'select a1, NR') + ((' %s (%s)' % (kw, mod)) if mod else '')
                        exp = with_expectation(eff) if join else [[r[0], r[1]] for r in with_expectation(eff)]
                        err = None
                        rws = None
                        try:
                            ns.rbql.query_csv(q, inp, ',', 'quoted', outp, ',', 'quoted', 'utf-8', [], flag)
                            with open(outp, encoding='utf-8', newline='') as f:
                                rr = refcsv.read_text(f.read(), ',', 'quoted', 'utf-8', eff)
                            rws = [[int(v) if v.isdigit() else v for v in r] for r in rr.records]
                            hdr = rr.header
                        except Exception as e:
                            err = '%s: %s' % (util.error_class(e), str(e)[:120])
                        res.evaluations += 1
                        res.count('with_modifier_runs')
                        res.distinct_disjoint += 1
                        case = {'leg': 'with', 'query_text': q, 'flag': flag, 'modifier': mod, 'join': join}
                        if err is not None or rws != exp:
                            res.violation('py:with-modifier-not-applied:%s' % ('join' if join else 'input'), '[py] query_csv(%r, with_headers=%s): rows %r error %r ; expected %r (effective header = %s)' % (q, flag, rws, err, exp, eff), case)
                        elif eff and hdr is not None and 'k0' not in hdr[0]:
                            res.violation('py:header-line-lost', '[py] %r: output header %r does not carry the input header' % (q, hdr), case)
        # named columns of BOTH tables under every way of switching the header on (the join table's names must follow the modifier too)
        for flag, mod in ((True, ''), (False, 'header'), (True, 'header'), (False, 'headers')):
            for q0 in ('select a.k0, b.y0, bNR join jn_1.csv on a.k0 == b.k0', 'select a["x0"], b["y0"] join jn_1.csv on a1 == b1', 'select a1, b2 join jn_1.csv on a["k0"] == b["k0"]'):
                q = q0 + ((' WITH (%s)' % mod) if mod else '')
                exp = {0: [['k1', 'y1', 1], ['k2', 'y2', 2]], 1: [['x1', 'y1'], ['x2', 'y2']], 2: [['k1', 'y1'], ['k2', 'y2']]}[('select a.k0', 'select a["x0"]', 'select a1').index(q0[:len('select a.k0')] if q0.startswith('select a.k0') else (q0[:len('select a["x0"]')] if q0.startswith('select a["x0"]') else 'select a1'))]
                err = None
                rws = None
                try:
                    ns.rbql.query_csv(q, inp, ',', 'quoted', outp, ',', 'quoted', 'utf-8', [], flag)
                    with open(outp, encoding='utf-8', newline='') as f:
                        rr = refcsv.read_text(f.read(), ',', 'quoted', 'utf-8', True)
                    rws = [[int(v) if v.isdigit() else v for v in r] for r in rr.records]
                except Exception as e:
                    err = '%s: %s' % (util.error_class(e), str(e)[:120])
                res.evaluations += 1
                res.count('with_modifier_named_join_runs')
                res.distinct_disjoint += 1
                if err is not None or rws != exp:
                    res.violation('py:with-modifier-named-join-columns', '[py] query_csv(%r, with_headers=%s): rows %r error %r ; expected %r' % (q, flag, rws, err, exp), {'leg': 'with', 'query_text': q, 'flag': flag, 'modifier': mod, 'join': True})
        # header line is never data: attribute variables taken from the header line, first data record has NR 1
        for q, exp in (('select a.k0, a["x0"], NR', [['k1', 'x1', 1], ['k2', 'x2', 2]]), ('select NR, a.x0 where NR == 1', [[1, 'x1']])):
            ns.rbql.query_csv(q, inp, ',', 'quoted', outp, ',', 'quoted', 'utf-8', [], True)
            with open(outp, encoding='utf-8', newline='') as f:
                rr = refcsv.read_text(f.read(), ',', 'quoted', 'utf-8', True)
            rws = [[int(v) if v.isdigit() else v for v in r] for r in rr.records]
            res.evaluations += 1
            res.count('header_never_data_checks')
            if rws != exp:
                res.violation('py:header-line-processed-as-record', '[py] %r with header: rows %r, expected %r' % (q, rws, exp), {'leg': 'with', 'query_text': q})
        # the input table named by the query itself (FROM ... resolved by the caller's registry, no ready input iterator): the modifier overrides the
        # registry's flag for it just as well, with and without a JOIN
        for flag in (True, False):
            for mod in ('', 'header', 'noheader'):
                for join in (False, True):
                    eff = flag if mod == '' else mod.startswith('header')
                    q = ('select a1, NR, b2, bNR from in_1.csv join jn_1.csv on a1 == b1' if join else 'select a1, NR from in_1.csv') + ((' WITH (%s)' % mod) if mod else '')
                    exp = with_expectation(eff) if join else [[r[0], r[1]] for r in with_expectation(eff)]
                    err = rws = None
                    reg = None
                    try:
                        reg = ns.csv.FileSystemCSVRegistry(d, ',', 'quoted', 'utf-8', flag, None)
                        buf = io.StringIO(newline='')
                        ns.rbql.query(q, None, ns.csv.CSVWriter(buf, False, None, ',', 'quoted'), [], reg)
                        rr = refcsv.read_text(buf.getvalue(), ',', 'quoted', None, eff)
                        rws = [[int(v) if v.isdigit() else v for v in r] for r in rr.records]
                    except Exception as e:
                        err = '%s: %s' % (util.error_class(e), str(e)[:120])
                    finally:
                        try:
                            if reg is not None:
                                reg.finish()
                        except Exception:
                            pass
                    res.evaluations += 1
                    res.count('with_modifier_from_clause_runs')
                    res.distinct_disjoint += 1
                    if err is not None or rws != exp:
                        res.violation('py:with-modifier-not-applied:from-clause', '[py] rbql.query(%r, None, ..., FileSystemCSVRegistry(has_header=%s)): rows %r error %r ; expected %r (effective header = %s)' % (q, flag, rws, err, exp, eff),
                                      {'leg': 'with', 'query_text': q, 'flag': flag, 'modifier': mod, 'join': join, 'from_clause': True})
        # the command line
        e = dict(os.environ, PYTHONPATH=env.PY_PKG_DIR, PYTHONDONTWRITEBYTECODE='1', HOME=d)
        for flag, mod in ((True, ''), (False, 'header'), (True, 'noheader'), (False, '')):
            eff = flag if mod == '' else mod.startswith('header')
            q = 'select a1, NR, b2, bNR join jn_1.csv on a1 == b1' + ((' with (%s)' % mod) if mod else '')
            cmd = [sys.executable, '-W', 'ignore', '-m', 'rbql', '--input', inp, '--delim', ',', '--policy', 'quoted', '--query', q] + (['--with-headers'] if flag else [])
            p = subprocess.run(cmd, env=e, cwd=d, stdout=subprocess.PIPE, stderr=subprocess.PIPE, timeout=120)
            rr = refcsv.read_text(p.stdout.decode('utf-8'), ',', 'quoted', 'utf-8', eff)
            rws = [[int(v) if v.isdigit() else v for v in r] for r in rr.records]
            res.evaluations += 1
            res.count('cli_with_modifier_runs')
            if p.returncode != 0 or rws != with_expectation(eff):
                res.violation('py:cli-with-modifier', '[py] CLI %r with_headers=%s: exit %d rows %r stderr %r ; expected %r' % (q, flag, p.returncode, rws, p.stderr.decode()[-200:], with_expectation(eff)), {'leg': 'with-cli', 'query_text': q, 'flag': flag})
        res.sample({'leg': 'with', 'flags': [True, False], 'modifiers': ['', 'header', 'noheader', 'headers', 'noheaders'], 'tables': ['input', 'input+join']})
    finally:
        shutil.rmtree(d, ignore_errors=True)


def plan(tier, seed):
    k = NSHARDS[tier]
    specs = [{'kind': 'lists', 'i': i, 'n': HEADERS[tier] // k} for i in range(k)]
    specs += [{'kind': 'pdsql', 'i': i, 'n': HEADERS[tier] // 10} for i in range(2)]
    specs += [{'kind': 'csv', 'i': i, 'n': HEADERS[tier] // 10} for i in range(2)]
    specs.append({'kind': 'with'})
    return specs


def run_shard(spec, res):
    ns = env.import_rbql()
    {'lists': leg_lists, 'pdsql': leg_pandas_sqlite, 'csv': leg_csv, 'with': leg_with}[spec['kind']](ns, res, spec)


def summarize(tier, seed, m):
    return {
        'rule': 'random headers of 1-5 distinct names over printable ASCII incl. both quotes, backslash, backtick, brackets, #, =, %%, spaces, tab, newline, non-ASCII (and prefix / suffix / case variants of each other; names containing an a.ident / b.ident token excluded as quantified) over tables whose cell (r, c) is the unique token r{r}c{c}; for every column and every spelling (a["..."], a[\'...\'], a.name when identifier-safe, bare name in direct mode - also for columns named like positional variables of their own table, a3 as the name of the first column -) the query `select <var>, NR` must return exactly that column and NR = 1.. ; sources: list column names, pandas columns, sqlite columns, CSV header line (query_csv); WITH (header | noheader | headers | noheaders) x caller flag x {input, input + join} on CSV incl. the command line. dataframes whose index carries a name, or is a named two- / three-level MultiIndex, in half of the pandas cases; distinct_nontrivial = distinct (source, header, column, spelling) lookups.',
        'required': ['direct_mode_word_name_lookups', 'js_lookups:direct-word', 'direct_mode_shared_name_runs', 'direct_mode_shared_name_refusals', 'js_direct_mode_shared_name_runs', 'with_modifier_from_clause_runs', 'js_lookups', 'js_lookups:bt', 'named_target:update', 'named_target:except', 'named_target:joinkey', 'list_lookups', 'list_lookups:dq', 'list_lookups:sq', 'list_lookups:attr', 'direct_mode_lookups', 'direct_mode_positional_name_lookups', 'pandas_lookups', 'pandas_integer_label_frames', 'pandas_named_index_frames', 'pandas_named_multiindex_frames', 'sqlite_lookups', 'sqlite_tables:generated', 'sqlite_tables:view', 'csv_lookups', 'with_modifier_runs', 'with_modifier_named_join_runs', 'header_never_data_checks', 'cli_with_modifier_runs'],
        'assumptions': ['a.name only for names that are not Python / JS keywords and do not collide with members of the record object; direct mode only for names that do not shadow the engine\'s own locals (documented limitations)'],
    }


def replay(case, res):
    ns = env.import_rbql()
    if case.get('leg') in ('list', 'direct'):
        names = case['names']
        A = unique_table(len(names))
        r = boundary.run_query_table(ns, case['query_text'], A, None, list(names), None, case['leg'] != 'direct')
        res.evaluations += 1
        check_rows(res, 'replay %r' % case['query_text'], case, r['rows'], r['error'], expected(case['col']), 'replay')
    else:
        res.notes.append('replay: run ./check C09 quick for leg %r' % case.get('leg'))
