"""Sharded runner: budgets, watchdog, evidence, replays, known findings, verdict discipline.

A property module (rv/props/cXX.py) provides

    PROPERTY      'C11'
    TITLE         short text
    LEVEL         'exploration' | 'fault_enumeration'
    plan(tier, seed)            -> list of JSON-able shard specs
    run_shard(spec)             -> dict (see ShardResult)
    summarize(tier, seed, merged) -> dict with at least {'rule': str}; optional 'exhaustive', 'assumptions', 'required' (counter names that must be > 0)
    replay(case)                -> list of violations (optional)

Verdicts are three-valued: exit 0 held on what was observed, exit 1 violated (VIOLATION line + replay file),
exit 2 inconclusive / infrastructure (deciding monitor never reached, worker died, watchdog fired).
"""
import hashlib
import importlib
import json
import os
import shutil
import subprocess
import sys
import tempfile
import time

from . import env

KNOWN_FINDINGS_FILE = os.path.join(env.VERIF_DIR, 'known_findings.json')
EVIDENCE_DIR = os.environ.get('VERIF_EVIDENCE_DIR') or os.path.join(env.VERIF_DIR, 'evidence')
REPLAY_DIR = os.environ.get('VERIF_REPLAY_DIR') or os.path.join(env.VERIF_DIR, 'replays')
MAX_PRINTED = 10
NCPU = int(os.environ.get('VERIF_JOBS', '0')) or min(16, os.cpu_count() or 4)


class ShardResult(object):
    """Accumulator used inside a worker."""

    def __init__(self):
        self.evaluations = 0
        self.hashes = set()          # distinct non-trivial case signatures (64-bit ints)
        self.distinct_disjoint = 0   # distinct non-trivial cases counted by construction (disjoint across shards)
        self.violations = []
        self.samples = []
        self.counters = {}
        self.notes = []
        self.inconclusive = []
        self._vsigs = {}

    def count(self, name, n=1):
        self.counters[name] = self.counters.get(name, 0) + n

    def nontrivial(self, *sig):
        h = hashlib.blake2b(repr(sig).encode('utf-8', 'backslashreplace'), digest_size=8).digest()
        self.hashes.add(int.from_bytes(h, 'big'))

    def sample(self, s, limit=6):
        if len(self.samples) < limit:
            self.samples.append(s)

    def violation(self, sig, what, case, finding=None):
        """sig: mechanism signature (dedupe key); finding: key into known_findings.json when the classifier recognises a listed mechanism."""
        n = self._vsigs.get((sig, finding), 0)
        self._vsigs[(sig, finding)] = n + 1
        if n < 3:
            self.violations.append({'sig': sig, 'what': what, 'case': case, 'finding': finding, 'count': 1})
        else:
            for v in self.violations:
                if v['sig'] == sig and v['finding'] == finding:
                    v['count'] += 1
                    break

    def to_json(self):
        return {
            'evaluations': self.evaluations,
            'hashes': sorted(self.hashes),
            'distinct_disjoint': self.distinct_disjoint,
            'violations': self.violations,
            'samples': self.samples,
            'counters': self.counters,
            'notes': self.notes,
            'inconclusive': self.inconclusive,
        }


def load_prop(prop_id):
    return importlib.import_module('rv.props.%s' % prop_id.lower())


def load_known_findings(prop_id):
    if not os.path.exists(KNOWN_FINDINGS_FILE):
        return {}
    with open(KNOWN_FINDINGS_FILE) as f:
        data = json.load(f)
    res = {}
    for e in data.get('findings', []):
        if e.get('status') == 'known' and prop_id in e.get('properties', [e.get('property')]):
            res[e['key']] = e
    return res


def _run_workers(prop_id, specs, workdir, timeout_s):
    pending = list(enumerate(specs))
    running = {}
    results = [None] * len(specs)
    errors = []
    import signal

    def _on_term(signum, frame):
        raise KeyboardInterrupt()
    try:
        signal.signal(signal.SIGTERM, _on_term)
    except Exception:
        pass
    try:
        _worker_loop(prop_id, pending, running, results, errors, workdir, timeout_s)
    finally:
        for i, (p, t0, op, ep, ef) in list(running.items()):
            _kill_group(p)
    return results, errors


def _worker_loop(prop_id, pending, running, results, errors, workdir, timeout_s):
    while pending or running:
        while pending and len(running) < NCPU:
            i, spec = pending.pop(0)
            sp = os.path.join(workdir, 'spec%d.json' % i)
            op = os.path.join(workdir, 'out%d.json' % i)
            ep = os.path.join(workdir, 'err%d.txt' % i)
            with open(sp, 'w') as f:
                json.dump(spec, f)
            ef = open(ep, 'w')
            p = subprocess.Popen([sys.executable, '-m', 'rv.worker', prop_id, sp, op], stdout=ef, stderr=ef, cwd=env.VERIF_DIR, start_new_session=True)
            running[i] = (p, time.time(), op, ep, ef)
        done = []
        for i, (p, t0, op, ep, ef) in running.items():
            rc = p.poll()
            if rc is None:
                if time.time() - t0 > timeout_s:
                    _kill_group(p)
                    ef.close()
                    errors.append('shard %d: watchdog fired after %ds (inconclusive)\n%s' % (i, timeout_s, _tail(ep)))
                    done.append(i)
                continue
            ef.close()
            try:
                import signal
                os.killpg(p.pid, signal.SIGKILL)   # orphaned children of a finished worker, if any
            except Exception:
                pass
            if rc != 0 or not os.path.exists(op):
                errors.append('shard %d: worker exit %s\n%s' % (i, rc, _tail(ep)))
            else:
                with open(op) as f:
                    results[i] = json.load(f)
                os.unlink(op)
            done.append(i)
        for i in done:
            del running[i]
        if running and not done:
            time.sleep(0.02)


def _kill_group(p):
    # the worker runs in its own session: kill its whole process group (node drivers, CLI children)
    import signal
    try:
        os.killpg(p.pid, signal.SIGKILL)
    except Exception:
        p.kill()
    p.wait()


def _tail(path, n=30):
    try:
        with open(path, errors='replace') as f:
            return ''.join(f.readlines()[-n:])
    except Exception:
        return ''


def merge(results):
    m = {'evaluations': 0, 'hashes': set(), 'distinct_disjoint': 0, 'violations': [], 'samples': [], 'counters': {}, 'notes': [], 'inconclusive': []}
    for r in results:
        if r is None:
            continue
        m['evaluations'] += r['evaluations']
        m['hashes'].update(r['hashes'])
        m['distinct_disjoint'] += r['distinct_disjoint']
        m['violations'].extend(r['violations'])
        for s in r['samples']:
            if len(m['samples']) < 8:
                m['samples'].append(s)
        for k, v in r['counters'].items():
            m['counters'][k] = m['counters'].get(k, 0) + v
        for n in r['notes']:
            if n not in m['notes']:
                m['notes'].append(n)
        m['inconclusive'].extend(r['inconclusive'])
    return m


def write_replay(prop_id, v):
    os.makedirs(REPLAY_DIR, exist_ok=True)
    body = {'property': prop_id, 'sig': v['sig'], 'what': v['what'], 'case': v['case']}
    h = hashlib.sha1(json.dumps(body, sort_keys=True, default=repr).encode()).hexdigest()[:12]
    path = os.path.join(REPLAY_DIR, '%s-%s.json' % (prop_id, h))
    with open(path, 'w') as f:
        json.dump(body, f, indent=1, sort_keys=True, default=repr)
    return path


def run(prop_id, tier, seed):
    t0 = time.time()
    mod = load_prop(prop_id)
    ev_path = os.path.join(EVIDENCE_DIR, '%s.json' % prop_id)
    try:
        env.import_rbql()
    except Exception as e:
        print('INFRA: %s' % e, file=sys.stderr)
        return 2
    specs = mod.plan(tier, seed)
    for i, s in enumerate(specs):
        s.setdefault('tier', tier)
        s.setdefault('seed', seed)
        s.setdefault('shard', i)
    timeout_s = getattr(mod, 'SHARD_TIMEOUT', {}).get(tier, 900 if tier == 'quick' else 7200)
    workdir = tempfile.mkdtemp(prefix='rv-%s-' % prop_id)
    try:
        results, errors = _run_workers(prop_id, specs, workdir, timeout_s)
    finally:
        shutil.rmtree(workdir, ignore_errors=True)
    m = merge(results)
    summ = mod.summarize(tier, seed, m)
    known = load_known_findings(prop_id)

    # classify violations
    by_key = {}
    unlisted = {}
    for v in m['violations']:
        if v.get('finding') and v['finding'] in known:
            e = by_key.setdefault(v['finding'], {'count': 0, 'example': v})
            e['count'] += v['count']
        else:
            sig = v['sig'] if not v.get('finding') else '%s[%s]' % (v['sig'], v['finding'])
            e = unlisted.setdefault(sig, {'count': 0, 'example': v})
            e['count'] += v['count']

    inconclusive = list(m['inconclusive']) + errors
    for name in summ.get('required', []):
        if m['counters'].get(name, 0) <= 0:
            inconclusive.append('deciding monitor/counter "%s" was never reached' % name)
    if m['evaluations'] <= 0:
        inconclusive.append('no case was evaluated')

    distinct = len(m['hashes']) + m['distinct_disjoint']
    wall = time.time() - t0
    coverage = {
        'evaluations': int(m['evaluations']),
        'distinct_nontrivial': int(distinct),
        'rule': summ['rule'],
        'samples': m['samples'] or ['(no sample recorded)'],
        'exhaustive': bool(summ.get('exhaustive', False)),
        'monitor_events': dict(sorted(m['counters'].items())),
        'shards': len(specs),
        'known_findings_hit': {k: e['count'] for k, e in sorted(by_key.items())},
        'unlisted_violation_mechanisms': {k: e['count'] for k, e in sorted(unlisted.items())},
        'inconclusive': inconclusive,
        'notes': m['notes'] + summ.get('notes', []),
        'repo': env.REPO,
    }
    for k, v in summ.get('extra', {}).items():
        coverage[k] = v
    evidence = {
        'property_id': prop_id,
        'tier': tier,
        'seed': int(seed),
        'level': getattr(mod, 'LEVEL', 'exploration'),
        'coverage': coverage,
        'assumptions': summ.get('assumptions', []),
        'wall_s': round(wall, 2),
        'violations': len(unlisted),
    }
    os.makedirs(EVIDENCE_DIR, exist_ok=True)
    tmp = ev_path + '.tmp'
    with open(tmp, 'w') as f:
        json.dump(evidence, f, indent=1, default=repr)
        f.write('\n')
    os.replace(tmp, ev_path)

    for k, e in sorted(by_key.items()):
        print('KNOWN-FINDING: property=%s key=%s cases=%d %s' % (prop_id, k, e['count'], known[k].get('what', '')))
    rc = 0
    if unlisted:
        rc = 1
        for n, (sig, e) in enumerate(sorted(unlisted.items(), key=lambda kv: -kv[1]['count'])):
            if n >= MAX_PRINTED:
                print('... %d more distinct mechanisms not printed' % (len(unlisted) - MAX_PRINTED))
                break
            path = write_replay(prop_id, e['example'])
            print('VIOLATION property=%s replay=%s' % (prop_id, path))
            print('  mechanism=%s cases=%d: %s' % (sig, e['count'], e['example']['what'][:600]))
    elif inconclusive:
        rc = 2
        for s in inconclusive[:10]:
            print('INCONCLUSIVE: %s' % s, file=sys.stderr)
    print('%s %s seed=%s: evaluations=%d distinct_nontrivial=%d known=%d unlisted=%d wall=%.1fs -> exit %d' % (
        prop_id, tier, seed, m['evaluations'], distinct, sum(e['count'] for e in by_key.values()), len(unlisted), wall, rc))
    return rc


def replay(prop_id, path):
    mod = load_prop(prop_id)
    env.import_rbql()
    with open(path) as f:
        body = json.load(f)
    if not hasattr(mod, 'replay'):
        print('property %s has no replay support' % prop_id, file=sys.stderr)
        return 2
    res = ShardResult()
    mod.replay(body['case'], res)
    known = load_known_findings(prop_id)
    bad = 0
    for v in res.violations:
        if v.get('finding') in known:
            print('KNOWN-FINDING: property=%s key=%s %s' % (prop_id, v['finding'], v['what'][:400]))
        else:
            bad += 1
            print('VIOLATION property=%s replay=%s' % (prop_id, path))
            print('  %s' % v['what'][:2000])
    if not bad:
        print('replay: no violation reproduced (%d evaluations)' % res.evaluations)
    return 1 if bad else 0
