"""./check <Cxx> [quick|thorough] [--replay file]"""
import os
import sys

from . import runner


def main(argv):
    args = [a for a in argv if not a.startswith('--')]
    if not args:
        print(__doc__, file=sys.stderr)
        return 2
    prop_id = args[0].upper()
    if '--replay' in argv:
        path = argv[argv.index('--replay') + 1]
        return runner.replay(prop_id, path)
    tier = args[1] if len(args) > 1 else os.environ.get('VERIF_TIER', 'quick')
    if tier not in ('quick', 'thorough'):
        print('unknown tier %r' % tier, file=sys.stderr)
        return 2
    try:
        seed = int(os.environ.get('VERIF_SEED', '0') or 0)
    except ValueError:
        seed = 0
    return runner.run(prop_id, tier, seed)


if __name__ == '__main__':
    sys.exit(main(sys.argv[1:]))
