"""Structured queries: a query is a data structure (plain dicts / tuples, JSON-able), not text.

Expressions are nested lists  [tag, ...]  from a typed, language-neutral vocabulary (plus a few Python-only forms).
Renderers turn one structured query into Python-flavoured or JavaScript-flavoured RBQL text, in many spellings.

    ['field', table, idx, spelling]      spelling in 'var' (a3) | 'arr' (a[3]) | 'attr' (a.name) | 'dq' (a["name"]) | 'sq' (a['name'])
    ['NR'] ['NF'] ['NU'] ['bNR'] ['aNR']  ['uvar', name]  (a variable defined by the user's init code, see UVARS)  ['uattr', name]  (cfg.name, an attribute of a user object)
    ['str', s, quote]  ['int', n]
    ['concat', e1, e2]  ['len', e]  ['arith', op, e1, e2]  ['cmp', op, e1, e2]
    ['and', e1, e2] ['or', e1, e2] ['not', e]  ['isnone', e]  ['like', e, pattern_literal]
    ['cond', c, e1, e2]  ['list', [e...]]  ['split', e, sep_literal]  ['tostr', e]
    python only:  ['fstr', [text | e ...]]  ['floordiv', e1, e2]  ['int_of', e]  ['upper', e]  ['pymax', e1, e2] ['pymin', e1, e2] ['pysum', [e...]]  ['float_of', e]

Items of a select list:
    {'kind': 'expr', 'expr': e, 'alias': name|None, 'as_kw': 'as'|'AS'}
    {'kind': 'star'|'astar'|'bstar'}
    {'kind': 'unnest', 'expr': list_expr, 'alias':..., 'spelling': 'UNNEST'|'unnest'|'Unnest'}
    {'kind': 'agg', 'func': 'COUNT'.., 'spelling': 'COUNT'|'count'|'Count', 'arg': e|'*', 'alias':...}

Query:
    {'kind': 'select'|'update', 'items': [...], 'distinct': None|'distinct'|'count', 'top': None|n, 'top_kw': 'top'|'limit',
     'where': e|None, 'join': None|{'type': 'JOIN'.., 'table': 'b'|'B', 'pairs': [[lhs, rhs, eq, swapped]...]},
     'order': None|{'keys': [e...], 'desc': bool, 'asc_kw': bool}, 'group': None|[e...], 'except': None|[field...],
     'assign': [[field, e]...], 'with': None|'header'|'noheader'}
"""
import re
import zlib

AGG_FUNCS = ['COUNT', 'MIN', 'MAX', 'SUM', 'AVG', 'VARIANCE', 'MEDIAN', 'ARRAY_AGG', 'ANY_VALUE']
# user functions available to generated queries (defined identically in both init codes); the reference knows what they return
# user variables whose names merely start like a positional column variable (a1c is not a1) or like a built-in one
UVARS = {'a1c': 'A1C', 'b2b_rate': 'RATE', 'a2z': 'Z', 'b10x': 'X', 'xa1': 'XA1', 'NR2': 'N2', 'aNRx': 'ANRX', 'a_1': 'A_1'}
# attributes of an object of the user's (cfg.speed ...): an attribute access whose root is not a table variable is an ordinary expression (one of the
# attribute names is also a likely column name)
UATTRS = {'speed': 'S', 'medium': 'M', 'name': 'N', 'NR': 'R'}
INIT_PY = "def f(*a):\n    return 'F' + str(len(a))\ndef g(*a):\n    return ['G', len(a)]\n" + ''.join('%s = %r\n' % kv for kv in sorted(UVARS.items())) + 'class _Cfg(object):\n' + ''.join('    %s = %r\n' % kv for kv in sorted(UATTRS.items())) + 'cfg = _Cfg()\n'
INIT_JS = "function f(...a) { return 'F' + String(a.length); }\nfunction g(...a) { return ['G', a.length]; }\n" + ''.join('var %s = %r;\n' % kv for kv in sorted(UVARS.items())) + 'var cfg = {' + ', '.join('%s: %r' % kv for kv in sorted(UATTRS.items())) + '};\n'

JOIN_TYPES = ['JOIN', 'INNER JOIN', 'LEFT JOIN', 'LEFT OUTER JOIN', 'STRICT LEFT JOIN']

PY_KEYWORDS = set('False None True and as assert async await break class continue def del elif else except finally for from global if import in is lambda nonlocal not or pass raise return try while with yield'.split())
JS_KEYWORDS = set('break case catch class const continue debugger default delete do else export extends finally for function if import in instanceof new return super switch this throw try typeof var void while with yield let static enum await null true false length constructor prototype'.split())
RBQL_WORDS = set('select update join inner left outer strict order by where limit except with from group top distinct count on and as set asc desc'.split())


def is_identifier(name):
    return re.fullmatch(r'[_a-zA-Z][_a-zA-Z0-9]*', name) is not None


def attr_safe(name):
    """Column names usable as a.name in both languages without colliding with anything the engines define."""
    return is_identifier(name) and name not in PY_KEYWORDS and name not in JS_KEYWORDS and name.lower() not in RBQL_WORDS and name not in ('storage',) and not name.startswith('__')


def lit(s, quote='\'', raw_tab=False):
    """String literal valid (and meaning the same) in Python and JavaScript; also the harness's own minimal escaper for column names."""
    out = []
    for c in s:
        if c == '\\':
            out.append('\\\\')
        elif c == quote:
            out.append('\\' + quote)
        elif c == '\n':
            out.append('\\n')
        elif c == '\r':
            out.append('\\r')
        elif c == '\t':
            out.append('\t' if (raw_tab and len(s) % 2 == 0) else '\\t')      # value literals: half of them carry the tab itself, not its escape sequence
        else:
            out.append(c)
    return quote + ''.join(out) + quote


class Ctx(object):
    """What a renderer needs to know about the tables: header names (or None)."""

    def __init__(self, a_names=None, b_names=None):
        self.a_names = a_names
        self.b_names = b_names

    def names(self, table):
        return self.a_names if table == 'a' else self.b_names


def render_field(f, ctx):
    _tag, table, idx, sp = f
    if sp == 'var':
        return '%s%d' % (table, idx + 1)
    if sp == 'arr':
        return '%s[%d]' % (table, idx + 1)
    name = ctx.names(table)[idx]
    if sp == 'attr':
        return '%s.%s' % (table, name)
    if sp == 'dq':
        return '%s[%s]' % (table, lit(name, '"'))
    if sp == 'sq':
        return '%s[%s]' % (table, lit(name, "'"))
    raise ValueError(sp)


def render_expr(e, ctx, lang):
    """lang: 'py' | 'js'"""
    t = e[0]
    R = lambda x: render_expr(x, ctx, lang)
    if t == 'field':
        return render_field(e, ctx)
    if t in ('NR', 'NF', 'NU', 'bNR', 'aNR'):
        return t
    if t == 'str' and len(e) > 2 and len(e[2]) == 3:
        # Python only: a triple-quoted literal; its own quote character may occur unescaped inside (never three in a row, never at the end)
        if lang != 'py':
            raise ValueError('triple-quoted literal in %s' % lang)
        body = e[1].replace('\\', '\\\\').replace('\n', '\\n').replace('\r', '\\r').replace('\t', '\\t')
        return e[2] + body + e[2]
    if t == 'str':
        quote = e[2] if len(e) > 2 else "'"
        if lang == 'js' and quote in ("'", '"') and zlib.crc32(e[1].encode('utf-8', 'surrogatepass')) % 4 == 0:
            # JS has a third quote: a template literal without interpolation is a string literal like the other two
            return lit(e[1], '`', raw_tab=True).replace('${', '\\${')
        txt = lit(e[1], quote, raw_tab=True)
        if len(e) > 3 and e[3] == 'rawtab':
            txt = txt.replace('\\t', '\t')
        return txt
    if t == 'int':
        return str(e[1])
    if t == 'concat':
        return '(%s + %s)' % (R(e[1]), R(e[2]))
    if t == 'len':
        return 'len(%s)' % R(e[1]) if lang == 'py' else '(%s).length' % R(e[1])
    if t == 'arith':
        return '(%s %s %s)' % (R(e[2]), e[1], R(e[3]))
    if t == 'div':
        return '%s / %s' % (R(e[1]), R(e[2]))      # true division of numbers: the same value in both languages
    if t == 'cmp':
        op = e[1]
        if op in ('===', '!==') and lang == 'py':
            op = op[:2]
        return '(%s %s %s)' % (R(e[2]), op, R(e[3]))
    if t == 'and':
        return '(%s %s %s)' % (R(e[1]), 'and' if lang == 'py' else '&&', R(e[2]))
    if t == 'or':
        return '(%s %s %s)' % (R(e[1]), 'or' if lang == 'py' else '||', R(e[2]))
    if t == 'not':
        return '(not %s)' % R(e[1]) if lang == 'py' else '(!%s)' % R(e[1])
    if t == 'isnone':
        return '(%s is None)' % R(e[1]) if lang == 'py' else '(%s === null)' % R(e[1])
    if t == 'like':
        return 'like(%s, %s)' % (R(e[1]), lit(e[2]))
    if t == 'cond':
        return '(%s if %s else %s)' % (R(e[2]), R(e[1]), R(e[3])) if lang == 'py' else '(%s ? %s : %s)' % (R(e[1]), R(e[2]), R(e[3]))
    if t == 'list':
        return '[%s]' % ', '.join(R(x) for x in e[1])
    if t == 'split':
        return '%s.split(%s)' % (R(e[1]), lit(e[2], raw_tab=True))
    if t == 'tostr':
        return 'str(%s)' % R(e[1]) if lang == 'py' else 'String(%s)' % R(e[1])
    if t == 'call':
        return '%s(%s)' % (e[1], ', '.join(R(x) for x in e[2]))
    if t == 'index':
        return '%s[%d]' % (R(e[1]), e[2])
    if t == 'paren':
        return '(%s)' % R(e[1])
    if t == 'uvar':
        return e[1]
    if t == 'uattr':
        return 'cfg.%s' % e[1]
    if t == 'upper':
        return '%s.upper()' % R(e[1]) if lang == 'py' else '%s.toUpperCase()' % R(e[1])
    if lang == 'py':
        if t == 'int_of':
            return 'int(%s)' % R(e[1])
        if t == 'floordiv':
            return '(%s // %s)' % (R(e[1]), R(e[2]))
        if t == 'float_of':
            return 'float(%s)' % R(e[1])
        if t == 'upper':
            return '%s.upper()' % R(e[1])
        if t == 'pymax':
            return 'max(%s, %s)' % (R(e[1]), R(e[2]))
        if t == 'pymin':
            return 'min(%s, %s)' % (R(e[1]), R(e[2]))
        if t == 'pysum':
            return 'sum([%s])' % ', '.join(R(x) for x in e[1])
        if t == 'pymaxl':
            return 'max([%s])' % ', '.join(R(x) for x in e[1])
        if t == 'fstr':
            # an f-string: literal pieces and replacement fields (column variables referenced nowhere but inside a string literal)
            out = []
            for part in e[1]:
                if isinstance(part, str):
                    out.append(part.replace('{', '{{').replace('}', '}}').replace('\\', '\\\\').replace("'", "\\'").replace('\n', '\\n').replace('\t', '\\t'))
                else:
                    out.append('{' + R(part) + '}')
            return "f'" + ''.join(out) + "'"
        if t == 'pybuiltin':
            # lower-case min / max / sum over ONE iterable argument that is not a list: generator, map, tuple, iterator, set, reversed, dict keys
            func, form, xs = e[1], e[2], ', '.join(R(x) for x in e[3])
            arg = {'gen': '(v_ for v_ in [%s])', 'map': 'map(float, [%s])', 'tuple': '(%s,)', 'iter': 'iter([%s])', 'set': '{%s}', 'reversed': 'reversed([%s])',
                   'dictkeys': 'dict.fromkeys([%s])', 'filter': 'filter(None, [%s])', 'zip': '(p_[0] for p_ in zip([%s], [0, 0, 0, 0]))'}[form] % xs
            if form == 'gen':
                return '%s%s' % (func, arg)
            return '%s(%s)' % (func, arg)
    raise ValueError('cannot render %r for %s' % (e, lang))


def is_neutral(e):
    """True when the expression only uses the language-neutral vocabulary."""
    if isinstance(e, dict):
        return all(is_neutral(v) for v in e.values())
    if not isinstance(e, list):
        return True
    if e and e[0] == 'str' and len(e) > 2 and isinstance(e[2], str) and len(e[2]) == 3:
        return False
    if e and isinstance(e[0], str) and e[0] in ('int_of', 'float_of', 'pymax', 'pymin', 'pysum', 'pymaxl', 'pybuiltin', 'floordiv', 'fstr'):
        return False
    return all(is_neutral(x) for x in e)


def strip_outer(s):
    """Remove one pair of outermost parentheses when they enclose the whole expression text (users rarely parenthesise a whole clause)."""
    if len(s) < 2 or s[0] != '(' or s[-1] != ')':
        return s
    depth = 0
    quote = None
    i = 0
    while i < len(s):
        c = s[i]
        if quote:
            if c == '\\':
                i += 2
                continue
            if c == quote:
                quote = None
        elif c in '"\'':
            quote = c
        elif c == '(':
            depth += 1
        elif c == ')':
            depth -= 1
            if depth == 0 and i != len(s) - 1:
                return s
        i += 1
    return s[1:-1] if depth == 0 and quote is None else s


def render_top(e, ctx, lang, bare):
    s = render_expr(e, ctx, lang)
    return strip_outer(s) if bare else s


def render_item(it, ctx, lang, bare=False):
    k = it['kind']
    if k == 'star':
        s = '*'
    elif k == 'astar':
        s = 'a.*'
    elif k == 'bstar':
        s = 'b.*'
    elif k == 'expr':
        s = render_top(it['expr'], ctx, lang, bare)
    elif k == 'unnest':
        s = '%s(%s)' % (it.get('spelling', 'UNNEST'), render_expr(it['expr'], ctx, lang))
    elif k == 'agg':
        arg = '*' if it['arg'] == '*' else render_top(it['arg'], ctx, lang, bare)
        s = '%s(%s)' % (it.get('spelling', it['func']), arg)
    else:
        raise ValueError(k)
    if it.get('alias'):
        s += ' %s %s' % (it.get('as_kw', 'as'), it['alias'])
    return s


def render_join(j, ctx):
    parts = []
    for lhs, rhs, eq, swapped in j['pairs']:
        l = lhs if isinstance(lhs, str) else render_field(lhs, ctx)
        r = rhs if isinstance(rhs, str) else render_field(rhs, ctx)
        if swapped:
            l, r = r, l
        parts.append('%s %s %s' % (l, eq, r))
    return '%s %s ON %s' % (j['type'], (j.get('table_py') or j['table']), ' AND '.join(parts))


def clauses(q, ctx, lang):
    """-> (head clause text, [other clause texts]) in canonical order."""
    other = []
    bare = bool(q.get('bare'))
    if q['kind'] == 'select':
        head = 'SELECT'
        if q.get('top') is not None and q.get('top_kw', 'top') == 'top':
            head += ' TOP %d' % q['top']
        elif q.get('top') is not None and q.get('top_ignored') is not None:
            # both spellings of the bound in one query: LIMIT decides, the TOP value is ignored
            head += ' TOP %d' % q['top_ignored']
        if q.get('distinct') == 'distinct':
            head += ' DISTINCT'
        elif q.get('distinct') == 'count':
            head += ' DISTINCT COUNT'
        if q.get('except') is not None:
            head += ' *'
        else:
            head += ' ' + ', '.join(render_item(it, ctx, lang, bare) for it in q['items'])
    else:
        head = 'UPDATE ' + ', '.join('%s = %s' % (render_field(f, ctx), render_top(e, ctx, lang, bare)) for f, e in q['assign'])
    if q.get('except') is not None:
        other.append('EXCEPT ' + ', '.join(render_field(f, ctx) for f in q['except']))
    if q.get('join'):
        other.append(render_join(q['join'], ctx))
    if q.get('where') is not None:
        other.append('WHERE ' + render_top(q['where'], ctx, lang, bare))
    if q.get('group'):
        other.append('GROUP BY ' + ', '.join(render_top(e, ctx, lang, bare) for e in q['group']))
    if q.get('order'):
        o = q['order']
        s = 'ORDER BY ' + ', '.join(render_top(e, ctx, lang, bare) for e in o['keys'])
        # the direction keyword in the letter case the case says (keywords are case insensitive: Desc, dEsC, aSc)
        kwc = {'upper': str.upper, 'lower': str.lower, 'title': str.title, 'mixed': lambda w: w[:2].upper() + w[2:].lower(), 'mixed2': lambda w: ''.join(c.upper() if i % 2 else c.lower() for i, c in enumerate(w))}[o.get('dir_kw_case', 'upper')]
        if o.get('desc'):
            s += ' ' + kwc('DESC')
        elif o.get('asc_kw'):
            s += ' ' + kwc('ASC')
        other.append(s)
    if q.get('top') is not None and q.get('top_kw', 'top') == 'limit':
        other.append('LIMIT %d' % q['top'])
    return head, other


def render(q, ctx, lang='py'):
    head, other = clauses(q, ctx, lang)
    s = ' '.join([head] + other)
    if q.get('with'):
        s += ' WITH (%s)' % q['with']
    return s


# ---------------------------------------------------------------------------------------------------------------
# spelling transformations (C08)

KEYWORD_RGX = None


def _case_scramble(word, rng):
    return ''.join(c.upper() if rng.random() < 0.5 else c.lower() for c in word)


def _scramble_keywords(clause, rng):
    """Per-letter case change of RBQL keywords of one clause text, never touching anything inside or after a string literal."""
    import re as _re
    cut = len(clause)
    for ch in ('"', "'"):
        i = clause.find(ch)
        if i != -1:
            cut = min(cut, i)
    headpart, rest = clause[:cut], clause[cut:]
    m = _re.match(r'^(SELECT)( TOP)?( \d+)?( DISTINCT)?( COUNT)?(?= )', headpart)
    if m:
        out = ''
        for g in m.groups():
            if g:
                out += _case_scramble(g, rng)
        headpart = out + headpart[m.end():]
    else:
        m = _re.match(r'^(STRICT LEFT JOIN|LEFT OUTER JOIN|LEFT JOIN|INNER JOIN|JOIN|UPDATE a SET|UPDATE SET|UPDATE|WHERE|ORDER BY|GROUP BY|LIMIT|EXCEPT|FROM)\b', headpart)
        if m:
            kw = m.group(1)
            if kw.startswith('UPDATE a'):
                kw2 = _case_scramble('UPDATE', rng) + ' a ' + _case_scramble('SET', rng)
            else:
                kw2 = _case_scramble(kw, rng)
            headpart = kw2 + headpart[m.end():]
            if 'JOIN' in kw:
                headpart = _re.sub(r' ON ', lambda mo: ' ' + _case_scramble('ON', rng) + ' ', headpart, count=1)
                headpart = _re.sub(r' AND ', lambda mo: ' ' + _case_scramble('AND', rng) + ' ', headpart)
    if not rest:
        m = _re.search(r' (ASC|DESC)$', headpart, _re.I)
        if m and clause.upper().startswith('ORDER BY'):
            headpart = headpart[:m.start()] + ' ' + _case_scramble(m.group(1), rng)
    return headpart + rest


def _vary_spaces(text, rng, lang):
    """Replace single spaces outside string literals by other white space (several spaces, a tab, a line break with indentation).
    A line break is never placed where the next line would start with the language's comment marker."""
    out = []
    quote = None
    i = 0
    n = len(text)
    marker = '#' if lang == 'py' else '//'
    while i < n:
        c = text[i]
        if quote:
            out.append(c)
            if c == '\\' and i + 1 < n:
                out.append(text[i + 1])
                i += 2
                continue
            if c == quote:
                quote = None
        elif c in '"\'' and text[i:i + 3] == c * 3 and lang == 'py':
            # a triple-quoted Python literal: copied verbatim up to its closing triple
            j = text.find(c * 3, i + 3)
            j = n if j < 0 else j + 3
            out.append(text[i:j])
            i = j
            continue
        elif c in '"\'`':
            quote = c
            out.append(c)
        elif c == ' ' and out and out[-1] == ',' and rng.random() < 0.3:
            pass        # `a[1],a[2]`: the space after a comma is itself an extra space
        elif c == ' ':
            r = rng.random()
            if r < 0.6:
                out.append(' ')
            elif r < 0.72:
                out.append('  ')
            elif r < 0.8:
                out.append('\t')
            elif text[i + 1:].lstrip(' ').startswith(marker):
                out.append(' ')
            elif r < 0.92:
                out.append('\n')
            else:
                out.append(' \n   ')
        else:
            out.append(c)
        i += 1
    return ''.join(out)


def respell(q, ctx, rng, lang='py'):
    """One random composition of the spelling transformations of C08 applied to the structured query -> query text."""
    import copy
    q = copy.deepcopy(q)
    cmt = '#' if lang == 'py' else '//'
    # interchangeable spellings on the structure
    if q.get('top') is not None and q['kind'] == 'select' and rng.random() < 0.5 and q.get('top_ignored') is None:
        q['top_kw'] = 'limit' if q.get('top_kw', 'top') == 'top' else 'top'
    if q.get('join'):
        j = q['join']
        if rng.random() < 0.5:
            j['type'] = {'JOIN': 'INNER JOIN', 'INNER JOIN': 'JOIN', 'LEFT JOIN': 'LEFT OUTER JOIN', 'LEFT OUTER JOIN': 'LEFT JOIN'}.get(j['type'], j['type'])
        for p in j['pairs']:
            if rng.random() < 0.5:
                p[2] = '=' if p[2] == '==' else '=='
            if rng.random() < 0.5 and not isinstance(p[0], str):
                p[3] = not p[3]      # swapped sides only for field keys (NR / aNR stay on the left)
        if rng.random() < 0.3:
            j['table'] = 'B' if j['table'] == 'b' else 'b'
        if lang == 'py' and rng.random() < 0.15:
            # a table id of the caller's registry (Python leg: the probe registry knows these ids): not ASCII, longer once upper-cased
            j['table_py'] = rng.choice(['stra\u00dfe', 'ma\u00dfgr\u00f6\u00dfe.csv', '\ufb03les/\u01f0oin', 'B\u00df', '\u0130d.tbl'])

    def swap_spelling(e):
        if isinstance(e, list):
            if e and e[0] == 'field' and e[3] in ('var', 'arr') and rng.random() < 0.5:
                e[3] = 'arr' if e[3] == 'var' else 'var'
            for x in e[1:]:
                swap_spelling(x)
        elif isinstance(e, dict):
            for v in e.values():
                swap_spelling(v)
    for key in ('items', 'where', 'order', 'group', 'except', 'assign'):
        if q.get(key) is not None:
            swap_spelling(q[key])
    if q.get('join'):
        for p in q['join']['pairs']:
            swap_spelling(p[0])
            swap_spelling(p[1])
    head, other = clauses(q, ctx, lang)
    rng.shuffle(other)
    # redundant FROM a / UPDATE a SET
    if q['kind'] == 'select' and rng.random() < 0.3:
        other.insert(rng.randrange(0, len(other) + 1), rng.choice(['FROM a', 'from a', 'From A'.replace('A', 'a')]))
    if q['kind'] == 'update':
        r = rng.random()
        if r < 0.3:
            head = 'UPDATE a SET' + head[len('UPDATE'):]
        elif r < 0.6:
            head = 'UPDATE SET' + head[len('UPDATE'):]
    parts = [head] + other
    if rng.random() < 0.7:
        parts = [_scramble_keywords(p, rng) for p in parts]
    if rng.random() < 0.4:
        parts = [_vary_spaces(p, rng, lang) for p in parts]
    # whitespace between clauses: spaces, tabs, line breaks, comment lines
    out = []
    for i, p in enumerate(parts):
        if i:
            r = rng.random()
            if r < 0.4:
                out.append(' ' * rng.randrange(1, 4))
            elif r < 0.55:
                out.append(' \t ')
            elif r < 0.8:
                out.append('\n' + ' ' * rng.randrange(0, 3))
            else:
                # comment lines are not query text: whatever they say - clauses, variables of columns that do not exist, quotes - changes nothing
                # (the comment line itself may be indented, with a tab too: leading white space does not make it query text)
                out.append('\n%s%s %s\n  ' % (rng.choice(['', '', ' ', '\t', '  \t ']), cmt, rng.choice(['comment: select * from x where y order by z', 'where a.cost > 4 and b.nosuch == a.k.a', 'see a.csv / b.csv, a["gone"], b[\'x\']',
                                                           'it\'s "quoted', 'a1 = 5, a77, NR, limit 1', 'join c on a1 == c1', ''])))
        out.append(p)
    s = ''.join(out)
    if q.get('with'):
        s += ' ' * rng.randrange(1, 3) + rng.choice(['WITH', 'with', 'With']) + rng.choice([' ', '']) + '(%s)' % q['with']
    if rng.random() < 0.3:
        s = '%s %s\n' % (cmt, rng.choice(['leading comment', 'select a.none, b.gone', 'update a9 = "x'])) + s
    if rng.random() < 0.3:
        s = '  ' + s
    crlf = rng.random() < 0.2 and '\r' not in s      # a query typed or pasted with CRLF line ends (no literal of the pool holds a line feed)
    if rng.random() < 0.2:
        s += rng.choice([';', '']) + '\n%s%s trailing comment; select' % (rng.choice(['', '', '\t', ' \t']), cmt)
        return s.replace('\n', '\r\n') if crlf else s
    if crlf:
        s = s.replace('\n', '\r\n')
    r = rng.random()
    if r < 0.25:
        s += ';'
    elif r < 0.35:
        s += ' ;' if not q.get('with') else ';'
    elif r < 0.45:
        s += '  '
    return s
