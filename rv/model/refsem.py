"""Reference interpreter of RBQL's relational semantics, written from the statements of C01-C05 and C07.

Shares no code and no algorithm with the engine: nested loops instead of a hash map, exact rationals instead of
running sums, an AST walk instead of code generation.  Part of the trusted base.

    run(query, A, B=None, a_names=None, b_names=None) -> Result
"""
from fractions import Fraction

from . import qast


class EvalError(Exception):
    """An expression cannot be evaluated on this record (the engine must report a query-execution error naming the record)."""

    def __init__(self, kind, detail=''):
        Exception.__init__(self, '%s %s' % (kind, detail))
        self.kind = kind


class QueryError(Exception):
    def __init__(self, cls, record=None, what='', field=None, table='a'):
        Exception.__init__(self, '%s error record=%r %s' % (cls, record, what))
        self.cls = cls          # 'runtime' | 'parsing' | 'io'
        self.record = record    # 1-based record number that must be named, or None
        self.what = what
        self.field = field      # 1-based field number that must be named for a bad field access, or None
        self.table = table


class Result(object):
    def __init__(self):
        self.rows = []
        self.header = None
        self.error = None      # QueryError or None
        self.a_reads = None    # how many A records had to be consumed at least (p_n) / at most (p_{n+1}) for bounded streaming queries
        self.a_reads_max = None
        self.any_value_cols = []   # output columns whose value is "any member of" a set: list of (col, {row_index: [allowed values]})
        self.float_cols = set()    # output columns compared with tolerance
        self.error_optional = False   # the failing record is only reached by the look-ahead behind a TOP/LIMIT bound
        self.agg_meta = None       # per output row, per column: 'exact' | 'float' | 'member' | 'list' | 'plain'

    def to_json(self):
        return {'rows': self.rows, 'header': self.header, 'error': None if self.error is None else {'cls': self.error.cls, 'record': self.error.record, 'what': self.error.what}}


class Env(object):
    __slots__ = ('a', 'b', 'NR', 'NF', 'bNR', 'NU')

    def __init__(self, a, b, NR, bNR=None, NU=0):
        self.a = a
        self.b = b
        self.NR = NR
        self.NF = len(a)
        self.bNR = bNR
        self.NU = NU


def _num(x, what):
    if isinstance(x, bool) or not isinstance(x, (int, float)):
        raise EvalError('type', '%s needs a number, got %r' % (what, x))
    return x


def ev(e, env):
    t = e[0]
    if t == 'field':
        rec = env.a if e[1] == 'a' else env.b
        if rec is None:
            return None
        return rec[e[2]] if e[2] < len(rec) else None
    if t == 'NR' or t == 'aNR':
        return env.NR
    if t == 'NF':
        return env.NF
    if t == 'NU':
        return env.NU
    if t == 'bNR':
        return env.bNR
    if t == 'str':
        return e[1]
    if t == 'int':
        return e[1]
    if t == 'concat':
        x, y = ev(e[1], env), ev(e[2], env)
        if not isinstance(x, str) or not isinstance(y, str):
            raise EvalError('type', 'concat of %r and %r' % (x, y))
        return x + y
    if t == 'len':
        x = ev(e[1], env)
        if not isinstance(x, (str, list)):
            raise EvalError('type', 'len of %r' % (x,))
        return len(x)
    if t == 'arith':
        x, y = _num(ev(e[2], env), 'arith'), _num(ev(e[3], env), 'arith')
        op = e[1]
        if op == '+':
            return x + y
        if op == '-':
            return x - y
        if op == '*':
            return x * y
        if op == '%':
            if y == 0:
                raise EvalError('zero', 'modulo by zero')
            return x % y
        raise ValueError(op)
    if t == 'div':
        x, y = _num(ev(e[1], env), 'arith'), _num(ev(e[2], env), 'arith')
        if y == 0:
            raise EvalError('zero', 'division by zero')
        return x / y
    if t == 'cmp':
        x, y = ev(e[2], env), ev(e[3], env)
        op = e[1]
        if op in ('==', '==='):
            return x == y
        if op in ('!=', '!=='):
            return x != y
        if x is None or y is None or isinstance(x, str) != isinstance(y, str):
            raise EvalError('type', 'ordering %r and %r' % (x, y))
        if op == '<':
            return x < y
        if op == '<=':
            return x <= y
        if op == '>':
            return x > y
        if op == '>=':
            return x >= y
        raise ValueError(op)
    if t == 'and':
        x = ev(e[1], env)
        return ev(e[2], env) if x else x
    if t == 'or':
        x = ev(e[1], env)
        return x if x else ev(e[2], env)
    if t == 'not':
        return not ev(e[1], env)
    if t == 'isnone':
        return ev(e[1], env) is None
    if t == 'like':
        x = ev(e[1], env)
        if not isinstance(x, str):
            raise EvalError('type', 'like on %r' % (x,))
        from . import refcsv
        return refcsv.like(x, e[2])
    if t == 'cond':
        return ev(e[2], env) if ev(e[1], env) else ev(e[3], env)
    if t == 'list':
        return [ev(x, env) for x in e[1]]
    if t == 'split':
        x = ev(e[1], env)
        if not isinstance(x, str):
            raise EvalError('type', 'split on %r' % (x,))
        return x.split(e[2])
    if t == 'tostr':
        x = ev(e[1], env)
        return str(x)
    if t == 'call':
        args = [ev(x, env) for x in e[2]]
        if e[1] == 'f':
            return 'F%d' % len(args)
        if e[1] == 'g':
            return ['G', len(args)]
        raise ValueError(e[1])
    if t == 'index':
        return ev(e[1], env)[e[2]]
    if t == 'paren':
        return ev(e[1], env)
    if t == 'uvar':
        return qast.UVARS[e[1]]
    if t == 'uattr':
        return qast.UATTRS[e[1]]
    if t == 'floordiv':
        x, y = _num(ev(e[1], env), 'arith'), _num(ev(e[2], env), 'arith')
        if y == 0:
            raise EvalError('zero', 'division by zero')
        return x // y
    if t == 'int_of':
        x = ev(e[1], env)
        try:
            if x is None:
                raise TypeError()
            return int(x)
        except (ValueError, TypeError):
            raise EvalError('convert', 'int(%r)' % (x,))
    if t == 'float_of':
        x = ev(e[1], env)
        try:
            if x is None:
                raise TypeError()
            return float(x)
        except (ValueError, TypeError):
            raise EvalError('convert', 'float(%r)' % (x,))
    if t == 'upper':
        x = ev(e[1], env)
        if not isinstance(x, str):
            raise EvalError('type', 'upper on %r' % (x,))
        return x.upper()
    if t == 'pymax':
        return max(ev(e[1], env), ev(e[2], env))
    if t == 'pymin':
        return min(ev(e[1], env), ev(e[2], env))
    if t == 'pysum':
        return sum(ev(x, env) for x in e[1])
    if t == 'pymaxl':
        return max(ev(x, env) for x in e[1])
    if t == 'fstr':
        return ''.join(part if isinstance(part, str) else format(ev(part, env)) for part in e[1])
    if t == 'pybuiltin':
        vals = [ev(x, env) for x in e[3]]
        if e[2] == 'map':
            vals = [float(v) for v in vals]      # the rendered form is map(float, [...])
        if e[2] == 'reversed':
            vals = vals[::-1]                    # floating-point addition is not associative: the order of summation is part of the expression
        if e[2] == 'filter':
            vals = [v for v in vals if v]
        if e[2] in ('set', 'dictkeys'):
            vals = list(dict.fromkeys(vals))
        if not vals and e[1] != 'sum':
            raise EvalError('empty', '%s of an empty iterable' % e[1])
        return {'max': max, 'min': min, 'sum': sum}[e[1]](vals)
    raise ValueError('unknown expression %r' % (e,))


# ---------------------------------------------------------------------------------------------------------------
# join expansion

def join_key_a(pairs, env_a_rec, NR):
    key = []
    for lhs, rhs, _eq, _sw in pairs:
        if isinstance(lhs, str):          # 'NR' | 'aNR' | 'a.NR'
            key.append(NR)
        else:
            idx = lhs[2]
            if idx >= len(env_a_rec):
                raise QueryError('runtime', NR, 'join key field a%d missing' % (idx + 1), field=idx + 1)
            key.append(env_a_rec[idx])
    return key


def join_key_b(pairs, rec, bnr):
    key = []
    for lhs, rhs, _eq, _sw in pairs:
        if isinstance(rhs, str):          # 'bNR' | 'b.NR'
            key.append(bnr)
        else:
            idx = rhs[2]
            if idx >= len(rec):
                raise QueryError('runtime', bnr, 'join key field b%d missing in B record' % (idx + 1), field=idx + 1, table='b')
            key.append(rec[idx])
    return key


def expand(q, A, B, b_names=None):
    """Yield (NR, a_record, [(bNR, b_record or None)]) for every A record: the partners per the join type.  Raises QueryError lazily."""
    j = q.get('join')
    if not j:
        for i, a in enumerate(A):
            yield i + 1, a, [(None, None)]
        return
    bkeys = [join_key_b(j['pairs'], rec, k + 1) for k, rec in enumerate(B)]   # errors surface before the first output
    width = max([len(r) for r in B] + [len(b_names) if b_names is not None else 0])   # as wide as the widest B row (and as the join header)
    for i, a in enumerate(A):
        NR = i + 1
        ka = join_key_a(j['pairs'], a, NR)
        partners = [(k + 1, B[k]) for k in range(len(B)) if bkeys[k] == ka]
        jt = j['type']
        if jt in ('LEFT JOIN', 'LEFT OUTER JOIN') and not partners:
            partners = [(None, [None] * width)]
        if jt == 'STRICT LEFT JOIN' and len(partners) != 1:
            raise QueryError('runtime', NR, 'strict left join: %d matches' % len(partners))
        yield NR, a, partners


# ---------------------------------------------------------------------------------------------------------------
# header naming (C07)

def header_names(q, a_names, b_names):
    """Expected output header, or None when the query produces no header."""
    if q['kind'] == 'update':
        return list(a_names) if a_names is not None else None
    if q.get('except') is not None:
        if a_names is None:
            return None
        skip = set(f[2] for f in q['except'])
        names = [n for i, n in enumerate(a_names) if i not in skip]
        return (['col1'] + names) if q.get('distinct') == 'count' else names
    has_alias = any(it.get('alias') for it in q['items'])
    if a_names is None and has_alias and any(it['kind'] in ('star', 'astar', 'bstar') for it in q['items']):
        raise QueryError('parsing', None, 'star and alias without a header')
    if a_names is None and not has_alias:
        return None
    an = list(a_names) if a_names is not None else []
    bn = list(b_names) if b_names is not None else []
    out = []
    if q.get('distinct') == 'count':
        out.append('col1')
    for it in q['items']:
        k = it['kind']
        if k == 'star':
            out += an + (bn if q.get('join') else [])
        elif k == 'astar':
            out += an
        elif k == 'bstar':
            out += bn
        elif it.get('alias'):
            out.append(it['alias'])
        elif k == 'expr' and it['expr'][0] == 'field':
            _t, table, idx, sp = it['expr']
            names = an if table == 'a' else bn
            if sp in ('attr', 'dq', 'sq'):
                out.append(names[idx])
            elif idx < len(names):
                out.append(names[idx])
            else:
                out.append('col%d' % (len(out) + 1))
        elif k == 'expr' and it['expr'][0] in ('NR', 'NF', 'aNR', 'bNR', 'NU'):
            out.append(it['expr'][0])
        elif k == 'expr' and it['expr'][0] == 'uvar':
            out.append(it['expr'][1])
        else:
            out.append('col%d' % (len(out) + 1))
    return out


# ---------------------------------------------------------------------------------------------------------------
# aggregates

def to_number(v):
    """numeric strings -> int if they parse as int, else float; numbers pass through."""
    if isinstance(v, str):
        try:
            return int(v)
        except ValueError:
            try:
                return float(v)
            except ValueError:
                raise EvalError('convert', 'not a number: %r' % v)
    if isinstance(v, bool) or not isinstance(v, (int, float)):
        raise EvalError('convert', 'not a number: %r' % (v,))
    return v


def exact(x):
    return Fraction(x)


def aggregate(func, values):
    """-> (kind, value)  kind: 'exact' | 'float' | 'member' | 'list'"""
    if func == 'COUNT':
        return ('exact', len(values))
    if func == 'ARRAY_AGG':
        return ('list', list(values))
    if func == 'ANY_VALUE':
        return ('member', list(values))
    nums = [to_number(v) for v in values]
    anyfloat = any(isinstance(x, float) for x in nums)
    ex = [exact(x) for x in nums]
    # results that every implementation computes in floating point: the error bound is relative to the largest operand, not to the result
    FL = 'float@%d' % max([1] + [int(abs(x)) + 1 for x in ex])
    if func == 'MIN':
        return ('float' if anyfloat else 'exact', min(ex))
    if func == 'MAX':
        return ('float' if anyfloat else 'exact', max(ex))
    if func == 'SUM':
        return (FL if anyfloat else 'exact', sum(ex))
    if func == 'AVG':
        return (FL, sum(ex) / len(ex))
    if func == 'VARIANCE':
        n = len(ex)
        mean = sum(ex) / n
        # ... and for the variance relative to the squares that are summed
        return ('float@%d' % max([1] + [int(x * x) for x in ex]), sum((x - mean) ** 2 for x in ex) / n)
    if func == 'MEDIAN':
        s = sorted(ex)
        n = len(s)
        if n % 2:
            return ('float' if anyfloat else 'exact', s[n // 2])
        return (FL, (s[n // 2 - 1] + s[n // 2]) / 2)
    raise ValueError(func)


# ---------------------------------------------------------------------------------------------------------------

def run(q, A, B=None, a_names=None, b_names=None, variant=None):
    res = Result()
    try:
        _run(q, A, B, a_names, b_names, res, variant)
    except QueryError as e:
        res.error = e
    return res


def _eval_on(NR, fn):
    try:
        return fn()
    except EvalError as e:
        raise QueryError('runtime', NR, str(e))
    except (TypeError, ValueError, ZeroDivisionError) as e:
        raise QueryError('runtime', NR, 'python: %s' % e)


def _run(q, A, B, a_names, b_names, res, variant=None):
    res.header = header_names(q, a_names, b_names)
    if q['kind'] == 'update':
        return _run_update(q, A, B, res, b_names)
    agg_items = [it for it in q['items'] if it['kind'] == 'agg'] if q.get('except') is None else []
    if agg_items or q.get('group'):
        return _run_aggregate(q, A, B, res, b_names, variant)
    n = q.get('top')
    streaming = n is not None and not q.get('order') and q.get('distinct') != 'count'
    if streaming:
        return _run_streaming_bounded(q, A, B, b_names, res, n)
    unsorted = []   # (sort key, row, NR)
    for NR, a, partners in expand(q, A, B, b_names):
        for bNR, b in partners:
            env = Env(a, b, NR, bNR)
            if q.get('where') is not None and not _eval_on(NR, lambda: ev(q['where'], env)):
                continue
            rows = _eval_on(NR, lambda: project(q, env))
            key = None
            if q.get('order'):
                key = _eval_on(NR, lambda: tuple(ev(k, env) for k in q['order']['keys']))
            for r in rows:
                unsorted.append((key, r, NR))
    seq = unsorted
    if q.get('order'):
        if variant == 'js-tie':
            # the JS port breaks ties among outputs of one input record by comparing the output arrays as strings (known finding)
            seq = sorted(unsorted, key=lambda t: (t[0], t[2], js_array_string(t[1])))
        else:
            seq = sorted(unsorted, key=lambda t: t[0])   # stable: ties stay in input order
        if q['order'].get('desc'):
            seq = list(reversed(seq))
    rows = [(r, NR) for _k, r, NR in seq]
    if q.get('distinct') == 'distinct':
        seen = []
        out = []
        for r, NR in rows:
            tr = _hashable(r)
            if tr in seen:
                continue
            seen.append(tr)
            out.append((r, NR))
        rows = out
    elif q.get('distinct') == 'count':
        order = []
        counts = []
        firsts = []
        for r, NR in rows:
            tr = _hashable(r)
            if tr in order:
                counts[order.index(tr)] += 1
            else:
                order.append(tr)
                counts.append(1)
                firsts.append((r, NR))
        rows = [([c] + list(r), NR) for c, (r, NR) in zip(counts, firsts)]
    if n is not None:
        rows = rows[:n]
    res.rows = [r for r, _NR in rows]
    return res


def _run_streaming_bounded(q, A, B, b_names, res, n):
    """TOP/LIMIT without ORDER BY / DISTINCT COUNT: the engine learns that the bound is reached when output n+1 is attempted and
    stops pulling input there.  A failure on a record that is only read because of that look-ahead is optional."""
    out = []
    seen = []
    try:
        for NR, a, partners in expand(q, A, B, b_names):
            for bNR, b in partners:
                env = Env(a, b, NR, bNR)
                if q.get('where') is not None and not _eval_on(NR, lambda: ev(q['where'], env)):
                    continue
                for r in _eval_on(NR, lambda: project(q, env)):
                    if q.get('distinct') == 'distinct':
                        tr = _hashable(r)
                        if tr in seen:
                            continue
                        seen.append(tr)
                    if len(out) == n:
                        res.a_reads_max = NR      # the record producing output n+1: nothing after it may be read
                        res.rows = out
                        return res
                    out.append(r)
    except QueryError as e:
        if len(out) >= n and e.table == 'a' and e.record is not None:
            res.rows = out
            res.error = e
            res.error_optional = True
            return res
        raise
    res.rows = out
    res.a_reads_max = None   # output n+1 never exists: no bound on the reads is demanded
    return res


def js_array_string(row):
    """Array.prototype.toString as JavaScript would render the output row (used only to recognise a known JS finding)."""
    def one(v):
        if v is None:
            return ''
        if v is True:
            return 'true'
        if v is False:
            return 'false'
        if isinstance(v, list):
            return ','.join(one(x) for x in v)
        return str(v)
    return ','.join(one(v) for v in row)


def _hashable(r):
    return tuple(tuple(x) if isinstance(x, list) else x for x in r)


def project(q, env):
    """-> list of output rows for one (a, b) pair (several for UNNEST, none for an empty list)."""
    if q.get('except') is not None:
        skip = set(f[2] for f in q['except'])
        return [[v for i, v in enumerate(env.a) if i not in skip]]
    row = []
    unnest_pos = None
    unnest_vals = None
    for it in q['items']:
        k = it['kind']
        if k == 'star':
            row += list(env.a) + (list(env.b) if env.b is not None else [])
        elif k == 'astar':
            row += list(env.a)
        elif k == 'bstar':
            row += list(env.b) if env.b is not None else []
        elif k == 'expr':
            row.append(ev(it['expr'], env))
        elif k == 'unnest':
            if unnest_pos is not None:
                raise QueryError('parsing', None, 'two UNNEST')
            unnest_pos = len(row)
            unnest_vals = ev(it['expr'], env)
            row.append(None)
        else:
            raise ValueError(k)
    if unnest_pos is None:
        return [row]
    out = []
    for v in unnest_vals:
        r = list(row)
        r[unnest_pos] = v
        out.append(r)
    return out


def _run_aggregate(q, A, B, res, b_names=None, variant=None):
    if q.get('order') or q.get('distinct'):
        raise QueryError('parsing', None, 'ORDER BY / DISTINCT in aggregate query')
    groups = {}     # key -> list of per-item value lists
    first_seen = []
    for NR, a, partners in expand(q, A, B, b_names):
        for bNR, b in partners:
            env = Env(a, b, NR, bNR)
            if q.get('where') is not None and not _eval_on(NR, lambda: ev(q['where'], env)):
                continue
            vals = []
            for it in q['items']:
                if it['kind'] == 'agg':
                    vals.append(1 if it['arg'] == '*' else _eval_on(NR, lambda: ev(it['arg'], env)))
                elif it['kind'] == 'expr':
                    vals.append(_eval_on(NR, lambda: ev(it['expr'], env)))
                else:
                    raise QueryError('parsing', None, 'star / unnest in aggregate query is not modelled')
            key = tuple(_eval_on(NR, lambda: ev(k, env)) for k in q['group']) if q.get('group') else None
            if key not in groups:
                groups[key] = [[] for _ in q['items']]
                first_seen.append(key)
            g = groups[key]
            for i, it in enumerate(q['items']):
                if it['kind'] == 'agg':
                    if it['func'] in ('MIN', 'MAX', 'SUM', 'AVG', 'VARIANCE', 'MEDIAN'):
                        _eval_on(NR, lambda: to_number(vals[i]))
                    g[i].append(vals[i])
                else:
                    if g[i] and g[i][0] != vals[i]:
                        raise QueryError('runtime', NR, 'non-constant plain column %d in group %r' % (i + 1, key))
                    g[i].append(vals[i])
    keys = sorted(groups.keys()) if q.get('group') else list(groups.keys())
    if variant == 'js-group' and q.get('group'):
        # the JS port orders the groups by the JSON text of the key (known finding)
        import json
        keys = sorted(groups.keys(), key=lambda k: json.dumps(list(k), separators=(',', ':'), ensure_ascii=False))
    rows = []
    meta = []
    for key in keys:
        g = groups[key]
        row = []
        m = []
        for i, it in enumerate(q['items']):
            if it['kind'] == 'agg':
                kind, v = aggregate(it['func'], g[i])
                row.append(v)
                m.append(kind)
            else:
                row.append(g[i][0])
                m.append('plain')
        rows.append(row)
        meta.append(m)
    n = q.get('top')
    if n is not None:
        rows = rows[:n]
        meta = meta[:n]
    res.rows = rows
    res.agg_meta = meta
    return res


def _run_update(q, A, B, res, b_names=None):
    out = []
    NU = 0
    for NR, a, partners in expand(q, A, B, b_names):
        if q.get('join') and len(partners) > 1:
            raise QueryError('runtime', NR, 'update: more than one join partner')
        row = list(a)
        if partners:
            bNR, b = partners[0]
            env = Env(a, b, NR, bNR, NU + 1)
            # NU counts the records updated so far including the current one, and is visible to WHERE only after the increment? no: WHERE is tested first
            env_where = Env(a, b, NR, bNR, NU)
            if q.get('where') is None or _eval_on(NR, lambda: ev(q['where'], env_where)):
                NU += 1
                for f, e in q['assign']:
                    idx = f[2]
                    v = _eval_on(NR, lambda: ev(e, env))     # right-hand sides see the original values
                    if idx >= len(row):
                        raise QueryError('runtime', NR, 'assignment to missing field a%d' % (idx + 1), field=idx + 1)
                    row[idx] = v
        out.append(row)
    res.rows = out
    return res


# ---------------------------------------------------------------------------------------------------------------
# value comparison

def same_value(got, exp, tol=None):
    """Exact, type-aware comparison (bool is not int, 1 is not '1'); floats by value with optional tolerance."""
    if isinstance(exp, Fraction):
        if isinstance(got, bool) or not isinstance(got, (int, float)):
            return False
        if tol is None:
            return Fraction(got) == exp
        return abs(Fraction(got) - exp) <= tol
    if isinstance(exp, bool) or isinstance(got, bool):
        return isinstance(exp, bool) and isinstance(got, bool) and exp == got
    if exp is None or got is None:
        return exp is None and got is None
    if isinstance(exp, str) or isinstance(got, str):
        return isinstance(exp, str) and isinstance(got, str) and exp == got
    if isinstance(exp, (list, tuple)):
        return isinstance(got, (list, tuple)) and len(got) == len(exp) and all(same_value(g, x, tol) for g, x in zip(got, exp))
    if isinstance(exp, (int, float)):
        if not isinstance(got, (int, float)):
            return False
        if got == exp:
            return True
        # two floating-point evaluations of one expression may differ in the last bits (CPython sums an all-float sequence with compensation
        # and a mixed one without; a JS engine may fuse operations): 1e-12 relative is far below anything a defect would produce
        if isinstance(exp, float) or isinstance(got, float):
            try:
                return abs(got - exp) <= 1e-12 * max(abs(got), abs(exp))
            except OverflowError:
                return False
        return False
    return got == exp


def same_rows(got, exp):
    return len(got) == len(exp) and all(isinstance(g, (list, tuple)) and len(g) == len(x) and all(same_value(a, b) for a, b in zip(g, x)) for g, x in zip(got, exp))
