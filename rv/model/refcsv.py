"""Reference CSV dialect, written from the statements of C10-C12/C17 as character-level state machines.

No regular expressions, no code shared with rbql.  Everything here is part of the trusted base.
"""

QUOTE = '"'


# ---------------------------------------------------------------------------------------------
# splitting
# ---------------------------------------------------------------------------------------------

def _try_quoted_field(line, pos, dlm, allow_spaces):
    """At a field start: optional spaces, '"', body with '""' -> '"' until a lone '"', optional spaces,
    then the delimiter or the end of the line.  Returns (value, raw_end) or None.  raw_end is the index of the
    delimiter (or len(line))."""
    n = len(line)
    i = pos
    if allow_spaces:
        while i < n and line[i] == ' ':
            i += 1
    if i >= n or line[i] != QUOTE:
        return None
    i += 1
    out = []
    while True:
        if i >= n:
            return None  # no closing quote
        c = line[i]
        if c == QUOTE:
            if i + 1 < n and line[i + 1] == QUOTE:
                out.append(QUOTE)
                i += 2
                continue
            i += 1
            break  # lone quote closes the field
        out.append(c)
        i += 1
    if allow_spaces:
        while i < n and line[i] == ' ':
            i += 1
    if i == n or line.startswith(dlm, i):
        return (''.join(out), i)
    return None


def split_quoted(line, dlm, preserve=False):
    """-> (fields, warning).  warning iff some field taken as unquoted contains a double quote."""
    assert dlm and QUOTE not in dlm
    fields = []
    warning = False
    allow_spaces = dlm != ' '
    n = len(line)
    pos = 0
    while True:
        q = _try_quoted_field(line, pos, dlm, allow_spaces)
        if q is not None:
            value, end = q
            fields.append(line[pos:end] if preserve else value)
        else:
            end = line.find(dlm, pos)
            if end == -1:
                end = n
            f = line[pos:end]
            if QUOTE in f:
                warning = True
            fields.append(f)
        if end >= n:
            break
        pos = end + len(dlm)
    return fields, warning


def split_whitespace(line, preserve=False):
    fields = []
    raw = []
    i = 0
    n = len(line)
    while i < n:
        s = i
        while i < n and line[i] == ' ':
            i += 1
        if i >= n:
            break
        t = i
        while i < n and line[i] != ' ':
            i += 1
        fields.append(line[t:i])
        raw.append((s, t, i))
    return fields


def split(line, dlm, policy, preserve=False):
    if policy == 'simple':
        return (line.split(dlm), False)
    if policy == 'whitespace':
        return (split_whitespace(line), False)
    if policy == 'monocolumn':
        return ([line], False)
    assert policy in ('quoted', 'quoted_rfc')
    return split_quoted(line, dlm, preserve)


# ---------------------------------------------------------------------------------------------
# writing
# ---------------------------------------------------------------------------------------------

def quote_field(field, dlm, rfc):
    need = QUOTE in field or (dlm in field)
    if rfc and ('\n' in field or '\r' in field):
        need = True
    if need:
        return QUOTE + field.replace(QUOTE, QUOTE * 2) + QUOTE
    return field


def write_table(table, dlm, policy, line_separator='\n'):
    """Reference writer: table of str cells -> text.  None if the policy cannot write the shape at all."""
    out = []
    for rec in table:
        if policy == 'monocolumn':
            if len(rec) != 1:
                return None
            out.append(rec[0])
        elif policy in ('simple', 'whitespace'):
            out.append(dlm.join(rec))
        elif policy == 'quoted':
            out.append(dlm.join(quote_field(f, dlm, False) for f in rec))
        elif policy == 'quoted_rfc':
            out.append(dlm.join(quote_field(f, dlm, True) for f in rec))
        else:
            raise ValueError(policy)
        out.append(line_separator)
    return ''.join(out)


# ---------------------------------------------------------------------------------------------
# reading
# ---------------------------------------------------------------------------------------------

def split_lines(text):
    """Lines end at LF, CR or CRLF; a final line without terminator is still a line; no extra line after a final terminator."""
    lines = []
    cur = []
    i = 0
    n = len(text)
    while i < n:
        c = text[i]
        if c == '\n':
            lines.append(''.join(cur))
            cur = []
        elif c == '\r':
            lines.append(''.join(cur))
            cur = []
            if i + 1 < n and text[i + 1] == '\n':
                i += 1
        else:
            cur.append(c)
        i += 1
    if cur:
        lines.append(''.join(cur))
    return lines


class ReadResult(object):
    __slots__ = ('records', 'header', 'bom', 'defective_line', 'io_error', 'fields_info', 'error_record')

    def __init__(self):
        self.records = []
        self.header = None
        self.bom = False
        self.defective_line = None   # first physical line number with malformed quoting
        self.io_error = False        # quoted_rfc: malformed quoting is an IO error
        self.error_record = None
        self.fields_info = {}        # num_fields -> first record number (header counted as record 1 when present)

    def warning_kinds(self):
        kinds = []
        if self.bom:
            kinds.append('bom')
        if self.defective_line is not None and not self.io_error:
            kinds.append('quote')
        if len(self.fields_info) > 1:
            kinds.append('fields')
        return sorted(kinds)


def strip_bom(line, encoding):
    if encoding == 'utf-8' and line[:1] == '﻿':
        return line[1:], True
    if encoding == 'latin-1' and line[:3] == '\xef\xbb\xbf':
        return line[3:], True
    return line, False


def read_text(text, dlm, policy, encoding=None, has_header=False, comment_prefix=None):
    """Reference reader over the whole (already decoded) text."""
    res = ReadResult()
    phys = split_lines(text)
    if phys:
        phys[0], res.bom = strip_bom(phys[0], encoding)
    # assemble logical records: (line_text, last_physical_line_number)
    logical = []
    i = 0
    n = len(phys)
    while i < n:
        first = phys[i]
        i += 1
        if policy != 'quoted_rfc':
            logical.append((first, i))
            continue
        if comment_prefix and first.startswith(comment_prefix):
            logical.append((first, i))
            continue
        if first.count(QUOTE) % 2 == 0:
            logical.append((first, i))
            continue
        buf = [first]
        while i < n:
            row = phys[i]
            i += 1
            buf.append(row)
            if row.count(QUOTE) % 2 == 1:
                break
        logical.append(('\n'.join(buf), i))
    nr = 0
    out = []
    for line, nl in logical:
        if comment_prefix and line.startswith(comment_prefix):
            continue
        nr += 1
        fields, warn = split(line, dlm, policy)
        if warn and res.defective_line is None:
            res.defective_line = nl
            if policy == 'quoted_rfc':
                res.io_error = True
                res.error_record = nr
                break
        if len(fields) not in res.fields_info:
            res.fields_info[len(fields)] = nr
        out.append(fields)
    if res.io_error:
        # records before the failure are still what a streaming consumer has seen
        pass
    if has_header and out:
        res.header = out[0]
        res.records = out[1:]
    else:
        res.records = out
    return res


def normalise_newlines(s):
    return s.replace('\r\n', '\n').replace('\r', '\n')


def representable(table, dlm, policy, encoding, line_separator='\n'):
    """A table is representable iff the reference writer/reader pair round-trips it (CR/CRLF -> LF under quoted_rfc)."""
    if not table:
        return False
    for rec in table:
        for f in rec:
            if not isinstance(f, str):
                return False
    text = write_table(table, dlm, policy, line_separator)
    if text is None:
        return False
    r = read_text(text, dlm, policy, encoding)
    if r.io_error or r.bom or r.defective_line is not None:
        return False
    expected = table
    if policy == 'quoted_rfc':
        expected = [[normalise_newlines(f) for f in rec] for rec in table]
    return r.records == [list(rec) for rec in expected]


# ---------------------------------------------------------------------------------------------
# SQL LIKE
# ---------------------------------------------------------------------------------------------

def like(text, pattern):
    """% = any (possibly empty) sequence, _ = exactly one character, everything else literal.  O(|t|*|p|) DP."""
    n = len(text)
    prev = [False] * (n + 1)   # prev[j]: pattern[:i] matches text[:j]
    prev[0] = True
    for pc in pattern:
        cur = [False] * (n + 1)
        if pc == '%':
            acc = False
            for j in range(n + 1):
                acc = acc or prev[j]
                cur[j] = acc
        elif pc == '_':
            for j in range(1, n + 1):
                cur[j] = prev[j - 1]
        else:
            for j in range(1, n + 1):
                cur[j] = prev[j - 1] and text[j - 1] == pc
        prev = cur
    return prev[n]
