"""One shard in one subprocess: python -m rv.worker <prop> <spec.json> <out.json>"""
import faulthandler
import json
import sys

from . import env, runner


def main():
    prop_id, spec_path, out_path = sys.argv[1:4]
    faulthandler.enable()
    with open(spec_path) as f:
        spec = json.load(f)
    env.import_rbql()
    mod = runner.load_prop(prop_id)
    res = runner.ShardResult()
    mod.run_shard(spec, res)
    with open(out_path + '.tmp', 'w') as f:
        json.dump(res.to_json(), f, default=repr)
    import os
    os.replace(out_path + '.tmp', out_path)


if __name__ == '__main__':
    main()
