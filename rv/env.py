"""Locate the repository under test and import *its* rbql (never site-packages).

Every check calls `import_rbql()` before doing anything else.  A failed guard is an
infrastructure error (exit 2), never "held".
"""
import os
import sys
import importlib

VERIF_DIR = os.path.dirname(os.path.dirname(os.path.abspath(__file__)))
REPO = os.path.abspath(os.environ.get('RBQL_REPO', '/repo'))
PY_PKG_DIR = os.path.join(REPO, 'rbql-py')
JS_DIR = os.path.join(REPO, 'rbql-js')
GUARD_ENV = 'RBQL_VERIF'
WHEELS = '/opt/veriftools/wheels'
DEPS_DIR = os.path.join(VERIF_DIR, '.deps')


class InfraError(Exception):
    pass


_cached = None


def import_rbql():
    """Return a namespace with the tree's modules: rbql, engine, csv, utils, pandas, sqlite, main."""
    global _cached
    if _cached is not None:
        return _cached
    os.environ.setdefault(GUARD_ENV, '1')
    if not os.path.isdir(os.path.join(PY_PKG_DIR, 'rbql')):
        raise InfraError('no rbql package under %s' % PY_PKG_DIR)
    if sys.path[0:1] != [PY_PKG_DIR]:
        sys.path.insert(0, PY_PKG_DIR)
    for name in list(sys.modules):
        if name == 'rbql' or name.startswith('rbql.'):
            f = getattr(sys.modules[name], '__file__', '') or ''
            if not os.path.abspath(f).startswith(PY_PKG_DIR + os.sep):
                del sys.modules[name]
    sys.dont_write_bytecode = True
    import rbql
    from rbql import rbql_engine, rbql_csv, csv_utils, rbql_pandas, rbql_sqlite, rbql_main

    class NS(object):
        pass
    ns = NS()
    ns.rbql = rbql
    ns.engine = rbql_engine
    ns.csv = rbql_csv
    ns.utils = csv_utils
    ns.pandas = rbql_pandas
    ns.sqlite = rbql_sqlite
    ns.main = rbql_main
    for m in (rbql, rbql_engine, rbql_csv, csv_utils, rbql_pandas, rbql_sqlite, rbql_main):
        f = os.path.abspath(m.__file__)
        if not f.startswith(PY_PKG_DIR + os.sep):
            raise InfraError('import guard: %s loaded from %s, not from %s' % (m.__name__, f, PY_PKG_DIR))
    _cached = ns
    return ns


def node_path():
    for cand in (os.environ.get('VERIF_NODE'), '/usr/bin/node', '/usr/local/bin/node'):
        if cand and os.path.exists(cand):
            return cand
    import shutil
    return shutil.which('node')


def python_exe():
    return sys.executable


def ensure_deps():
    """Install icontract beside the repo's interpreter into /verif/.deps (offline wheelhouse).  Returns True when importable."""
    if os.path.isdir(DEPS_DIR) and DEPS_DIR not in sys.path:
        sys.path.append(DEPS_DIR)
    try:
        import icontract  # noqa
        return True
    except Exception:
        pass
    import subprocess
    try:
        subprocess.run([sys.executable, '-m', 'pip', 'install', '--quiet', '--no-index', '--find-links', WHEELS, '--target', DEPS_DIR, 'icontract'],
                       check=True, stdout=subprocess.DEVNULL, stderr=subprocess.DEVNULL, timeout=300)
    except Exception:
        return False
    if DEPS_DIR not in sys.path:
        sys.path.append(DEPS_DIR)
    importlib.invalidate_caches()
    try:
        import icontract  # noqa
        return True
    except Exception:
        return False
