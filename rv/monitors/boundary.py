"""Boundary recorders: probe iterator / writer / registry wrap the real objects at the client boundary and append events to a
log (call event before, return event after).  Online trace automata over that log: writer protocol, read budget.

Also `run_py`: execute one query through the public `rbql.query` with probes armed, source snapshots taken, and every
observation collected in one place (used by most property modules).
"""
import zlib
import copy

from .. import env, util


class Log(object):
    def __init__(self):
        self.events = []
        self.clock = 0

    def add(self, who, op, detail=None):
        self.clock += 1
        self.events.append((self.clock, who, op, detail))

    def ops(self, who=None):
        return [e[2] for e in self.events if who is None or e[1] == who]


class ReadBudgetExceeded(Exception):
    pass


def make_probes(ns):
    """Probe classes derive from the tree's interface classes, so they are created per imported tree."""
    eng = ns.engine

    class ProbeIterator(eng.RBQLInputIterator):
        def __init__(self, real, log, who='A', budget=None, on_step=None):
            self.real = real
            self.log = log
            self.who = who
            self.reads = 0
            self.delivered = 0
            self.budget = budget
            self.on_step = on_step
            self.reads_after_stop = 0
            self.stopped = False

        def get_variables_map(self, query_text):
            return self.real.get_variables_map(query_text)

        def get_record(self):
            if self.on_step is not None:
                self.on_step(self.who, 'get_record')
            self.log.add(self.who, 'get_record:call')
            self.reads += 1
            if self.stopped:
                self.reads_after_stop += 1
            if self.budget is not None and self.reads > self.budget:
                self.log.add(self.who, 'get_record:budget-exceeded')
                raise ReadBudgetExceeded('%s read %d records, budget %d' % (self.who, self.reads, self.budget))
            rec = self.real.get_record()
            if rec is not None:
                self.delivered += 1
            self.log.add(self.who, 'get_record:return', None if rec is None else self.delivered)
            return rec

        def handle_query_modifier(self, modifier_name):
            self.log.add(self.who, 'modifier', modifier_name)
            return self.real.handle_query_modifier(modifier_name)

        def get_warnings(self):
            return self.real.get_warnings()

        def get_header(self):
            return self.real.get_header()

    class ProbeWriter(eng.RBQLOutputWriter):
        def __init__(self, log, false_at=None, on_step=None, who='W', real=None, mutating=False):
            self.mutating = mutating      # a sink that, like CSVWriter, rewrites the list it is handed (after keeping its own copy)
            self.log = log
            self.rows = []
            self.row_ids = []
            self.header = None
            self.header_calls = 0
            self.writes = 0
            self.finishes = 0
            self.false_at = false_at      # the k-th write (1-based) returns False
            self.returned_false = False
            self.on_step = on_step
            self.who = who
            self.real = real
            self.protocol_violations = []

        def set_header(self, header):
            if self.on_step is not None:
                self.on_step(self.who, 'set_header')
            self.header_calls += 1
            self.log.add(self.who, 'set_header', None if header is None else list(header))
            if self.header_calls > 1:
                self.protocol_violations.append('set_header called %d times' % self.header_calls)
            if self.writes:
                self.protocol_violations.append('set_header after %d writes' % self.writes)
            if self.finishes:
                self.protocol_violations.append('set_header after finish')
            self.header = None if header is None else list(header)
            if self.real is not None:
                self.real.set_header(header)

        def write(self, fields):
            if self.on_step is not None:
                self.on_step(self.who, 'write')
            self.writes += 1
            self.log.add(self.who, 'write:call', self.writes)
            if self.returned_false:
                self.protocol_violations.append('write #%d after a write returned False' % self.writes)
            if self.finishes:
                self.protocol_violations.append('write #%d after finish' % self.writes)
            if self.false_at is not None and self.writes >= self.false_at:
                self.returned_false = True
                self.log.add(self.who, 'write:return', False)
                return False
            self.row_ids.append(id(fields))
            ok = True
            if self.real is not None:
                self.rows.append(fields)
                ok = self.real.write(fields)
                if not ok:
                    self.returned_false = True
            elif self.mutating and isinstance(fields, list):
                self.rows.append(list(fields))
                for i in range(len(fields)):
                    fields[i] = '#sink:%d#' % i
                fields.append('#sink#')
            else:
                self.rows.append(fields)
            self.log.add(self.who, 'write:return', ok)
            return ok

        def finish(self):
            if self.on_step is not None:
                self.on_step(self.who, 'finish')
            self.finishes += 1
            self.log.add(self.who, 'finish')
            if self.finishes > 1:
                self.protocol_violations.append('finish called %d times' % self.finishes)
            if self.real is not None:
                self.real.finish()

        def get_warnings(self):
            return [] if self.real is None else self.real.get_warnings()

    class ProbeRegistry(eng.RBQLTableRegistry):
        def __init__(self, tables, log, normalize=True, on_step=None):
            """tables: {table_id: (table, column_names)}"""
            self.tables = tables
            self.log = log
            self.normalize = normalize
            self.iterators = []
            self.on_step = on_step
            self.finishes = 0

        def get_iterator_by_table_id(self, table_id, single_char_alias):
            self.log.add('R', 'get_iterator', table_id)
            if table_id not in self.tables:
                return None
            table, names = self.tables[table_id]
            it = ProbeIterator(eng.TableIterator(table, names, self.normalize, single_char_alias), self.log, 'B', on_step=self.on_step)
            self.iterators.append(it)
            return it

        def finish(self):
            self.finishes += 1

    return ProbeIterator, ProbeWriter, ProbeRegistry


_probe_cache = {}


def probes(ns):
    k = id(ns)
    if k not in _probe_cache:
        _probe_cache[k] = make_probes(ns)
    return _probe_cache[k]


class Obs(object):
    """Everything observed about one execution."""
    __slots__ = ('rows', 'header', 'warnings', 'error', 'error_msg', 'exc', 'log', 'a_reads', 'b_reads', 'writes', 'finishes', 'header_calls',
                 'protocol_violations', 'sources_changed', 'aliased', 'scribble_changed', 'b_read_before_first_output', 'b_iterators', 'rows_before_error')

    def error_record_numbers(self):
        return util.record_numbers(self.error_msg or '')


def deep_snapshot(t):
    return None if t is None else [list(r) for r in t]


EXTRA_JOIN_IDS = ['stra\u00dfe', 'ma\u00dfgr\u00f6\u00dfe.csv', '\ufb03les/\u01f0oin', 'B\u00df', '\u0130d.tbl']


def run_py(ns, qtext, A, B=None, a_names=None, b_names=None, false_at=None, budget=None, normalize=True, init_code='', input_iter=None, scribble=True, on_step=None, who='', mutating_sink=None):
    """Execute through the public `rbql.query` with probe iterator / writer / registry.  Sources are snapshotted before and
    compared after, also when the query raises."""
    PI, PW, PR = probes(ns)
    log = Log()
    snapA, snapB = deep_snapshot(A), deep_snapshot(B)
    idsA = [id(r) for r in A] if A is not None else []
    idsB = [id(r) for r in B] if B is not None else []
    real_it = input_iter if input_iter is not None else ns.engine.TableIterator(A, a_names, normalize)
    it = PI(real_it, log, 'A' + who, budget=budget, on_step=on_step)
    if mutating_sink is None:
        mutating_sink = zlib.crc32(qtext.encode('utf-8', 'surrogatepass')) % 2 == 1     # decided by the case itself, so a replay sees the same sink
    w = PW(log, false_at=false_at, on_step=on_step, who='W' + who, mutating=mutating_sink)
    reg = None
    if B is not None:
        tables = {'b': (B, b_names), 'B': (B, b_names)}
        for tid in EXTRA_JOIN_IDS:
            tables[tid] = (B, b_names)      # the same table under ids a registry of the caller may use: text that is not ASCII, that changes its length under upper()
        reg = PR(tables, log, normalize, on_step=on_step)
    warnings = []
    o = Obs()
    o.error = None
    o.error_msg = None
    o.exc = None
    try:
        ns.rbql.query(qtext, it, w, warnings, reg, user_init_code=init_code)
    except Exception as e:   # noqa
        o.error = util.error_class(e)
        o.error_msg = str(e)
        o.exc = e
    o.rows = w.rows
    o.header = w.header
    o.warnings = warnings
    o.log = log
    o.a_reads = it.reads
    o.b_reads = sum(x.reads for x in reg.iterators) if reg is not None else 0
    o.b_iterators = len(reg.iterators) if reg is not None else 0
    o.writes = w.writes
    o.finishes = w.finishes
    o.header_calls = w.header_calls
    o.protocol_violations = list(w.protocol_violations)
    o.rows_before_error = len(w.rows)
    # B must be read completely before the first output record is written
    o.b_read_before_first_output = True
    first_write = None
    last_b = None
    for clock, whoe, op, _d in log.events:
        if op == 'write:call' and first_write is None:
            first_write = clock
        if whoe == 'B' and op == 'get_record:call':
            last_b = clock
    if first_write is not None and last_b is not None and last_b > first_write:
        o.b_read_before_first_output = False
    # sources unchanged (values, row identity, lengths)
    changed = []
    if A is not None and input_iter is None:
        if deep_snapshot(A) != snapA or [id(r) for r in A] != idsA:
            changed.append('A')
    if B is not None:
        if deep_snapshot(B) != snapB or [id(r) for r in B] != idsB:
            changed.append('B')
    o.sources_changed = changed
    src_ids = set(idsA) | set(idsB)
    o.aliased = [i for i, rid in enumerate(w.row_ids) if rid in src_ids]
    o.scribble_changed = []
    if scribble and not mutating_sink:
        rows_copy = [list(r) if isinstance(r, list) else r for r in w.rows]
        for r in w.rows:
            if isinstance(r, list):
                for i in range(len(r)):
                    r[i] = '#scribble#'
                r.append('#scribble#')
        if A is not None and input_iter is None and deep_snapshot(A) != snapA:
            o.scribble_changed.append('A')
        if B is not None and deep_snapshot(B) != snapB:
            o.scribble_changed.append('B')
        # restore what the caller sees (and the sources, should they have been aliased)
        for r, c in zip(w.rows, rows_copy):
            if isinstance(r, list):
                r[:] = c
        o.rows = w.rows
    return o


def run_query_table(ns, qtext, A, B=None, a_names=None, b_names=None, normalize=True, init_code=''):
    """The plain public entry point, for differential use."""
    out, warnings, names = [], [], []
    err = None
    msg = None
    try:
        ns.rbql.query_table(qtext, A, out, warnings, B, a_names, b_names, names, normalize, init_code)
    except Exception as e:
        err = util.error_class(e)
        msg = str(e)
    return {'rows': out, 'header': names if names else None, 'warnings': warnings, 'error': err, 'error_msg': msg}
