"""Observers of the sources a query must never modify: file fingerprints, audit-hook log of open()/remove/rename/truncate,
recording sqlite connection (SQL strings + authorizer log), dataframe snapshots, strace parser for the CLI."""
import hashlib
import os
import re
import sqlite3
import sys


# ---------------------------------------------------------------------------------------------------------------
# files

def fingerprint(path):
    st = os.stat(path)
    with open(path, 'rb') as f:
        h = hashlib.sha256(f.read()).hexdigest()
    return {'sha256': h, 'size': st.st_size, 'mtime_ns': st.st_mtime_ns, 'ino': st.st_ino}


class AuditLog(object):
    """sys.addaudithook cannot be removed: one hook per process, armed/disarmed by a flag."""
    installed = None

    def __init__(self):
        self.armed = False
        self.events = []

    @classmethod
    def get(cls):
        if cls.installed is None:
            cls.installed = AuditLog()
            sys.addaudithook(cls.installed._hook)
        return cls.installed

    def _hook(self, event, args):
        if not self.armed:
            return
        if event == 'open':
            path, mode, flags = args[0], args[1], args[2]
            self.events.append(('open', _p(path), mode, flags))
        elif event in ('os.remove', 'os.rename', 'os.truncate', 'os.rmdir', 'shutil.move', 'shutil.rmtree', 'shutil.copyfile', 'os.chmod', 'os.link', 'os.symlink'):
            self.events.append((event,) + tuple(_p(a) for a in args[:2]))

    def start(self):
        self.events = []
        self.armed = True

    def stop(self):
        self.armed = False
        return self.events


def _p(x):
    if isinstance(x, bytes):
        try:
            return x.decode()
        except Exception:
            return repr(x)
    return x if isinstance(x, (str, int)) or x is None else repr(x)


WRITE_FLAGS = os.O_WRONLY | os.O_RDWR | os.O_APPEND | os.O_CREAT | os.O_TRUNC


def write_access_events(events, protected_paths):
    """Audit events that open a protected path for writing, or remove / rename / truncate it."""
    prot = set(os.path.realpath(p) for p in protected_paths)
    bad = []
    for ev in events:
        if ev[0] == 'open':
            _e, path, mode, flags = ev
            if not isinstance(path, str):
                continue
            if os.path.realpath(path) in prot:
                writing = (isinstance(flags, int) and flags & WRITE_FLAGS) or (isinstance(mode, str) and any(c in mode for c in 'wax+'))
                if writing:
                    bad.append(ev)
        else:
            for a in ev[1:]:
                if isinstance(a, str) and os.path.realpath(a) in prot:
                    bad.append(ev)
    return bad


# ---------------------------------------------------------------------------------------------------------------
# sqlite

class RecordingCursor(sqlite3.Cursor):
    def execute(self, sql, *args):
        self.connection.sql_log.append(sql)
        return sqlite3.Cursor.execute(self, sql, *args)

    def executemany(self, sql, *args):
        self.connection.sql_log.append(sql)
        return sqlite3.Cursor.executemany(self, sql, *args)

    def executescript(self, sql):
        self.connection.sql_log.append(sql)
        return sqlite3.Cursor.executescript(self, sql)


class RecordingConnection(sqlite3.Connection):
    def __init__(self, *a, **kw):
        sqlite3.Connection.__init__(self, *a, **kw)
        self.sql_log = []
        self.auth_log = []
        self.monitoring = False

    def cursor(self, factory=RecordingCursor):
        return sqlite3.Connection.cursor(self, factory)

    def execute(self, sql, *args):
        self.sql_log.append(sql)
        return sqlite3.Connection.execute(self, sql, *args)

    def executescript(self, sql):
        self.sql_log.append(sql)
        return sqlite3.Connection.executescript(self, sql)

    def arm(self):
        self.sql_log = []
        self.auth_log = []

        def cb(action, a1, a2, dbname, source):
            self.auth_log.append((action, a1, a2, dbname))
            return sqlite3.SQLITE_OK
        self.set_authorizer(cb)


READ_ONLY_ACTIONS = {sqlite3.SQLITE_SELECT, sqlite3.SQLITE_READ, sqlite3.SQLITE_FUNCTION}
SQL_ALLOWED_CHARS = re.compile(r'^[A-Za-z0-9_\s*;,"`\[\]]*$')
SQL_FROM = re.compile(r'(?is)^\s*select\s+.*?\sfrom\s+(["`\[]?)([^\s;"`\]]*)')


def sql_violations(sql_log, auth_log, existing_tables):
    """Three independent observations (so that a reformatting of the statement cannot raise a false alarm):
    authorizer actions, characters of the SQL text, identifier after FROM."""
    bad = []
    for action, a1, a2, dbname in auth_log:
        if action == sqlite3.SQLITE_PRAGMA and a2 is None:
            continue
        if action not in READ_ONLY_ACTIONS:
            bad.append('authorizer action %d on %r %r' % (action, a1, a2))
        elif action == sqlite3.SQLITE_READ and a1 not in existing_tables and not str(a1).startswith('sqlite_'):
            bad.append('read of unexpected table %r' % (a1,))
    for sql in sql_log:
        if not SQL_ALLOWED_CHARS.match(sql):
            bad.append('SQL text with characters outside identifiers / whitespace / * ; , / identifier quotes: %r' % (sql,))
            continue
        m = SQL_FROM.match(sql)
        if m and not re.match(r'^[A-Za-z0-9_]*$', m.group(2)):
            bad.append('identifier after FROM is not [A-Za-z0-9_]*: %r' % (sql,))
    return bad


# ---------------------------------------------------------------------------------------------------------------
# strace (CLI)

OPENAT = re.compile(r'openat\(AT_FDCWD, "((?:[^"\\]|\\.)*)", ([A-Z_|0-9a-fx]+)(?:, [0-7]+)?\)\s+= (-?\d+)')
OTHER = re.compile(r'\b(unlink|unlinkat|rename|renameat|renameat2|truncate)\((.*)\)\s+= (-?\d+)')


def strace_write_access(log_text, protected_paths):
    prot = set(os.path.realpath(p) for p in protected_paths)
    names = set(os.path.basename(p) for p in protected_paths)
    bad = []
    opens = 0
    for line in log_text.splitlines():
        m = OPENAT.search(line)
        if m:
            path, flags = m.group(1), m.group(2)
            try:
                path = path.encode('latin-1').decode('unicode_escape').encode('latin-1').decode('utf-8', 'replace')
            except Exception:
                pass
            if os.path.realpath(path) in prot:
                opens += 1
                if any(f in flags.split('|') for f in ('O_WRONLY', 'O_RDWR', 'O_TRUNC', 'O_APPEND', 'O_CREAT')):
                    bad.append(line.strip())
            continue
        m = OTHER.search(line)
        if m and any(n in m.group(2) for n in names):
            bad.append(line.strip())
    return bad, opens


def strace_collateral_paths(log_text, directory, allowed):
    """Paths below `directory` that the traced process created, opened for writing, renamed or removed, other than the `allowed` ones (the
    output it was asked to write): files of its own invention, whose names a caller's file may happen to have."""
    droot = os.path.realpath(directory) + os.sep
    ok = set(os.path.realpath(p) for p in allowed)
    out = []

    def note(path):
        try:
            path = path.encode('latin-1').decode('unicode_escape').encode('latin-1').decode('utf-8', 'replace')
        except Exception:
            pass
        rp = os.path.realpath(path if os.path.isabs(path) else os.path.join(directory, path))
        if rp.startswith(droot) and rp not in ok and rp not in out and '__pycache__' not in rp:
            out.append(rp)
    for line in log_text.splitlines():
        m = OPENAT.search(line)
        if m:
            if int(m.group(3)) >= 0 and any(f in m.group(2).split('|') for f in ('O_WRONLY', 'O_RDWR', 'O_TRUNC', 'O_APPEND', 'O_CREAT')):
                note(m.group(1))
            continue
        m = OTHER.search(line)
        if m and int(m.group(3)) >= 0:
            for q in re.findall(r'"((?:[^"\\]|\\.)*)"', m.group(2)):
                note(q)
    return out
