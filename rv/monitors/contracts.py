"""icontract post-conditions armed on the real public functions (named condition functions, explicit error=).

Contracts only run on normal return (neither icontract nor deal evaluates post-conditions after a raise); the exception paths are
covered by the snapshot monitors in rv/monitors/boundary.py.  Evaluation counters are exported: zero evaluations => inconclusive.
"""
from .. import env

COUNTS = {'header_width': 0, 'fresh_rows': 0, 'warnings_extended': 0, 'sources_unchanged': 0}


class ContractBroken(Exception):
    pass


def header_width_matches(input_table, join_table, output_table, output_column_names):
    COUNTS['header_width'] += 1
    if not output_column_names:
        return True
    for t in (input_table, join_table):
        if t and len(set(len(r) for r in t)) > 1:
            return True   # ragged sources: star / EXCEPT select lists have no fixed column count (outside the statement)
    return all(len(r) == len(output_column_names) for r in output_table)


def output_rows_are_fresh(input_table, join_table, output_table):
    COUNTS['fresh_rows'] += 1
    src = set(id(r) for r in input_table)
    if join_table is not None:
        src |= set(id(r) for r in join_table)
    return not any(id(r) in src for r in output_table)


def snapshot_warnings(output_warnings):
    return list(output_warnings)


def warnings_only_extended(output_warnings, OLD):
    COUNTS['warnings_extended'] += 1
    return output_warnings[:len(OLD.warnings_before)] == OLD.warnings_before


def snapshot_sources(input_table, join_table):
    return ([list(r) for r in input_table], None if join_table is None else [list(r) for r in join_table])


def sources_unchanged(input_table, join_table, OLD):
    COUNTS['sources_unchanged'] += 1
    a, b = OLD.sources_before
    return [list(r) for r in input_table] == a and (join_table is None or [list(r) for r in join_table] == b)


_armed = {}


def armed_query_table(ns):
    """-> (wrapped rbql.query_table, 'icontract' | 'hand-written').  The tree's function is wrapped from outside; nothing in /repo is edited."""
    k = id(ns)
    if k in _armed:
        return _armed[k]
    f = ns.engine.query_table
    mode = 'hand-written'
    if env.ensure_deps():
        import icontract
        g = icontract.ensure(header_width_matches, error=lambda: ContractBroken('output header width differs from a record width'))(f)
        g = icontract.ensure(output_rows_are_fresh, error=lambda: ContractBroken('an output row is an input row'))(g)
        g = icontract.snapshot(snapshot_warnings, name='warnings_before')(icontract.ensure(warnings_only_extended, error=lambda: ContractBroken('existing warnings were modified'))(g))
        g = icontract.snapshot(snapshot_sources, name='sources_before')(icontract.ensure(sources_unchanged, error=lambda: ContractBroken('input / join table modified'))(g))
        mode = 'icontract'
    else:
        def g(query_text, input_table, output_table, output_warnings, join_table=None, input_column_names=None, join_column_names=None, output_column_names=None, normalize_column_names=True, user_init_code=''):
            class OLD(object):
                pass
            OLD.warnings_before = snapshot_warnings(output_warnings)
            OLD.sources_before = snapshot_sources(input_table, join_table)
            r = f(query_text, input_table, output_table, output_warnings, join_table, input_column_names, join_column_names, output_column_names, normalize_column_names, user_init_code)
            if not header_width_matches(input_table, join_table, output_table, output_column_names):
                raise ContractBroken('output header width differs from a record width')
            if not output_rows_are_fresh(input_table, join_table, output_table):
                raise ContractBroken('an output row is an input row')
            if not warnings_only_extended(output_warnings, OLD):
                raise ContractBroken('existing warnings were modified')
            if not sources_unchanged(input_table, join_table, OLD):
                raise ContractBroken('input / join table modified')
            return r
    _armed[k] = (g, mode)
    return _armed[k]
