"""Deterministic cooperative scheduler: worker threads block at every step point until the controller grants the step.
All interleavings of the step points of N threads are enumerated by stateless depth-first search (a schedule is the sequence of
thread ids).  Also: sys.monitoring LINE-event yield injection for preemption stress."""
import random
import sys
import threading
import time


class Deadlock(Exception):
    pass


class Scheduler(object):
    def __init__(self, nthreads, prefix, watchdog_s=60.0, chooser=None):
        self.chooser = chooser
        self.n = nthreads
        self.prefix = list(prefix)
        self.trace = []          # thread id chosen at each decision
        self.enabled_log = []    # enabled thread ids at each decision
        self.labels = []         # (tid, who, op) of the step granted
        self.waiting = {}        # tid -> label of the step it is waiting to perform
        self.finished = set()
        self.turn = None
        self.cv = threading.Condition()
        self.watchdog_s = watchdog_s
        self.handoffs = 0

    # --- worker side
    def step(self, tid, who, op):
        with self.cv:
            self.waiting[tid] = (who, op)
            self.cv.notify_all()
            t0 = time.time()
            while self.turn != tid:
                if not self.cv.wait(1.0) and time.time() - t0 > self.watchdog_s:
                    raise Deadlock('thread %d starved at %s %s' % (tid, who, op))
            self.turn = None
            del self.waiting[tid]

    def done(self, tid):
        with self.cv:
            self.finished.add(tid)
            self.cv.notify_all()

    # --- controller side
    def control(self):
        last = None
        while True:
            with self.cv:
                t0 = time.time()
                while not (self.turn is None and len(self.waiting) + len(self.finished) == self.n):
                    if not self.cv.wait(1.0) and time.time() - t0 > self.watchdog_s:
                        raise Deadlock('controller: waiting=%r finished=%r turn=%r' % (self.waiting, self.finished, self.turn))
                if len(self.finished) == self.n:
                    return
                enabled = sorted(self.waiting)
                k = len(self.trace)
                choice = self.prefix[k] if k < len(self.prefix) else (self.chooser(enabled, k) if self.chooser is not None else enabled[0])
                if choice not in enabled:
                    raise Deadlock('schedule prefix asks for thread %r, enabled %r (nondeterministic step structure)' % (choice, enabled))
                self.enabled_log.append(enabled)
                self.trace.append(choice)
                self.labels.append((choice,) + self.waiting[choice])
                if last is not None and last != choice:
                    self.handoffs += 1
                last = choice
                self.turn = choice
                self.cv.notify_all()


def run_schedule(bodies, prefix, watchdog_s=60.0, chooser=None):
    """bodies: list of callables body(step) where step(who, op) is the step point.  Returns (scheduler, results, exceptions)."""
    s = Scheduler(len(bodies), prefix, watchdog_s, chooser)
    results = [None] * len(bodies)
    excs = [None] * len(bodies)

    def runner(tid):
        try:
            results[tid] = bodies[tid](lambda who, op: s.step(tid, who, op))
        except BaseException as e:   # noqa
            excs[tid] = e
        finally:
            s.done(tid)
    threads = [threading.Thread(target=runner, args=(i,), daemon=True) for i in range(len(bodies))]
    for t in threads:
        t.start()
    s.control()
    for t in threads:
        t.join(watchdog_s)
    return s, results, excs


def explore(make_bodies, on_run, max_schedules=None):
    """Stateless DFS over all interleavings.  make_bodies() -> fresh bodies for one run; on_run(scheduler, results, excs) is called per schedule.
    Returns (schedules, distinct traces, complete)."""
    stack = []
    prefix = []
    count = 0
    traces = set()
    while True:
        s, results, excs = run_schedule(make_bodies(), prefix)
        count += 1
        traces.add(tuple(s.trace))
        if on_run(s, results, excs) is False:
            return count, len(traces), False
        for k in range(len(prefix), len(s.trace)):
            stack.append([s.enabled_log[k], 0])
        while stack and stack[-1][1] + 1 >= len(stack[-1][0]):
            stack.pop()
        if not stack:
            return count, len(traces), True
        if max_schedules is not None and count >= max_schedules:
            return count, len(traces), False
        stack[-1][1] += 1
        prefix = [en[i] for en, i in stack]


# ---------------------------------------------------------------------------------------------------------------
# preemption stress: seeded sleep(0) between statements of the engine and of the generated main loop

class YieldInjector(object):
    TOOL = 3

    def __init__(self, seed, filenames, rate=0.05):
        self.seed = seed
        self.filenames = tuple(filenames)
        self.rate = rate
        self.local = threading.local()
        self.events = 0
        self.events_main_loop = 0
        self.yields = 0
        self.active = False

    def _rng(self):
        r = getattr(self.local, 'rng', None)
        if r is None:
            r = random.Random(self.seed * 1000003 + threading.get_ident() % 1000003)
            self.local.rng = r
        return r

    def _line(self, code, line):
        fn = code.co_filename
        if not (fn.endswith(self.filenames) or fn == '<main loop>'):
            return sys.monitoring.DISABLE
        self.events += 1
        if fn == '<main loop>':
            self.events_main_loop += 1
        if self._rng().random() < self.rate:
            self.yields += 1
            time.sleep(0)

    def start(self):
        mon = getattr(sys, 'monitoring', None)
        if mon is None:
            return False
        mon.use_tool_id(self.TOOL, 'rv-yield-injector')
        mon.register_callback(self.TOOL, mon.events.LINE, self._line)
        mon.set_events(self.TOOL, mon.events.LINE)
        self.active = True
        return True

    def stop(self):
        if not self.active:
            return
        mon = sys.monitoring
        mon.set_events(self.TOOL, 0)
        mon.register_callback(self.TOOL, mon.events.LINE, None)
        mon.free_tool_id(self.TOOL)
        self.active = False
