"""Deterministic cooperative scheduler: worker threads block at every step point until the controller grants the step.
All interleavings of the step points of N threads are enumerated by stateless depth-first search (a schedule is the sequence of
thread ids).  Also: sys.monitoring LINE-event yield injection for preemption stress."""
import random
import sys
import threading
import time


class Deadlock(Exception):
    pass


class Blocked(Exception):
    """The thread that was granted its step sleeps without using any CPU while every other thread is parked at a step point by the
    scheduler: under this schedule it waits for something only a parked thread could release, so the schedule can never complete."""
    pass


def _thread_cpu_state(native_id):
    """(state letter, utime + stime in clock ticks) of one thread of this process, from /proc; None when unavailable."""
    try:
        with open('/proc/self/task/%d/stat' % native_id) as f:
            rest = f.read().rsplit(')', 1)[1].split()
        return rest[0], int(rest[11]) + int(rest[12])
    except Exception:
        return None


class Scheduler(object):
    def __init__(self, nthreads, prefix, watchdog_s=60.0, chooser=None):
        self.chooser = chooser
        self.n = nthreads
        self.prefix = list(prefix)
        self.trace = []          # thread id chosen at each decision
        self.enabled_log = []    # enabled thread ids at each decision
        self.labels = []         # (tid, who, op) of the step granted
        self.waiting = {}        # tid -> label of the step it is waiting to perform
        self.finished = set()
        self.turn = None
        self.cv = threading.Condition()
        self.watchdog_s = watchdog_s
        self.handoffs = 0
        self.native = {}         # tid -> (native thread id, ident)
        self.free_run = False    # set once a schedule is abandoned: every step is granted at once so that the threads can end
        self.blocked = None      # description of the blocked thread when the schedule could not complete

    # --- worker side
    def step(self, tid, who, op):
        with self.cv:
            if self.free_run:
                return
            self.waiting[tid] = (who, op)
            self.cv.notify_all()
            t0 = time.time()
            while self.turn != tid:
                if self.free_run:
                    self.waiting.pop(tid, None)
                    return
                if not self.cv.wait(1.0) and time.time() - t0 > self.watchdog_s:
                    raise Deadlock('thread %d starved at %s %s' % (tid, who, op))
            self.turn = None
            del self.waiting[tid]

    def _diagnose_block(self, running):
        """Called by the controller (without the condition) when the granted thread has not come back for a while."""
        nat = self.native.get(running)
        if nat is None:
            return None
        samples = []
        frames = []
        for _ in range(3):
            samples.append(_thread_cpu_state(nat[0]))
            fr = sys._current_frames().get(nat[1])
            stack = []
            while fr is not None and len(stack) < 6:
                stack.append('%s:%d %s' % (fr.f_code.co_filename.rsplit('/', 1)[-1], fr.f_lineno, fr.f_code.co_name))
                fr = fr.f_back
            frames.append(tuple(stack))
            time.sleep(0.7)
        if any(x is None for x in samples):
            return None
        if all(st == 'S' for st, _t in samples) and samples[0][1] == samples[-1][1] and frames[0] == frames[-1] and frames[0]:
            return 'thread %d sleeps at %s (no CPU time used over %.1f s, same stack) while the other threads are parked at %r' % (
                running, ' <- '.join(frames[0][:4]), 0.7 * len(samples), dict(self.waiting))
        return None

    def done(self, tid):
        with self.cv:
            self.finished.add(tid)
            self.cv.notify_all()

    # --- controller side
    def control(self):
        last = None
        while True:
            with self.cv:
                t0 = time.time()
                while not (self.turn is None and len(self.waiting) + len(self.finished) == self.n):
                    if not self.cv.wait(1.0):
                        waited = time.time() - t0
                        if waited > self.watchdog_s:
                            raise Deadlock('controller: waiting=%r finished=%r turn=%r' % (self.waiting, self.finished, self.turn))
                        if waited > 3.0 and len(self.waiting) + len(self.finished) == self.n - 1:
                            # exactly one thread is running and it has been away for seconds on a step that takes microseconds
                            running = [t for t in range(self.n) if t not in self.waiting and t not in self.finished][0]
                            self.cv.release()
                            try:
                                why = self._diagnose_block(running)
                            finally:
                                self.cv.acquire()
                            if why is not None and not (self.turn is None and len(self.waiting) + len(self.finished) == self.n):
                                self.blocked = why
                                self.free_run = True
                                self.cv.notify_all()
                                raise Blocked(why)
                if len(self.finished) == self.n:
                    return
                enabled = sorted(self.waiting)
                k = len(self.trace)
                choice = self.prefix[k] if k < len(self.prefix) else (self.chooser(enabled, k) if self.chooser is not None else enabled[0])
                if choice not in enabled:
                    raise Deadlock('schedule prefix asks for thread %r, enabled %r (nondeterministic step structure)' % (choice, enabled))
                self.enabled_log.append(enabled)
                self.trace.append(choice)
                self.labels.append((choice,) + self.waiting[choice])
                if last is not None and last != choice:
                    self.handoffs += 1
                last = choice
                self.turn = choice
                self.cv.notify_all()


def run_schedule(bodies, prefix, watchdog_s=60.0, chooser=None):
    """bodies: list of callables body(step) where step(who, op) is the step point.  Returns (scheduler, results, exceptions)."""
    s = Scheduler(len(bodies), prefix, watchdog_s, chooser)
    results = [None] * len(bodies)
    excs = [None] * len(bodies)

    def runner(tid):
        s.native[tid] = (threading.get_native_id(), threading.get_ident())
        try:
            results[tid] = bodies[tid](lambda who, op: s.step(tid, who, op))
        except BaseException as e:   # noqa
            excs[tid] = e
        finally:
            s.done(tid)
    threads = [threading.Thread(target=runner, args=(i,), daemon=True) for i in range(len(bodies))]
    for t in threads:
        t.start()
    try:
        s.control()
    except Blocked:
        pass        # s.blocked says why; the threads now run freely to their end (the parked one releases what the blocked one waits for)
    for t in threads:
        t.join(watchdog_s)
    return s, results, excs


def explore(make_bodies, on_run, max_schedules=None):
    """Stateless DFS over all interleavings.  make_bodies() -> fresh bodies for one run; on_run(scheduler, results, excs) is called per schedule.
    Returns (schedules, distinct traces, complete)."""
    stack = []
    prefix = []
    count = 0
    traces = set()
    while True:
        s, results, excs = run_schedule(make_bodies(), prefix)
        count += 1
        traces.add(tuple(s.trace))
        if on_run(s, results, excs) is False:
            return count, len(traces), False
        for k in range(len(prefix), len(s.trace)):
            stack.append([s.enabled_log[k], 0])
        while stack and stack[-1][1] + 1 >= len(stack[-1][0]):
            stack.pop()
        if not stack:
            return count, len(traces), True
        if max_schedules is not None and count >= max_schedules:
            return count, len(traces), False
        stack[-1][1] += 1
        prefix = [en[i] for en, i in stack]


# ---------------------------------------------------------------------------------------------------------------
# preemption stress: seeded sleep(0) between statements of the engine and of the generated main loop

class YieldInjector(object):
    TOOL = 3

    def __init__(self, seed, filenames, rate=0.05):
        self.seed = seed
        self.filenames = tuple(filenames)
        self.rate = rate
        self.local = threading.local()
        self.events = 0
        self.events_main_loop = 0
        self.yields = 0
        self.active = False

    def _rng(self):
        r = getattr(self.local, 'rng', None)
        if r is None:
            r = random.Random(self.seed * 1000003 + threading.get_ident() % 1000003)
            self.local.rng = r
        return r

    def _line(self, code, line):
        fn = code.co_filename
        if not (fn.endswith(self.filenames) or fn == '<main loop>'):
            return sys.monitoring.DISABLE
        self.events += 1
        if fn == '<main loop>':
            self.events_main_loop += 1
        if self._rng().random() < self.rate:
            self.yields += 1
            time.sleep(0)

    def start(self):
        mon = getattr(sys, 'monitoring', None)
        if mon is None:
            return False
        mon.use_tool_id(self.TOOL, 'rv-yield-injector')
        mon.register_callback(self.TOOL, mon.events.LINE, self._line)
        mon.set_events(self.TOOL, mon.events.LINE)
        self.active = True
        return True

    def stop(self):
        if not self.active:
            return
        mon = sys.monitoring
        mon.set_events(self.TOOL, 0)
        mon.register_callback(self.TOOL, mon.events.LINE, None)
        mon.free_tool_id(self.TOOL)
        self.active = False
