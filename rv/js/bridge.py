"""Python side of the node batch driver."""
import json
import os
import shutil
import subprocess
import tempfile

from .. import env

DRIVER = os.path.join(os.path.dirname(os.path.abspath(__file__)), 'driver.js')


class NodeError(Exception):
    pass


class Node(object):
    def __init__(self, proc, scratch):
        self.proc = proc
        self.scratch = scratch
        self.noise = []
        self.info = None

    @classmethod
    def start(cls):
        node = env.node_path()
        if not node:
            return None
        if not os.path.isdir(env.JS_DIR):
            return None
        scratch = tempfile.mkdtemp(prefix='rv-node-')
        e = dict(os.environ)
        e['RBQL_REPO'] = env.REPO
        proc = subprocess.Popen([node, '--unhandled-rejections=warn', DRIVER], stdin=subprocess.PIPE, stdout=subprocess.PIPE, env=e, cwd=scratch)
        self = cls(proc, scratch)
        self.info = self.call({'op': 'hello', 'scratch': scratch})
        if not self.info.get('ok') or not os.path.abspath(self.info['js_dir']).startswith(env.REPO):
            raise NodeError('driver hello failed: %r' % (self.info,))
        return self

    def call(self, req):
        line = json.dumps(req) + '\n'
        try:
            self.proc.stdin.write(line.encode('utf-8'))
            self.proc.stdin.flush()
            out = self.proc.stdout.readline()
        except (BrokenPipeError, OSError) as e:
            raise NodeError('node driver died: %s' % e)
        if not out:
            raise NodeError('node driver closed its stdout (exit %s)' % self.proc.poll())
        resp = json.loads(out.decode('utf-8'))
        if 'driver_error' in resp:
            raise NodeError('driver error: %r' % (resp,))
        noise = resp.pop('async_noise', [])
        if noise:
            self.noise.extend(noise)
        return resp

    def take_noise(self):
        n, self.noise = self.noise, []
        return n

    def close(self):
        try:
            self.proc.stdin.close()
            self.proc.wait(timeout=10)
        except Exception:
            self.proc.kill()
        shutil.rmtree(self.scratch, ignore_errors=True)
