// Node batch driver: JSONL requests on stdin -> JSONL responses on stdout.
// Loads the JS port from $RBQL_REPO/rbql-js by absolute path (never from node_modules).
'use strict';
const fs = require('fs');
const path = require('path');
const os = require('os');
const readline = require('readline');
const { Readable, Writable } = require('stream');

const REPO = process.env.RBQL_REPO || '/repo';
const JS_DIR = path.join(REPO, 'rbql-js');
const rbql = require(path.join(JS_DIR, 'rbql.js'));
const rbql_csv = require(path.join(JS_DIR, 'rbql_csv.js'));
const csv_utils = require(path.join(JS_DIR, 'csv_utils.js'));

let scratch_dir = null;
let file_counter = 0;
let async_noise = [];   // unhandled rejections / warnings / uncaught exceptions observed since the last response

process.on('unhandledRejection', (reason) => { async_noise.push({kind: 'unhandledRejection', msg: String(reason && reason.message || reason)}); });
process.on('warning', (w) => { async_noise.push({kind: 'warning', msg: String(w && w.message || w)}); });
process.on('uncaughtException', (e) => { async_noise.push({kind: 'uncaughtException', msg: String(e && e.message || e), cls: e && e.constructor && e.constructor.name}); });

function err_info(e) {
    if (e === null || e === undefined)
        return null;
    let cls = (e && e.constructor && e.constructor.name) || typeof e;
    // the type the public classifier of the package gives the exception (what its command line prints as `Error [type]`)
    let kind = null;
    try { kind = rbql.exception_to_error_info(e)[0]; } catch (e2) { kind = 'classifier raised: ' + String(e2 && e2.message || e2); }
    return {cls: cls, msg: String(e && e.message !== undefined ? e.message : e), kind: kind};
}

function tmp_file(bytes) {
    file_counter += 1;
    let p = path.join(scratch_dir, 'f' + file_counter + '.bin');
    fs.writeFileSync(p, bytes);
    return p;
}

function turns(n) {
    // n event-loop turns (logical time, no wall clock)
    return new Promise((resolve) => {
        let k = 0;
        function step() { k += 1; if (k >= n) resolve(); else setImmediate(step); }
        setImmediate(step);
    });
}

class PrescribedReadable extends Readable {
    constructor(chunks, async_delivery) {
        super({highWaterMark: 1});
        this.async_delivery = !!async_delivery;      // every chunk in an event-loop iteration of its own, like a file or a socket delivers them
        this.chunks = chunks.slice();
        this.total_chunks = chunks.length;
        this.emitted = [];
        this.ended = false;
        let orig_emit = this.emit;
        let self = this;
        this.emit = function(ev, arg) {
            if (ev === 'data') self.emitted.push(arg.length);
            if (ev === 'end') self.ended = true;
            return orig_emit.apply(this, arguments);
        };
    }
    _read() {
        let chunk = this.chunks.length ? this.chunks.shift() : null;
        if (this.async_delivery) {
            setImmediate(() => { this.push(chunk); });
        } else {
            this.push(chunk);
        }
    }
}

async function next_record(it, stream, what) {
    // -> {settled, rec | err} ; stuck when the promise stays pending for many event-loop turns after the stream ended (logical watchdog, no wall clock)
    let state = {settled: false, rec: undefined, err: undefined, stuck: false};
    let p = null;
    try {
        p = what === 'header' ? it.get_header() : it.get_record();
    } catch (e) {
        state.settled = true; state.err = e; return state;
    }
    p = Promise.resolve(p).then((r) => { state.settled = true; state.rec = r; }, (e) => { state.settled = true; state.err = e; });
    if (!stream) {
        // bulk mode: the promise settles once the file has been read - unless the reader died in a callback of its own (an uncaught exception was
        // recorded meanwhile): then nothing will ever settle it, which is reported as stuck instead of being waited for
        let noise0 = async_noise.length;
        while (!state.settled) {
            await turns(1);
            if (async_noise.length > noise0 && async_noise.slice(noise0).some((x) => x.kind === 'uncaughtException')) {
                for (let k = 0; k < 50 && !state.settled; k++) await turns(1);
                if (!state.settled) { state.stuck = true; state.err = undefined; break; }
            }
        }
        return state;
    }
    // a record that is already queued is taken at once (microtasks only), as a real consumer does: the consumer can then run far ahead of the producer
    for (let k = 0; k < 3 && !state.settled; k++) await null;
    if (state.settled) return state;
    let idle_after_end = 0;
    let total_turns = 0;
    // a stream over a real file delivers its chunks when the operating system has read them: event-loop turns are no measure of that (on a loaded
    // machine one 64 KiB read can outlast tens of thousands of idle turns), so the turn budget applies to the in-memory streams only; a file stream
    // is waited for until it has ended (plus the idle turns), under a generous wall-clock watchdog of its own
    let real_io = stream instanceof fs.ReadStream;
    let t0 = Date.now();
    while (!state.settled) {
        await turns(1);
        total_turns += 1;
        if (stream.ended || stream.destroyed) idle_after_end += 1;
        if (idle_after_end > 200) break;
        if (!real_io && total_turns > 20000 + 50 * (stream.total_chunks || 0)) break;   // e.g. the stream was paused and never resumed
        if (real_io && total_turns % 1000 == 0) {
            if (Date.now() - t0 > 120000) break;
            await new Promise((resolve) => setTimeout(resolve, 1));                      // let the IO make progress instead of spinning
        }
    }
    if (!state.settled) state.stuck = true;
    return state;
}

async function drain_iterator(it, stream, max_records, pause_every) {
    // pause_every: a consumer that hands control back to the event loop after every so many records (it awaits IO of its own), so that the producer
    // runs ahead and the records pile up between the two
    let records = [];
    let error = null;
    let stuck = false;
    while (true) {
        if (pause_every && records.length % pause_every == 0) await turns(1);
        let st = await next_record(it, stream);
        if (st.stuck) { stuck = true; break; }
        if (st.err !== undefined) { error = err_info(st.err); break; }
        if (st.rec === null) break;
        records.push(st.rec);
        if (max_records && records.length >= max_records) break;
    }
    return {records: records, error: error, stuck: stuck};
}

async function op_read(req) {
    // req: {bytes_hex, chunks:[len...]|null (null => bulk), encoding, delim, policy, has_header, comment_prefix}
    let bytes = Buffer.from(req.bytes_hex, 'hex');
    let stream = null;
    let csv_path = null;
    if (req.chunks === null || req.chunks === undefined) {
        csv_path = tmp_file(bytes);
    } else {
        let bufs = [];
        let pos = 0;
        for (let n of req.chunks) { bufs.push(bytes.subarray(pos, pos + n)); pos += n; }
        stream = new PrescribedReadable(bufs, !!req.async_delivery);
    }
    let result = {};
    try {
        let it = new rbql_csv.CSVRecordIterator(stream, csv_path, req.encoding, req.delim, req.policy, !!req.has_header, req.comment_prefix || null);
        let header = null;
        let herr = null;
        let hstuck = false;
        if (req.has_header) {
            // the header is awaited under the same logical watchdog as the records: a reader whose promise never settles is reported, not waited for
            let hs = await next_record(it, stream, 'header');
            if (hs.stuck) hstuck = true;
            else if (hs.err !== undefined) herr = err_info(hs.err);
            else header = hs.rec;
        }
        if (hstuck) {
            result = {records: [], error: null, stuck: true, header: null, warnings: []};
        } else if (herr) {
            result = {records: [], error: herr, stuck: false, header: null, warnings: []};
        } else {
            let d = await drain_iterator(it, stream, null, req.consumer_pause_every || 0);
            result = {records: d.records, error: d.error, stuck: d.stuck, header: header, warnings: it.get_warnings()};
        }
    } catch (e) {
        result = {records: [], error: err_info(e), stuck: false, header: null, warnings: []};
    }
    if (stream) result.emitted = stream.emitted;
    if (csv_path) { try { fs.unlinkSync(csv_path); } catch (e) {} }
    return result;
}

async function op_overlap(req) {
    // two stream iterators whose lifetimes overlap (what a JOIN does): A is created and asked for its first record, then B is created and read
    // completely, then the rest of A is read.  Each must see exactly its own content.
    function mk(c) {
        let bytes = Buffer.from(c.bytes_hex, 'hex');
        let bufs = [], pos = 0;
        for (let n of c.chunks) { bufs.push(bytes.subarray(pos, pos + n)); pos += n; }
        let stream = new PrescribedReadable(bufs, true);
        return [stream, new rbql_csv.CSVRecordIterator(stream, null, c.encoding, c.delim, c.policy, !!c.has_header, c.comment_prefix || null)];
    }
    let result = {a: {records: [], error: null, stuck: false}, b: {records: [], error: null, stuck: false}};
    try {
        let [sa, ita] = mk(req.a);
        // what the engine does before it builds the join map: the header / first record of A is pre-read, which pauses A's stream
        let first = await next_record(ita, sa, 'header');
        if (first.stuck) result.a.stuck = true;
        else if (first.err !== undefined) result.a.error = err_info(first.err);
        let [sb, itb] = mk(req.b);
        let db = await drain_iterator(itb, sb, null);
        result.b = {records: db.records, error: db.error, stuck: db.stuck, warnings: itb.get_warnings()};
        if (!result.a.stuck && result.a.error === null) {
            let da = await drain_iterator(ita, sa, null);
            result.a.records = da.records;
            result.a.error = da.error;
            result.a.stuck = da.stuck;
        }
        result.a.warnings = ita.get_warnings();
    } catch (e) {
        result.driver_exception = err_info(e);
    }
    return result;
}

async function op_read_file_stream(req) {
    // real fs.createReadStream over a file (default 64 KiB chunks) vs bulk
    let bytes = Buffer.from(req.bytes_hex, 'hex');
    let p = tmp_file(bytes);
    let out = {};
    for (let mode of ['stream', 'bulk']) {
        let stream = mode == 'stream' ? fs.createReadStream(p, req.hwm ? {highWaterMark: req.hwm} : undefined) : null;
        let sizes = [];
        if (stream) {
            let orig_emit = stream.emit; stream.ended = false;
            stream.emit = function(ev, arg) { if (ev === 'data') sizes.push(arg.length); if (ev === 'end') stream.ended = true; return orig_emit.apply(this, arguments); };
        }
        try {
            let it = new rbql_csv.CSVRecordIterator(stream, mode == 'bulk' ? p : null, req.encoding, req.delim, req.policy, false, null);
            let d = await drain_iterator(it, stream, null, req.consumer_pause_every || 0);
            out[mode] = {records: d.records, error: d.error, stuck: d.stuck, warnings: it.get_warnings(), emitted: sizes};
        } catch (e) {
            out[mode] = {records: [], error: err_info(e), stuck: false, warnings: [], emitted: sizes};
        }
    }
    try { fs.unlinkSync(p); } catch (e) {}
    return out;
}

class CollectWritable extends Writable {
    // async_cb: the sink completes every write on a later event-loop turn, as a file or a pipe does - only then does write() report backpressure
    // (a line longer than the high-water mark, or many lines in one turn) and 'drain' follow
    constructor(async_cb) { super(); this.parts = []; this.async_cb = !!async_cb; }
    _write(chunk, enc, cb) { this.parts.push(Buffer.isBuffer(chunk) ? chunk : Buffer.from(chunk, enc)); if (this.async_cb) setImmediate(cb); else cb(); }
}

async function op_write(req) {
    // req: {table, delim, policy, line_separator, encoding, header}
    let sink = new CollectWritable(req.async_sink);
    let result = {};
    let table = req.revive ? req.table.map(revive) : req.table;
    // the language's own text of every cell (String(value), arrays element by element), taken before the writer sees the table
    let texts = req.want_texts ? table.map((r) => r.map((v) => Array.isArray(v) ? v.map((x) => String(x)) : String(v))) : undefined;
    try {
        let w = new rbql_csv.CSVWriter(sink, true, req.encoding, req.delim, req.policy, req.line_separator === undefined ? '\n' : req.line_separator);
        if (req.header) w.set_header(req.header);
        for (let rec of table) {
            await w.write(rec.slice());
        }
        await w.finish();
        await turns(2);
        if (req.async_sink) { for (let k = 0; k < 200 && sink.writableLength > 0; k++) await turns(1); }
        result = {bytes_hex: Buffer.concat(sink.parts).toString('hex'), warnings: w.get_warnings(), error: null};
    } catch (e) {
        result = {bytes_hex: Buffer.concat(sink.parts).toString('hex'), warnings: [], error: err_info(e)};
    }
    result.texts = texts;
    return result;
}

function op_split_batch(req) {
    let results = [];
    for (let c of req.cases) {
        let r = {};
        try {
            let [fields, warning] = csv_utils.smart_split(c.line, c.dlm, c.policy, false);
            let [pfields, pwarning] = csv_utils.smart_split(c.line, c.dlm, c.policy, true);
            r = {fields: fields, warning: !!warning, pfields: pfields, pwarning: !!pwarning};
        } catch (e) {
            r = {error: err_info(e)};
        }
        results.push(r);
    }
    return {results: results};
}

function op_quote_batch(req) {
    let results = [];
    for (let c of req.cases) {
        try {
            results.push({q: csv_utils.quote_field(c.field, c.dlm), rfc: csv_utils.rfc_quote_field(c.field, c.dlm)});
        } catch (e) {
            results.push({error: err_info(e)});
        }
    }
    return {results: results};
}

function deep_clone(x) { return JSON.parse(JSON.stringify(x)); }

function revive(v) {
    // the inverse of jsonable for request tables: cells that JSON cannot carry
    if (Array.isArray(v)) {
        let arr = v.map(revive);
        // {__js__: 'hole'}: an empty slot of a sparse array (new Array(3), [a, , b]) - the index is not an own property, reading it gives undefined
        for (let i = 0; i < v.length; i++) if (v[i] !== null && typeof v[i] === 'object' && v[i].__js__ === 'hole') delete arr[i];
        return arr;
    }
    if (v !== null && typeof v === 'object' && v.__js__ !== undefined) {
        switch (v.__js__) {
            case 'undefined': return undefined;
            case 'NaN': return NaN;
            case 'Infinity': return Infinity;
            case '-Infinity': return -Infinity;
            case '-0': return -0;
            case 'bigint': return BigInt(v.v);
            case 'date': return new Date(v.v);
        }
    }
    return v;
}

function own_extras(arr) {
    // own properties of an array beyond its elements and length (names and symbols, enumerable or not), and a foreign prototype:
    // a source table / record that was tagged, frozen into another class or given a property is not "unchanged"
    let extras = [];
    for (let k of Reflect.ownKeys(arr)) {
        if (k === 'length') continue;
        if (typeof k === 'string' && /^(0|[1-9][0-9]*)$/.test(k) && Number(k) < arr.length) continue;
        let v;
        try { v = jsonable(arr[k]); } catch (e) { v = '?'; }
        extras.push([String(k), v]);
    }
    if (Object.getPrototypeOf(arr) !== Array.prototype) extras.push(['__proto__', 'foreign']);
    if (Object.isFrozen(arr) || Object.isSealed(arr) || !Object.isExtensible(arr)) extras.push(['__extensible__', false]);
    return extras;
}

function snap_row(r) {
    let cells = r.map(jsonable);
    let extras = own_extras(r);
    return extras.length ? {cells: cells, own_properties: extras} : cells;
}

function snap(t) {
    if (t === null || t === undefined) return JSON.stringify(null);
    let rows = t.map((r) => Array.isArray(r) ? snap_row(r) : jsonable(r));
    let extras = Array.isArray(t) ? own_extras(t) : [];
    return JSON.stringify(extras.length ? {rows: rows, own_properties: extras} : rows);
}

function jsonable(v) {
    // make output cells JSON-safe while keeping the distinction null / undefined / NaN / numbers / strings / arrays
    if (v === undefined) return {__js__: 'undefined'};
    if (v instanceof Date) return {__js__: 'date', v: v.toISOString()};
    if (typeof v === 'number' && !Number.isFinite(v)) return {__js__: String(v)};
    if (typeof v === 'bigint') return {__js__: 'bigint', v: String(v)};
    if (Array.isArray(v)) return v.map(jsonable);
    if (v !== null && typeof v === 'object') {
        try { return {__js__: 'object', v: JSON.stringify(v)}; } catch (e) { return {__js__: 'object', v: String(v)}; }
    }
    if (typeof v === 'function') return {__js__: 'function'};
    return v;
}

async function op_query_table(req) {
    // req: {query, input, join, input_cols, join_cols, normalize, init_code}
    let input = req.revive ? req.input.map(revive) : req.input;
    let join = req.join === undefined || req.join === null ? null : (req.revive ? req.join.map(revive) : req.join);
    let before_in = snap(input);
    let before_join = snap(join);
    let in_rows = input.slice();
    let join_rows = join ? join.slice() : null;
    let out = [];
    let warnings = [];
    let out_cols = [];
    let error = null;
    let out_ids = null;
    try {
        if (req.mutating_sink) {
            // a sink that, like the CSV writer, rewrites the array it is handed after keeping its own copy (records reach `out` as copies)
            class MutatingWriter extends rbql.RBQLOutputWriter {
                constructor() { super(); this.header = null; this.handed = []; }
                async write(fields) {
                    this.handed.push(fields);
                    out.push(Array.isArray(fields) ? fields.slice() : fields);
                    if (Array.isArray(fields)) { for (let i = 0; i < fields.length; i++) fields[i] = '#sink:' + i + '#'; fields.push('#sink#'); }
                    return true;
                }
                set_header(header) { this.header = header; }
            }
            let normalize = req.normalize === undefined ? true : req.normalize;
            let w = new MutatingWriter();
            let it = new rbql.TableIterator(input, req.input_cols || null, normalize);
            let reg = join === null ? null : new rbql.SingleTableRegistry(join, req.join_cols || null, normalize);
            await rbql.query(req.query, it, w, warnings, reg, req.init_code || '');
            if (w.header !== null) for (let c of w.header) out_cols.push(c);
            out_ids = w.handed;
        } else {
            await rbql.query_table(req.query, input, out, warnings, join, req.input_cols || null, req.join_cols || null, out_cols, req.normalize === undefined ? true : req.normalize, req.init_code || '');
        }
    } catch (e) {
        error = err_info(e);
    }
    let src_rows = new Set(in_rows);
    if (join_rows) for (let r of join_rows) src_rows.add(r);
    let aliased = 0;
    for (let r of (out_ids || out)) if (src_rows.has(r)) aliased += 1;
    let identity_ok = input.length == in_rows.length && input.every((r, i) => r === in_rows[i]);
    if (join) identity_ok = identity_ok && join.length == join_rows.length && join.every((r, i) => r === join_rows[i]);
    let out_json = out.map((r) => Array.isArray(r) ? r.map(jsonable) : jsonable(r));
    // alias detection that does not depend on identity: scribble over every output row, then compare the sources again
    let mid_in = snap(input), mid_join = snap(join);
    for (let r of out) { if (Array.isArray(r)) for (let i = 0; i < r.length; i++) r[i] = '#scribble#'; }
    let after_in = snap(input), after_join = snap(join);
    return {
        out: out_json, header: out_cols,
        warnings: warnings, error: error,
        input_unchanged: before_in === mid_in, join_unchanged: before_join === mid_join,
        scribble_safe: mid_in === after_in && mid_join === after_join,
        identity_ok: identity_ok, aliased_rows: aliased,
    };
}

async function op_query_csv_sink(req) {
    // array input (possibly with nested array cells) -> rbql.query -> the CSV writer.  Deep JSON snapshots of the sources before and after.
    let input = req.input;
    let join = req.join === undefined ? null : req.join;
    let before_in = JSON.stringify(input), before_join = JSON.stringify(join);
    let before_in_props = snap(input), before_join_props = snap(join);
    let before_cols = JSON.stringify([req.input_cols || null, req.join_cols || null]);
    let sink = new CollectWritable();
    let warnings = [];
    let error = null;
    try {
        let it = new rbql.TableIterator(input, req.input_cols || null);
        let w = new rbql_csv.CSVWriter(sink, true, 'utf-8', req.delim || ',', req.policy || 'quoted');
        let reg = join ? new rbql.SingleTableRegistry(join, req.join_cols || null) : null;
        await rbql.query(req.query, it, w, warnings, reg, req.init_code || '');
        await turns(2);
    } catch (e) {
        error = err_info(e);
    }
    return {error: error, warnings: warnings, bytes_hex: Buffer.concat(sink.parts).toString('hex'),
            input_unchanged: JSON.stringify(input) === before_in && snap(input) === before_in_props, join_unchanged: JSON.stringify(join) === before_join && snap(join) === before_join_props,
            input_after: JSON.stringify(input), join_after: JSON.stringify(join),
            cols_unchanged: JSON.stringify([req.input_cols || null, req.join_cols || null]) === before_cols, cols_after: JSON.stringify([req.input_cols || null, req.join_cols || null])};
}

async function op_query_batch(req) {
    let results = [];
    for (let c of req.cases) {
        results.push(await op_query_table(c));
    }
    return {results: results};
}

async function op_like_batch(req) {
    // pairs through the public path: select like(a1, a2) over a two-column table
    let out = [];
    let warnings = [];
    let error = null;
    try {
        await rbql.query_table(req.where ? 'select a1, a2 where like(a1, a2)' : 'select like(a1, a2)', req.pairs, out, warnings);
    } catch (e) {
        error = err_info(e);
    }
    let direct = null;
    if (typeof rbql.like_to_regex === 'function' && req.direct) {
        direct = req.pairs.map((p) => new RegExp(rbql.like_to_regex(p[1])).test(p[0]));
    }
    return {out: out, error: error, direct: direct};
}

async function op_like_literal_batch(req) {
    // the pattern is a string literal in the query text: one query per case over a one-column table of texts
    let results = [];
    for (let c of req.cases) {
        let out = [];
        let warnings = [];
        let error = null;
        try {
            await rbql.query_table(c.query, c.texts.map((t) => [t]), out, warnings);
        } catch (e) {
            error = err_info(e);
        }
        results.push({out: out.map((r) => r[0]), error: error});
    }
    return {results: results};
}

async function op_like_cross(req) {
    // cross product texts x patterns through the public path; result packed as a string of 0/1 (pattern-major)
    let rows = [];
    for (let p of req.patterns) for (let t of req.texts) rows.push([t, p]);
    let out = [];
    let warnings = [];
    let error = null;
    let packed = '';
    try {
        if (req.where) {
            await rbql.query_table('select NR where like(a1, a2)', rows, out, warnings);
            let hit = new Set(out.map((r) => r[0]));
            let parts = [];
            for (let i = 1; i <= rows.length; i++) parts.push(hit.has(i) ? '1' : '0');
            packed = parts.join('');
        } else {
            await rbql.query_table('select like(a1, a2)', rows, out, warnings);
            packed = out.map((r) => r[0] === true ? '1' : (r[0] === false ? '0' : '?')).join('');
        }
    } catch (e) {
        error = err_info(e);
    }
    return {packed: packed, error: error, n: rows.length};
}

async function op_roundtrip(c) {
    // JS writer -> bytes -> JS bulk reader
    let w = await op_write(c);
    let out = {bytes_hex: w.bytes_hex, wwarnings: w.warnings, werror: w.error, records: null, rwarnings: [], rerror: null, texts: w.texts};
    if (w.error === null) {
        let r = await op_read({bytes_hex: w.bytes_hex, chunks: c.stream_chunks || null, encoding: c.encoding, delim: c.delim, policy: c.policy, has_header: false, comment_prefix: null});
        out.records = r.records; out.rwarnings = r.warnings; out.rerror = r.error;
        if (c.also_stream) {
            // the same bytes through the stream reader: in one chunk and cut in two
            let n = w.bytes_hex.length / 2;
            let cuts = [[n]];
            if (n > 1) cuts.push([Math.floor(n / 2), n - Math.floor(n / 2)]);
            out.stream = [];
            for (let chunks of cuts) {
                let rs = await op_read({bytes_hex: w.bytes_hex, chunks: chunks.filter((x) => x > 0), encoding: c.encoding, delim: c.delim, policy: c.policy, has_header: false, comment_prefix: null});
                out.stream.push({records: rs.records, warnings: rs.warnings, error: rs.error, stuck: rs.stuck});
            }
        }
    }
    return out;
}

function* all_partitions(n) {
    if (n == 0) { yield []; return; }
    for (let mask = 0; mask < (1 << (n - 1)); mask++) {
        let cuts = []; let last = 0;
        for (let i = 0; i < n - 1; i++) { if ((mask >> i) & 1) { cuts.push(i + 1 - last); last = i + 1; } }
        cuts.push(n - last);
        yield cuts;
    }
}

function observation_key(r) {
    // When reading fails, the result is the failure (its class): how many records a consumer happened to receive before the
    // error surfaced is not part of the statement (the bulk reader reports a stored error before any record).
    if (r.error)
        return JSON.stringify({error: r.error.cls, stuck: !!r.stuck});
    return JSON.stringify({records: r.records, header: r.header, warnings: (r.warnings || []).slice().sort(), error: null, stuck: !!r.stuck});
}

async function op_stream_vs_bulk(req) {
    // differential monitor inside node: the stream reader under prescribed chunkings vs the bulk reader on the same bytes
    let runs = 0, cases_done = 0, mismatches = [], traces = 0, bulk_errors = 0, nontrivial = 0;
    for (let c of req.cases) {
        let n = c.bytes_hex.length / 2;
        let base = {bytes_hex: c.bytes_hex, encoding: c.encoding, delim: c.delim, policy: c.policy, has_header: !!c.has_header, comment_prefix: c.comment_prefix || null, async_delivery: !!c.async_delivery, consumer_pause_every: c.consumer_pause_every || 0};
        let bulk = await op_read(Object.assign({chunks: null}, base));
        let bulk_key = observation_key(bulk);
        if (bulk.error) bulk_errors += 1;
        cases_done += 1;
        let parts = c.partitions ? c.partitions : Array.from(all_partitions(n));
        let bad = 0;
        for (let chunks of parts) {
            let st = await op_read(Object.assign({chunks: chunks}, base));
            runs += 1;
            if (st.emitted && st.emitted.length == chunks.filter((x) => x > 0).length) traces += 1;
            if (observation_key(st) !== bulk_key) {
                bad += 1;
                if (bad <= 2 && mismatches.length < 40) mismatches.push({case: c, chunks: chunks, stream: st, bulk: bulk});
            }
        }
        if (bad) c.bad = bad;
    }
    let bad_total = 0;
    for (let c of req.cases) bad_total += (c.bad || 0);
    return {runs: runs, cases: cases_done, mismatches: mismatches, mismatch_runs: bad_total, faithful_traces: traces, bulk_errors: bulk_errors};
}

async function op_query_unbounded(req) {
    // bounded streaming query over an unbounded lazy input: a Proxy that looks like an endless array and throws once the read budget is exceeded
    const cells = ['a', 'b', 'ab', '1', '2'];
    let reads = 0;
    let max_index = -1;
    let lazy = new Proxy([], {
        get(target, prop) {
            if (prop === 'length') return Number.MAX_SAFE_INTEGER;
            if (typeof prop === 'string' && /^[0-9]+$/.test(prop)) {
                let k = Number(prop);
                reads += 1;
                max_index = Math.max(max_index, k);
                if (reads > req.budget) throw new Error('ReadBudgetExceeded: read ' + reads + ' records, budget ' + req.budget);
                let rec = [];
                for (let j = 0; j < req.width; j++) rec.push(cells[((k * (j + 2) + j) % req.period) % cells.length]);
                return rec;
            }
            return target[prop];
        }
    });
    let out = [], warnings = [], error = null;
    try {
        await rbql.query_table(req.query, lazy, out, warnings, req.join === undefined ? null : req.join);
    } catch (e) {
        error = err_info(e);
    }
    return {out: out.map((r) => Array.isArray(r) ? r.map(jsonable) : jsonable(r)), error: error, reads: reads, max_index: max_index};
}

async function op_query_csv_text(req) {
    // CSV bytes -> CSVRecordIterator (bulk from a file, or a stream with prescribed chunks) -> rbql.query -> CSVWriter: the warnings the caller receives
    let bytes = Buffer.from(req.bytes_hex, 'hex');
    let stream = null, csv_path = null;
    if (req.chunks === null || req.chunks === undefined) {
        csv_path = tmp_file(bytes);
    } else {
        let bufs = [], pos = 0;
        for (let n of req.chunks) { bufs.push(bytes.subarray(pos, pos + n)); pos += n; }
        stream = new PrescribedReadable(bufs, !!req.async_delivery);
    }
    let sink = new CollectWritable();
    let warnings = [], error = null;
    try {
        let it = new rbql_csv.CSVRecordIterator(stream, csv_path, req.encoding, req.delim, req.policy, !!req.has_header, req.comment_prefix || null);
        let w = new rbql_csv.CSVWriter(sink, true, req.encoding, req.out_delim, req.out_policy);
        await rbql.query(req.query, it, w, warnings);
        await turns(2);
    } catch (e) {
        error = err_info(e);
    }
    if (csv_path) { try { fs.unlinkSync(csv_path); } catch (e) {} }
    return {bytes_hex: Buffer.concat(sink.parts).toString('hex'), warnings: warnings, error: error};
}

async function op_read_path(req) {
    // a file prepared by the caller (too big to travel inside the request): bulk reader or fs.createReadStream; the records come back as a count and a digest
    let stream = req.bulk ? null : fs.createReadStream(req.path, req.hwm ? {highWaterMark: req.hwm} : undefined);
    if (stream) {
        let orig_emit = stream.emit; stream.ended = false;
        stream.emit = function(ev, arg) { if (ev === 'end') stream.ended = true; return orig_emit.apply(this, arguments); };
    }
    let out = {};
    try {
        let it = new rbql_csv.CSVRecordIterator(stream, req.bulk ? req.path : null, req.encoding, req.delim, req.policy, false, null);
        let d = await drain_iterator(it, stream, null, 0);
        let h = require('crypto').createHash('sha1');
        let bad = null;
        for (let i = 0; i < d.records.length; i++) { let t = JSON.stringify(d.records[i]); h.update(t); if (bad === null && t.indexOf('\ufffd') >= 0) bad = i + 1; }
        out = {n_records: d.records.length, sha1: h.digest('hex'), first_record_with_replacement_character: bad, error: d.error, stuck: d.stuck, warnings: it.get_warnings()};
    } catch (e) {
        out = {n_records: 0, sha1: null, error: err_info(e), stuck: false, warnings: []};
    }
    return out;
}

async function op_query_csv_files(req) {
    // the file-to-file entry point of the JS package (stream or bulk reading), on paths prepared by the caller
    let warnings = [], error = null;
    try {
        await rbql_csv.query_csv(req.query, req.input_path, req.delim, req.policy, req.output_path, req.out_delim, req.out_policy, req.encoding || 'utf-8', warnings,
                                 !!req.with_headers, req.comment_prefix || null, req.init_code || '', req.bulk_read ? {bulk_read: true} : null);
        await turns(3);
    } catch (e) {
        error = err_info(e);
    }
    let out_hex = null;
    try { out_hex = fs.readFileSync(req.output_path).toString('hex'); } catch (e) { out_hex = null; }
    return {warnings: warnings, error: error, out_hex: out_hex};
}

async function handle(req) {
    switch (req.op) {
        case 'hello': scratch_dir = req.scratch; return {ok: true, node: process.version, js_dir: JS_DIR, rbql_version: rbql.version};
        case 'split_batch': return op_split_batch(req);
        case 'quote_batch': return op_quote_batch(req);
        case 'read': return await op_read(req);
        case 'read_batch': { let rs = []; for (let c of req.cases) rs.push(await op_read(c)); return {results: rs}; }
        case 'read_file_stream': return await op_read_file_stream(req);
        case 'overlap_batch': { let rs = []; for (let c of req.cases) rs.push(await op_overlap(c)); return {results: rs}; }
        case 'write': return await op_write(req);
        case 'write_batch': { let rs = []; for (let c of req.cases) rs.push(await op_write(c)); return {results: rs}; }
        case 'query_table': return await op_query_table(req);
        case 'query_batch': return await op_query_batch(req);
        case 'query_csv_sink_batch': { let rs = []; for (let c of req.cases) rs.push(await op_query_csv_sink(c)); return {results: rs}; }
        case 'like_batch': return await op_like_batch(req);
        case 'roundtrip_batch': { let rs = []; for (let c of req.cases) rs.push(await op_roundtrip(c)); return {results: rs}; }
        case 'stream_vs_bulk': return await op_stream_vs_bulk(req);
        case 'query_unbounded': return await op_query_unbounded(req);
        case 'query_csv_text_batch': { let rs = []; for (let c of req.cases) rs.push(await op_query_csv_text(c)); return {results: rs}; }
        case 'query_csv_files': return await op_query_csv_files(req);
        case 'read_path': return await op_read_path(req);
        case 'like_cross': return await op_like_cross(req);
        case 'like_literal_batch': return await op_like_literal_batch(req);
        default: return {error: {cls: 'DriverError', msg: 'unknown op ' + req.op}};
    }
}

async function main() {
    const rl = readline.createInterface({input: process.stdin, crlfDelay: Infinity});
    for await (const line of rl) {
        if (!line.trim()) continue;
        let req = null;
        let resp = null;
        try {
            req = JSON.parse(line);
            resp = await handle(req);
        } catch (e) {
            resp = {driver_error: err_info(e), stack: String(e && e.stack)};
        }
        await turns(1);
        resp.async_noise = async_noise;
        async_noise = [];
        process.stdout.write(JSON.stringify(resp) + '\n');
    }
}

main().then(() => process.exit(0), (e) => { process.stderr.write(String(e && e.stack || e) + '\n'); process.exit(3); });
