"""Shared helpers: warning classification, error classification, tolerant record-number extraction."""
import re


def warning_kind(w):
    lw = w.lower()
    if 'byte order' in lw or 'bom' in lw:
        return 'bom'
    if 'quot' in lw:
        return 'quote'
    if 'fields' in lw and 'consistent' in lw:
        return 'fields'
    if 'none' in lw or 'null' in lw:
        return 'none'
    if 'separator' in lw or 'delim' in lw:
        return 'sep'
    if 'header' in lw:
        return 'joinheader'
    return 'other:' + w[:40]


def warning_kinds(ws):
    return sorted(warning_kind(w) for w in ws)


def error_class(e):
    """'parsing' | 'runtime' | 'io' | 'syntax' | 'other:<Type>' -- the taxonomy of exception_to_error_info, by class name only."""
    if e is None:
        return None
    n = type(e).__name__
    if 'RbqlParsingError' in n:
        return 'parsing'
    if 'RbqlRuntimeError' in n:
        return 'runtime'
    if 'RbqlIOHandlingError' in n:
        return 'io'
    if isinstance(e, SyntaxError):
        return 'syntax'
    return 'other:' + n


_rec_rgx = re.compile(r'record\D{0,3}(\d+)', re.IGNORECASE)


def record_numbers(msg):
    """Record numbers named in an error/warning text, tolerant of wording."""
    nums = [int(x) for x in _rec_rgx.findall(msg)]
    if nums:
        return nums
    return [int(x) for x in re.findall(r'(?<![A-Za-z0-9_.])(\d+)(?![A-Za-z0-9_.])', msg)]
