#!/bin/bash
# Offline set-up: icontract beside the repository's interpreter (git-ignored .deps); everything else is stdlib / node.
cd "$(dirname "$0")" || exit 1
PY=/venv/bin/python
if ! PYTHONPATH=.deps $PY -c 'import icontract' 2>/dev/null; then
  $PY -m pip install --quiet --no-index --find-links /opt/veriftools/wheels --target .deps icontract || echo "setup: icontract unavailable; contracts degrade to hand-written wrappers" >&2
fi
$PY -c 'import sys; print("python", sys.version.split()[0])'
/usr/bin/node --version || echo "setup: node missing (JS legs unavailable)" >&2
exit 0
