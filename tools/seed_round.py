#!/usr/bin/env python3
"""Prepare one round of independently seeded changes: a scratch worktree of /repo and a self-contained prompt per property.
  tools/seed_round.py <root dir, e.g. /tmp/seed5> [Cxx ...]
Each prompt holds the property text (from properties.jsonl), the worktree path and one-sentence summaries of the ideas already kept under
seeded/ for that property (so that the next participant picks another mechanism).  Nothing else from /verif is shown to a participant."""
import glob
import json
import os
import subprocess
import sys

HERE = os.path.dirname(os.path.dirname(os.path.abspath(__file__)))


def main():
    root = sys.argv[1]
    only = sys.argv[2:]
    props = {}
    for l in open(os.path.join(HERE, 'properties.jsonl')):
        p = json.loads(l)
        props[p['id']] = p
    tmpl = open(os.path.join(HERE, 'tools', 'seed_prompt.tmpl')).read()
    used = {}
    for d in sorted(glob.glob(os.path.join(HERE, 'seeded', 'C*')) + glob.glob(os.path.join(HERE, 'seeded', '_not_kept', 'C*'))):
        m = json.load(open(os.path.join(d, 'meta.json')))
        pid = m['property'] if isinstance(m.get('property'), str) else os.path.basename(d)[:3]
        used.setdefault(pid, []).append(str(m['summary'])[:330])
    for pid, p in props.items():
        if only and pid not in only:
            continue
        base = os.path.join(root, pid)
        os.makedirs(os.path.join(base, 'out'), exist_ok=True)
        subprocess.run(['git', '-C', '/repo', 'worktree', 'add', '--detach', os.path.join(base, 'wt'), 'HEAD'], stdout=subprocess.DEVNULL, stderr=subprocess.DEVNULL)
        text = '%s - %s\n\n%s\n\nCode paths involved: %s' % (pid, p['title'], p['statement'], '; '.join('%s (%s)' % (m['name'], m['where']) for m in p['anchors'].get('mechanism', [])))
        pr = tmpl.replace('{WT}', base + '/wt').replace('{OUT}', base + '/out').replace('{ROOT}', root).replace('{PROPERTY}', text).replace('{PID}', pid)
        ideas = used.get(pid, [])
        if ideas:
            pr += ('\n\nIMPORTANT - these ideas have ALREADY been used by earlier participants for this property; do NOT reuse them or close variants (same function + same trick). '
                   'Pick a DIFFERENT mechanism, clause of the property, code path, front-end or port (Python vs JavaScript), and prefer a clause of the property statement that none of them touches:\n'
                   + '\n'.join('  - ' + i for i in ideas) + '\n')
        open(os.path.join(base, 'PROMPT.txt'), 'w').write(pr)
        print(pid, len(ideas), len(pr))


if __name__ == '__main__':
    main()
