#!/usr/bin/env python3
"""Advisory: line coverage of the repository's Python modules under (a slice of) the quick workloads, in-process.
   /venv/bin/python tools/cov.py  ->  missing lines per module (CLI subprocesses and exec'd code are not measured)."""
import os
import sys
HERE = os.path.dirname(os.path.dirname(os.path.abspath(__file__)))
sys.path.insert(0, HERE)
os.environ.setdefault('PYTHONHASHSEED', '0')
import coverage
cov = coverage.Coverage(source=['/repo/rbql-py/rbql'], data_file=None)
cov.start()
from rv import env, runner
env.import_rbql()
for pid in sys.argv[1:] or ['C%02d' % i for i in range(1, 21)]:
    mod = runner.load_prop(pid)
    specs = mod.plan('quick', 0)
    seen = set()
    for i, spec in enumerate(specs):
        kind = spec.get('kind', 'default')
        if kind in seen or kind in ('strace', 'realpipe', 'js', 'js-exh', 'preempt', 'interleave'):
            continue
        seen.add(kind)
        spec.update(tier='quick', seed=0, shard=i)
        if 'n' in spec and isinstance(spec['n'], int):
            spec['n'] = min(spec['n'], 150)
        res = runner.ShardResult()
        try:
            mod.run_shard(spec, res)
        except Exception as e:
            print(pid, kind, 'EXC', repr(e)[:100])
        print(pid, kind, res.evaluations, len(res.violations), file=sys.stderr)
cov.stop()
cov.report(show_missing=True, skip_empty=True)
