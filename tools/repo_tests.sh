#!/bin/bash
# Regression helper (not a registered check): the pinned baseline + the repository's own unit tests run against the TREE (py and js).
REPO="${1:-/repo}"
cd "$REPO" || exit 2
echo "== pinned baseline (imports site-packages rbql)"
env -u RBQL_VERIF /venv/bin/python -m pytest -q -p no:cacheprovider --timeout=900 --continue-on-collection-errors 2>&1 | tail -3
echo "== tree: python unittest"
PYTHONDONTWRITEBYTECODE=1 PYTHONPATH=./rbql-py /venv/bin/python -W ignore -m unittest test.test_csv_utils test.test_rbql test.test_rbql_sqlite test.test_rbql_pandas test.test_mad_max 2>&1 | tail -4
echo "== tree: node tests"
(cd test && node test_rbql.js 2>&1 | tail -2; echo "rc=$?"; node test_csv_utils.js 2>&1 | tail -2; echo "rc=$?")
git -C "$REPO" status --short | head
