#!/usr/bin/env python3
"""Print the DESIGN.md table rows for one round of kept seeded changes:  python3 tools/seed_table.py k   (suffix letter of the round; '' for round 1)."""
import glob
import json
import os
import re
import sys
HERE = os.path.dirname(os.path.dirname(os.path.abspath(__file__)))
suffix = sys.argv[1] if len(sys.argv) > 1 else ''
print('| id | change | needs | caught by (quick tier) | when |')
print('|---|---|---|---|---|')
for d in sorted(glob.glob(os.path.join(HERE, 'seeded', 'C*'))):
    name = os.path.basename(d)
    if not re.match(r'^C\d\d%s-' % suffix, name):
        continue
    m = json.load(open(os.path.join(d, 'meta.json')))
    caught = [c for c, r in m.get('checks_run', {}).items() if r.get('caught')]
    when = 'strengthened after a miss' if m.get('history') else 'first run'
    clean = lambda s: s.replace('|', '/').replace('\n', ' ')
    print('| %s | %s | %s | %s | %s |' % (name, clean(m['summary'])[:150], clean(m.get('needs_to_manifest', ''))[:170], ' '.join(caught), when))
