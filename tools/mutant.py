#!/usr/bin/env python3
"""Self-validation: apply a property-breaking edit to a scratch copy of /repo (outside /repo and /verif), run checks with
RBQL_REPO pointing at it, expect exit 1, remove the copy.   tools/mutant.py [name ...]   (no names: all)
Mutations live in tools/mutations.json: {name: {file, old, new, props:[...], count?}}.
"""
import json
import os
import shutil
import subprocess
import sys
import tempfile

HERE = os.path.dirname(os.path.dirname(os.path.abspath(__file__)))


def run_one(name, mut, tier='quick'):
    d = tempfile.mkdtemp(prefix='rbql-mut-', dir='/var/tmp')
    try:
        subprocess.run(['rsync', '-a', '--exclude', '.git', '/repo/', d + '/'], check=True)
        edits = mut['edits'] if 'edits' in mut else [mut]
        for e in edits:
            p = os.path.join(d, e['file'])
            s = open(p).read()
            if s.count(e['old']) < 1:
                return name, 'STALE (pattern not found in %s)' % e['file'], {}
            s = s.replace(e['old'], e['new'], e.get('count', 1))
            open(p, 'w').write(s)
        results = {}
        for prop in mut['props']:
            env = dict(os.environ, RBQL_REPO=d, VERIF_EVIDENCE_DIR=os.path.join(d, '.evidence'), VERIF_REPLAY_DIR=os.path.join(d, '.replays'))
            r = subprocess.run([os.path.join(HERE, 'check'), prop, tier], env=env, stdout=subprocess.PIPE, stderr=subprocess.DEVNULL, text=True)
            mech = [l.strip() for l in r.stdout.splitlines() if l.strip().startswith('mechanism=')]
            results[prop] = (r.returncode, mech[:2])
        ok = all(rc == 1 for rc, _ in results.values())
        return name, 'CAUGHT' if ok else 'MISSED', results
    finally:
        shutil.rmtree(d, ignore_errors=True)


def main():
    muts = json.load(open(os.path.join(HERE, 'tools', 'mutations.json')))
    names = sys.argv[1:] or sorted(muts)
    if names and names[0].startswith('C') and names[0][1:].isdigit():
        props = set(names)
        names = [n for n in sorted(muts) if props & set(muts[n]['props'])]
    bad = 0
    for n in names:
        name, verdict, results = run_one(n, muts[n])
        print('%-40s %s' % (name, verdict))
        for prop, (rc, mech) in results.items():
            print('    %s exit=%d %s' % (prop, rc, (mech[0][:150] if mech else '')))
        if verdict != 'CAUGHT':
            bad += 1
    # restore evidence written while RBQL_REPO pointed elsewhere
    return 1 if bad else 0


if __name__ == '__main__':
    sys.exit(main())
