#!/usr/bin/env python3
"""Regenerate MANIFEST.json from the table below (keeps the file valid while checks land one by one)."""
import json
import os

HERE = os.path.dirname(os.path.dirname(os.path.abspath(__file__)))

# property id -> (category, technique, level text, level note, design section)
CHECKS = {
 'C11': ('exploration', 'runtime monitor: reference-model oracle (character-level state machine) over exhaustive small-scope lines + random Unicode lines, observed at the public reader and smart_split; JS twin via node driver',
         'Every line over the class alphabet up to 8/9 symbols per delimiter and policy is executed on the real splitter and reader and compared with an independent state-machine oracle; held on the executions observed, nothing is proved.',
         'Trusted: rv/model/refcsv.py as the dialect; interchangeability of non-special characters (sampled by relabelling).', 'DESIGN.md#c11'),

 'C12': ('exploration', 'runtime monitor: differential oracle (chunked vs whole read of the same real reader) under injected short-reading streams, exhaustive partitions of small texts / byte strings; whole read cross-checked against a reference reader',
         'Every partition of every small text (and of multi-byte byte samples) is delivered to the real CSVRecordIterator through an injected stream and the observation compared with the one-piece delivery; held on the delivery schedules observed.',
         'Trusted: the injected streams model what a pipe can deliver (read(k) returns at most k, possibly fewer); rv/model/refcsv.py read_text for the cross-check.', 'DESIGN.md#c12'),
 'C17': ('exploration', 'runtime monitor: reference-model oracle (dynamic-programming LIKE matcher) over exhaustive small pattern/text pairs and random Unicode pairs, observed through select/where like() on the Python and JS engines',
         'All pattern/text pairs over the 14-symbol alphabet up to the stated lengths run through the real engines and are compared with an independent matcher; held on the pairs observed.',
         'Trusted: rv/model/refcsv.py like(); single-line texts only.', 'DESIGN.md#c17'),

 'C10': ('exploration', 'runtime monitor: round-trip oracle on the real writer/reader pair with representability decided by an independent reference dialect; exhaustive small tables x dialects, random tables, all-256-byte latin-1 table, file-to-file leg, JS leg',
         'Every small table over the special-character alphabet is written by the real CSVWriter and read back by the real CSVRecordIterator in every dialect; lossy-output warnings are asserted on every non-representable write; held on the tables observed.',
         'Trusted: rv/model/refcsv.py writer/reader pair as the definition of representable.', 'DESIGN.md#c10'),

 'C20': ('exploration', 'runtime monitor: differential oracle inside the node driver (stream reader under prescribed Buffer chunkings vs bulk reader on the same bytes), exhaustive chunkings of small inputs and of multi-byte UTF-8 samples, real fs.createReadStream around the 64 KiB boundary',
         'Every chunking of every small input is fed to the real JS CSVRecordIterator through an instrumented Readable that logs the chunks it emitted, and compared with bulk reading; held on the chunkings observed.',
         'Trusted: the bulk reader as reference for the file content (tied to the Python reader by C18); stuck detection counts event-loop turns, not wall clock.', 'DESIGN.md#c20'),

 'C18': ('exploration', 'runtime monitor: differential oracle between the Python port (in-process) and the JS port (node driver) on exhaustive small lines / fields / files, cross round trips and generated common-syntax select lists',
         'Both ports are executed on the same exhaustive small inputs and every observable (fields, warning flag, quoted form, records, header, warning multiset, error class, written bytes, output header) is compared; held on the inputs observed.',
         'Differential only: defects shared by both ports are invisible here and are covered by the reference-model checks (C10-C12, C07).', 'DESIGN.md#c18'),

 'C01': ('exploration', 'runtime monitor: reference-model oracle (independent interpreter of the relational semantics) over generated structured queries x tables, observed through probe iterator/writer/registry (event log, alias map, source snapshots); JS leg via node',
         'Tens of thousands of generated (query, table, join table) cases per run are executed on the real engines and compared exactly (rows in order, header, error class and record number) with an independent interpreter; held on the executions observed.',
         'Trusted: rv/model/refsem.py; expressions limited to the typed vocabulary of rv/model/qast.py.', 'DESIGN.md#c01'),

 'C02': ('exploration', 'runtime monitor: reference-model oracle + metamorphic oracles on the real engine (TOP n = prefix of the unbounded run for every n, DESC = reverse of ASC) + read-budget trace automaton over an unbounded lazy input; JS leg via node',
         'Every bound n in 0..|out|+1 of thousands of generated sort/dedup/truncate queries is executed; bounded streaming queries run over an unbounded input whose iterator raises once the budget p_(n+1) is exceeded; held on the executions observed.',
         'Trusted: rv/model/refsem.py. The termination clause is restated as bounded progress (reads <= position of the record producing output n+1).', 'DESIGN.md#c02'),

 'C03': ('exploration', 'runtime monitor: reference-model oracle (groups as lists, exact rational arithmetic) over generated aggregate queries x numeric tables, observed through the probe writer; JS leg via node with the known key-order finding classified by mechanism',
         'Tens of thousands of generated aggregate queries (all nine aggregates in three spellings, 0-2 group keys, WHERE, TOP) are executed and every cell compared with exactly computed values; held on the executions observed.',
         'Trusted: rv/model/refsem.py aggregate(); tolerance 1e-9 relative for floating-point aggregates.', 'DESIGN.md#c03'),

 'C04': ('exploration', 'runtime monitor: reference-model oracle (join expansion by nested loops) over generated table pairs x join spellings x downstream query shapes; probe registry trace (join table read once, completely, before the first output); JS leg via node',
         'Tens of thousands of generated (A, B, join query) cases with duplicate keys on both sides, ragged and empty tables and all five join spellings are executed and compared exactly with the expanded-pairs semantics; held on the executions observed.',
         'Trusted: rv/model/refsem.py expand().', 'DESIGN.md#c04'),
 'C05': ('exploration', 'runtime monitor: reference-model oracle + per-row diff monitor (set of changed (row, field) pairs) over generated UPDATE queries incl. swaps / cycles, NU, joins, ragged tables; JS leg via node',
         'Generated UPDATE queries are executed and both the emitted table and the exact set of changed cells are compared with the model; assignments beyond a short record must fail naming the record and the field; held on the executions observed.',
         'Trusted: rv/model/refsem.py _run_update.', 'DESIGN.md#c05'),

 'C07': ('exploration', 'runtime monitor: icontract post-conditions on the real query_table (header width = record width, fresh rows, warnings only extended, sources unchanged) + reference naming rules as oracle + the width-enforcing CSV and pandas writers as secondary observers; JS leg via node',
         'Generated select lists with nested brackets, commas in calls and literals, aliases, stars, DISTINCT COUNT, EXCEPT, GROUP BY, UPDATE, joins are executed with and without input header; header names are compared with the documented rule and header width with every emitted record; held on the executions observed.',
         'Trusted: rv/model/refsem.py header_names; rectangular tables only (fixed-width select lists).', 'DESIGN.md#c07'),

 'C06': ('exploration', 'runtime monitors armed around every query (success and every exception path): deep snapshots + row identity + scribble test of list sources, icontract on query_table, dataframe deep copies, recording sqlite connection + authorizer log + total_changes + database file hash under hostile identifiers, file fingerprints + sys.addaudithook log of open modes, strace on the CLI, JS array snapshots in the node driver',
         'Every query shape of C01-C05 plus failing variants is executed against every source kind with observers that record any write access or change; the sqlite clause is decided from three independent observations (authorizer actions, SQL text characters, identifier after FROM); held on the executions observed.',
         'Trusted: the observers (audit hook, authorizer, strace parser). sqlite3.connect opens the file read-write by itself; the file hash decides there.', 'DESIGN.md#c06'),

 'C14': ('fault_enumeration', 'runtime monitor: fault enumeration (a poisoned record at every position x every clause placement; every static mistake; an invalid byte at every offset; every subset of warning anomalies) with the reference error predictor and a per-anomaly warning predictor as oracles; probe-writer trace for "no record written before a parsing error"; JS leg',
         'Every fault position of the enumerated scenario families is executed on the real engine; the error class, the named record / field and the exact warning set are compared with prediction; held on the scenarios enumerated.',
         'Trusted: rv/model/refsem.py error prediction, rv/model/refcsv.py reader for the warning predictor. Error texts are never compared.', 'DESIGN.md#c14'),

 'C15': ('fault_enumeration', 'runtime monitor: fault injection at every point (output stream raising EPIPE at write k, user writer returning False at write k, invalid byte at every offset, every error outcome of query_csv / query_sqlite_to_csv) with online trace automata (writer protocol, no stream write / input read after the fault), prefix oracle on delivered bytes, descriptor tracking (open() of the front-end modules wrapped, /proc/self/fd, ResourceWarning)',
         'Every write index of 15 query shapes is made to fail, every byte offset of a UTF-8 file is corrupted, and every outcome class of the file front-ends is driven while all opened file objects are tracked; held on the fault points enumerated.',
         'Trusted: the injected sinks model a consumer that went away (EPIPE on every write from k on). "Promptly" = no further stream write after a failed data write, at most one further input read.', 'DESIGN.md#c15'),

 'C08': ('exploration', 'runtime monitor: metamorphic oracle (every respelling of one structured query must give the identical observation) + reference-model oracle for the canonical spelling and for literal opacity; known literal-token finding classified by mechanism (re-run with the token neutralised)',
         'Thousands of structured queries are rendered in random compositions of the spelling transformations, with literals drawn from every keyword and metacharacter, and all spellings are executed on the real engine and compared exactly; held on the spellings observed.',
         'Trusted: rv/model/qast.py respell() only applies transformations the statement lists; rv/model/refsem.py.', 'DESIGN.md#c08'),

 'C09': ('exploration', 'runtime monitor: unique-value position oracle (cell (r,c) = token r{r}c{c}, so a returned value identifies its column) over random hostile headers x every column x every spelling x sources {list, pandas, sqlite, CSV, CLI}; WITH-modifier matrix on CSV input and join files',
         'For thousands of random headers every column is looked up in every spelling through every source kind, also as UPDATE target, EXCEPT column and JOIN key; the WITH (header|noheader) x caller flag x {input, join} matrix is enumerated completely; held on the headers observed.',
         'Trusted: qast.lit as the way a user writes a name as a string literal; names with an a.ident / b.ident token are excluded as quantified.', 'DESIGN.md#c09'),

 'C13': ('exploration', 'runtime monitor: differential oracle between query_table and eight entry points (rbql.query with user-written classes, query_csv, CLI file / stdin-stdout in three output formats, pandas, sqlite library and CLI) with process observers (exit status, stdout, stderr captured separately)',
         'Generated type-agnostic queries over rectangular string tables run through every front-end and are compared cell by cell (after the stringification CSV sinks apply) and header by header with query_table; failing queries check exit status, Error [type] on stderr and warning routing; held on the cases observed.',
         'Differential: query_table is the reference (pinned by C01-C05, C07). CLI output is parsed with rv/model/refcsv.py in the announced dialect.', 'DESIGN.md#c13'),

 'C16': ('exploration', 'runtime monitor: fresh-interpreter solo baselines as oracle; history leg (all sequences of length <= 2 + random longer ones in one process); deterministic cooperative scheduler over two real threads enumerating ALL interleavings of get_record / write (/ finish) steps by stateless DFS; preemption stress with sys.monitoring LINE-event yield injection; module-state snapshot (advisory)',
         'Every unordered pair of 14 scenarios (successes and every failure class) is run under every interleaving of its iterator / writer steps, and every short history is replayed in one process; each result must equal the result of the same query alone in a fresh interpreter; held on the schedules and histories observed.',
         'Exhaustive at the granularity of iterator / writer calls (what the statement names) on 2-record tables (quick) and 3/4-record tables (thorough, capped); statement-level preemption is sampled, bytecode-level is not explored. The JS port keeps its context in a module global (documented) and is not claimed.', 'DESIGN.md#c16'),

 'C19': ('exploration', 'runtime monitor: reference-model oracle on language-neutral structured queries rendered to JS and executed by the node driver, with array snapshot monitors (deep JSON, row identity, scribble test); two known JS findings classified by mechanism',
         'Thousands of generated queries covering select / where / order / distinct / top / limit / aggregates / joins / update / except / unnest / header naming run on the real JS engine and are compared with the independent interpreter; the caller\'s arrays are snapshotted around every call; held on the executions observed.',
         'Trusted: rv/model/refsem.py; the language-neutral vocabulary of rv/model/qast.py.', 'DESIGN.md#c19'),
}

NOT_YET = 'check not registered yet (machinery under construction; see DESIGN.md section 3a build order)'


def main():
    props = [json.loads(l) for l in open(os.path.join(HERE, 'properties.jsonl'))]
    checks = []
    na = []
    for p in props:
        pid = p['id']
        if pid in CHECKS:
            cat, tech, text, note, ref = CHECKS[pid]
            checks.append({
                'property_id': pid,
                'quick_cmd': './check %s quick' % pid,
                'thorough_cmd': './check %s thorough' % pid,
                'evidence_file': '/verif/evidence/%s.json' % pid,
                'replay_cmd_template': './check %s --replay {path}' % pid,
                'engine': 'rv',
                'level_claimed': {'category': cat, 'text': text, 'design_ref': ref},
                'level_note': note,
                'technique': tech,
            })
        else:
            na.append({'property_id': pid, 'reason': NOT_YET})
    manifest = {
        'version': 1,
        'setup_cmd': 'cd /verif && ./setup.sh',
        'hooks': {
            'guard': 'RBQL_VERIF',
            'enable': 'no source hooks: every boundary (iterator / writer / registry objects, open(), sqlite connection, node streams) is wrapped from the harness; RBQL_VERIF is reserved and exported by ./check but read by nothing in /repo',
            'baseline_off_cmd': 'cd /repo && env -u RBQL_VERIF /venv/bin/python -m pytest -ra -q -p no:cacheprovider --timeout=900 --continue-on-collection-errors',
            'source_commits': [],
            'add_only': True,
        },
        'engines': [{'name': 'rv', 'path': '/verif/rv', 'serves_properties': sorted(CHECKS), 'kind_free_text': 'runtime monitoring harness: sharded workload runner, reference models as oracles, boundary recorders, trace automata, node batch driver'}],
        'checks': checks,
        'notes': 'Runtime monitoring of RBQL (Python + JS ports); see DESIGN.md. ./check <Cxx> <quick|thorough> [--replay f]. Known findings: known_findings.json.',
        'not_applicable': na,
    }
    with open(os.path.join(HERE, 'MANIFEST.json'), 'w') as f:
        json.dump(manifest, f, indent=1)
        f.write('\n')
    print('checks: %d, not_applicable: %d' % (len(checks), len(na)))


if __name__ == '__main__':
    main()
