#!/usr/bin/env python3
"""Confirm a sub-agent's seeded change and run checks against it.
  tools/seeded.py verify <id>            demo fails with the patch (agent worktree) and passes on clean /repo HEAD; patch applies; pinned tests
  tools/seeded.py check <id> [Cxx ...]   run quick checks with RBQL_REPO=<worktree with the patch> (evidence redirected)
  tools/seeded.py apply-check <id> [Cxx ...]   git -C /repo apply; run quick checks against /repo; git -C /repo checkout -- .
"""
import json
import os
import shutil
import subprocess
import sys
import tempfile

HERE = os.path.dirname(os.path.dirname(os.path.abspath(__file__)))
SEED = os.environ.get('SEED_DIR', '/tmp/seed')


def sh(cmd, **kw):
    return subprocess.run(cmd, stdout=subprocess.PIPE, stderr=subprocess.STDOUT, text=True, **kw)


def demo_cmd(out, root):
    if os.path.exists(os.path.join(out, 'demo.py')):
        return ['/venv/bin/python', '-W', 'ignore', os.path.join(out, 'demo.py'), root]
    return ['/usr/bin/node', os.path.join(out, 'demo.js'), root]


def verify(pid, src=None):
    out = src or os.path.join(SEED, pid, 'out')
    patch = os.path.join(out, 'patch.diff')
    d = tempfile.mkdtemp(prefix='seedchk-', dir='/var/tmp')
    res = {}
    try:
        sh(['rsync', '-a', '--exclude', '.git', '/repo/', d + '/'])
        sh(['git', 'init', '-q'], cwd=d)
        r0 = sh(demo_cmd(out, d), timeout=600)
        res['demo_clean_exit'] = r0.returncode
        a = sh(['git', 'apply', '--whitespace=nowarn', patch], cwd=d)
        res['patch_applies'] = a.returncode == 0
        if a.returncode != 0:
            res['apply_output'] = a.stdout[-400:]
        r1 = sh(demo_cmd(out, d), timeout=600)
        res['demo_patched_exit'] = r1.returncode
        res['demo_patched_tail'] = r1.stdout[-300:]
        t = sh(['/venv/bin/python', '-m', 'pytest', '-q', '-p', 'no:cacheprovider', '--timeout=900', '--continue-on-collection-errors'], cwd=d, timeout=900)
        res['pinned_tests'] = t.stdout.strip().splitlines()[-1] if t.stdout.strip() else ''
        u = sh(['/venv/bin/python', '-W', 'ignore', '-m', 'unittest', 'test.test_csv_utils', 'test.test_rbql', 'test.test_rbql_sqlite', 'test.test_rbql_pandas', 'test.test_mad_max'], cwd=d, env=dict(os.environ, PYTHONPATH='./rbql-py', PYTHONDONTWRITEBYTECODE='1'), timeout=900)
        res['tree_unittests'] = u.stdout.strip().splitlines()[-1] if u.stdout.strip() else ''
    finally:
        shutil.rmtree(d, ignore_errors=True)
    res['confirmed'] = res.get('patch_applies') and res.get('demo_clean_exit') == 0 and res.get('demo_patched_exit') == 1 and '45 passed' in res.get('pinned_tests', '')
    return res


def run_checks(pid, props, root):
    results = {}
    ev = tempfile.mkdtemp(prefix='seedev-', dir='/var/tmp')
    try:
        for prop in props:
            env = dict(os.environ, RBQL_REPO=root, VERIF_EVIDENCE_DIR=os.path.join(ev, 'ev'), VERIF_REPLAY_DIR=os.path.join(ev, 'rp'))
            r = subprocess.run([os.path.join(HERE, 'check'), prop, 'quick'], env=env, stdout=subprocess.PIPE, stderr=subprocess.DEVNULL, text=True)
            mech = [l.strip()[:260] for l in r.stdout.splitlines() if l.strip().startswith('mechanism=')]
            results[prop] = {'exit': r.returncode, 'mechanisms': mech[:3]}
    finally:
        shutil.rmtree(ev, ignore_errors=True)
    return results


def main():
    cmd, pid = sys.argv[1], sys.argv[2]
    props = sys.argv[3:] or [pid[:3]]
    if cmd == 'verify':
        print(json.dumps(verify(pid), indent=1))
    elif cmd == 'check':
        d = tempfile.mkdtemp(prefix='seedrun-', dir='/var/tmp')
        try:
            sh(['rsync', '-a', '--exclude', '.git', '/repo/', d + '/'])
            sh(['git', 'init', '-q'], cwd=d)
            src = os.path.join(HERE, 'seeded', pid) if os.path.exists(os.path.join(HERE, 'seeded', pid, 'patch.diff')) else os.path.join(SEED, pid, 'out')
            a = sh(['git', 'apply', '--whitespace=nowarn', os.path.join(src, 'patch.diff')], cwd=d)
            if a.returncode != 0:
                print('patch does not apply:', a.stdout)
                return 2
            print(json.dumps(run_checks(pid, props, d), indent=1))
        finally:
            shutil.rmtree(d, ignore_errors=True)
    elif cmd == 'keep':
        # tools/seeded.py keep <pid> <name> [extra props...]: verify, run checks, copy to /verif/seeded/<name>/ with meta.json
        name = sys.argv[3]
        props = [pid[:3]] + sys.argv[4:]
        v = verify(pid)
        if not v.get('confirmed'):
            print('NOT CONFIRMED', json.dumps(v, indent=1))
            return 1
        out = os.path.join(SEED, pid, 'out')
        dst = os.path.join(HERE, 'seeded', name)
        os.makedirs(dst, exist_ok=True)
        for fn in os.listdir(out):
            if fn in ('patch.diff', 'demo.py', 'demo.js'):
                shutil.copy(os.path.join(out, fn), os.path.join(dst, fn))
        try:
            agent_meta = json.load(open(os.path.join(out, 'meta.json')))
        except Exception:
            agent_meta = {}
        d = tempfile.mkdtemp(prefix='seedrun-', dir='/var/tmp')
        try:
            sh(['rsync', '-a', '--exclude', '.git', '/repo/', d + '/'])
            sh(['git', 'init', '-q'], cwd=d)
            sh(['git', 'apply', '--whitespace=nowarn', os.path.join(dst, 'patch.diff')], cwd=d)
            checks = run_checks(pid, props, d)
        finally:
            shutil.rmtree(d, ignore_errors=True)
        meta = {
            'id': name,
            'property': pid[:3],
            'author': 'independent sub-agent (given only the property text and a scratch worktree)',
            'summary': agent_meta.get('summary'),
            'needs_to_manifest': agent_meta.get('needs'),
            'files': agent_meta.get('files'),
            'confirmed_by_me': {
                'patch_applies_to_clean_tree': v['patch_applies'],
                'demo_exit_on_clean_tree': v['demo_clean_exit'],
                'demo_exit_with_patch': v['demo_patched_exit'],
                'pinned_test_suite_with_patch': v['pinned_tests'],
                'repository_unit_tests_against_patched_tree': v['tree_unittests'],
                'how': 'tools/seeded.py verify: scratch copy of /repo under /var/tmp, demo run, git apply, demo run, pytest (pinned command), unittest with PYTHONPATH=./rbql-py',
            },
            'checks_run': {k: {'exit': c['exit'], 'caught': c['exit'] == 1 and bool(c['mechanisms']), 'first_mechanism': (c['mechanisms'][0] if c['mechanisms'] else None)} for k, c in checks.items()},
        }
        with open(os.path.join(dst, 'meta.json'), 'w') as f:
            json.dump(meta, f, indent=1)
        print(name, {k: (c['exit'] if (c['exit'] != 1 or c['mechanisms']) else 'exit-1-without-violation-line') for k, c in checks.items()})
    elif cmd == 'recheck-all':
        # every kept change against the current checks and the current /repo: the check of its own property must still exit 1
        from concurrent.futures import ThreadPoolExecutor
        names = sorted(n for n in os.listdir(os.path.join(HERE, 'seeded')) if os.path.exists(os.path.join(HERE, 'seeded', n, 'patch.diff')))
        only = sys.argv[3:] if len(sys.argv) > 3 else None

        def one(name):
            prop = name[:3]
            if only and prop not in only and name not in only:
                return None
            try:
                meta = json.load(open(os.path.join(HERE, 'seeded', name, 'meta.json')))
                caught = [k for k, v in meta.get('checks_run', {}).items() if v.get('exit') == 1]
                if caught and prop not in caught:
                    prop = caught[0]      # e.g. a change to the JS reader filed under the Python reader's property: the JS twin's check decides
            except Exception:
                pass
            d = tempfile.mkdtemp(prefix='seedrun-', dir='/var/tmp')
            try:
                sh(['rsync', '-a', '--exclude', '.git', '/repo/', d + '/'])
                sh(['git', 'init', '-q'], cwd=d)
                a = sh(['git', 'apply', '--whitespace=nowarn', os.path.join(HERE, 'seeded', name, 'patch.diff')], cwd=d)
                if a.returncode != 0:
                    return (name, 'PATCH-DOES-NOT-APPLY', a.stdout.strip()[-200:])
                r = run_checks(name, [prop], d)[prop]
                return (name, 'caught' if (r['exit'] == 1 and r['mechanisms']) else 'NOT-CAUGHT exit=%s' % r['exit'], (r['mechanisms'] or [''])[0][:120])
            finally:
                shutil.rmtree(d, ignore_errors=True)
        bad = 0
        with ThreadPoolExecutor(int(pid) if pid.isdigit() else 4) as ex:
            for r in ex.map(one, names):
                if r is None:
                    continue
                print('%-70s %s  %s' % r, flush=True)
                if r[1] != 'caught':
                    bad += 1
        print('not caught / not applicable: %d' % bad)
        return 1 if bad else 0
    elif cmd == 'apply-check':
        src = os.path.join(HERE, 'seeded', pid)
        a = sh(['git', '-C', '/repo', 'apply', '--whitespace=nowarn', os.path.join(src, 'patch.diff')])
        if a.returncode != 0:
            print('patch does not apply to /repo:', a.stdout)
            return 2
        try:
            print(json.dumps(run_checks(pid, props, '/repo'), indent=1))
        finally:
            sh(['git', '-C', '/repo', 'checkout', '--', '.'])
    return 0


if __name__ == '__main__':
    sys.exit(main())
